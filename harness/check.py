#!/venv/bin/python
"""./check <ID> --tier quick|thorough [--replay FILE]

For the given property: (1) regenerate constants from /repo, build the Lean project and
audit the property's theorems (proof obligations); (2) run the correspondence between the
Lean model and the real code plus the property monitors; (3) decide.
Exit 0 = property held on everything explored; 1 = VIOLATION (line printed); 2 = infrastructure error.
"""
import argparse
import importlib
import json
import logging
import os
import sys
import time
import traceback

HERE = os.path.dirname(os.path.abspath(__file__))
sys.path.insert(0, HERE)
import common  # noqa: E402

TRUSTED_BASE = [
    "Lean 4.33.0 kernel; axioms used by the property theorems are listed under coverage.axioms (allowed: propext, Classical.choice, Quot.sound; no native_decide/bv_decide/sorry/own axioms)",
    "hand-written Lean model TickitModel/Core/*.lean: tied to /repo only by the correspondence runs of this check (harness/, Lean driver lean/Driver.lean)",
    "harness: virtual-clock event loop, harness bus classes, probe devices, canonicalisation, JSON driver protocol",
    "CPython/asyncio semantics, pydantic, PyYAML, re, json, aiohttp, aiozmq, softioc, aiokafka are parameters of the model (not modelled)",
]


def load_known():
    p = os.path.join(common.VERIF, "KNOWN_FINDINGS.json")
    if not os.path.exists(p):
        return []
    return json.load(open(p)).get("findings", [])


def matches(entry, record):
    sig = entry.get("signature", {})
    if sig.get("kind") and sig["kind"] != record.get("kind"):
        return False
    if sig.get("site") and sig["site"] != record.get("site"):
        return False
    for k, v in (sig.get("features") or {}).items():
        if record.get("features", {}).get(k) != v:
            return False
    return True


def main():
    ap = argparse.ArgumentParser()
    ap.add_argument("pid")
    ap.add_argument("--tier", default=os.environ.get("VERIF_TIER", "quick"), choices=["quick", "thorough"])
    ap.add_argument("--replay")
    ap.add_argument("--no-build", action="store_true")
    args = ap.parse_args()
    pid = args.pid.upper()
    logging.disable(logging.CRITICAL)
    t0 = time.time()
    try:
        mod = importlib.import_module(f"props.{pid.lower()}")
    except ImportError:
        print(f"no check for {pid}: {traceback.format_exc()}")
        return 2
    seed = common.seed()
    drv = common.Driver()

    if args.replay:
        payload = json.load(open(args.replay if os.path.isabs(args.replay) else os.path.join(common.VERIF, args.replay)))
        common.build_and_audit(mod.MODULES, [], need_driver=True)
        out = mod.replay(payload, drv)
        print(json.dumps(out, indent=1, default=str))
        vs = out.get("violations") or []
        if vs:
            print(f"VIOLATION property={pid} replay={args.replay}")
            return 1
        return 0

    # 1. proofs
    if args.no_build:
        # matrix runs against scratch copies (PYTHONPATH=<copy>/src): the Lean side is assumed built
        audit = {"failures": [], "axioms": {}, "obligations": len(mod.THEOREMS), "discharged": len(mod.THEOREMS), "gen": {"constants": None}, "wall_s": 0}
    else:
      audit = common.build_and_audit([m for m in mod.MODULES if os.path.exists(os.path.join(common.LEAN, m.replace('.', '/') + '.lean'))], mod.THEOREMS, need_driver=True)
    proof_failures = list(audit["failures"])
    if args.tier == "thorough" and not proof_failures:
        try:
            rc, tail = common.leanchecker([m for m in mod.MODULES if os.path.exists(os.path.join(common.LEAN, m.replace('.', '/') + '.lean'))])
            audit["leanchecker"] = "ok" if rc == 0 else tail
            if rc != 0:
                proof_failures.append({"kind": "leanchecker", "what": "leanchecker rejected the compiled modules", "detail": tail})
        except Exception as e:
            audit["leanchecker"] = f"not run: {e!r}"
    if any(f["kind"] == "build-module" and f["what"] == "driver" for f in proof_failures) or not os.path.exists(common.DRIVER):
        print("infrastructure error: Lean driver does not build", proof_failures)
        return 2

    # 2. correspondence + monitors
    try:
        import contextlib
        import io
        with contextlib.redirect_stdout(io.StringIO()):
            res = mod.run(args.tier, seed, drv)
    except Exception:
        print("infrastructure error in check run:\n" + traceback.format_exc())
        return 2

    known = [k for k in load_known() if k.get("property") == pid and k.get("status") == "open"]
    known_hit, new_viol = {}, []
    for v in res.violations:
        hit = next((k for k in known if matches(k, v["record"])), None)
        if hit is not None:
            known_hit.setdefault(hit["what"], v)
        else:
            new_viol.append(v)

    broken = bool(proof_failures) or bool(res.divergences)
    searched = None
    if broken and not new_viol and hasattr(mod, "search"):
        # a proof obligation or the correspondence broke: look harder for a concrete failing input
        try:
            searched = mod.search(seed, drv, res)
            for v in searched.violations:
                hit = next((k for k in known if matches(k, v["record"])), None)
                if hit is None:
                    new_viol.append(v)
        except Exception:
            res.notes.append("search failed: " + traceback.format_exc()[-300:])

    wall = time.time() - t0
    coverage = {
        "obligations": audit["obligations"], "discharged": audit["discharged"],
        "checker_cmd": "cd lean && lake build " + " ".join(mod.MODULES) + "  # then `#print axioms` on each theorem via `lake env lean`",
        "trusted_base": TRUSTED_BASE + getattr(mod, "EXTRA_TRUST", []),
        "theorems": mod.THEOREMS, "axioms": audit["axioms"],
        "proof_failures": proof_failures[:10],
        "evaluations": res.evaluations, "distinct_nontrivial": len(res.nontrivial), "rule": res.rule,
        "samples": res.samples, "exhaustive": res.exhaustive,
        "traces_validated_against_impl": res.traces_validated,
        "correspondence_divergences": len(res.divergences),
        "divergence_samples": res.divergences[:3],
        "input_distribution": res.dist, "generated_constants": audit.get("gen", {}).get("constants"),
        "known_findings_reproduced": sorted(known_hit), "notes": res.notes,
        "source_fingerprint": common.source_fingerprint(getattr(mod, "ANCHORS", [])),
        "lean_build_wall_s": audit.get("wall_s"), "leanchecker": audit.get("leanchecker", "thorough tier only"),
    }
    rc = 0
    lines = []
    for what in sorted(known_hit):
        lines.append(f"KNOWN-FINDING: property={pid} {what}")
    if new_viol:
        v = new_viol[0]
        path = common.write_replay(pid, {"property": pid, "record": v["record"], "case": v["case"], "seed": seed,
                                         "tier": args.tier, "how": f"./check {pid} --replay <this file>"})
        lines.append(f"VIOLATION property={pid} replay={path}")
        rc = 1
    elif broken:
        path = common.write_replay(pid, {"property": pid, "no_failing_input_found": True,
                                         "broken_proof_obligations": proof_failures,
                                         "broken_correspondence": res.divergences[:5], "seed": seed, "tier": args.tier})
        lines.append(f"VIOLATION property={pid} replay={path} no-failing-input-found")
        rc = 1
    common.write_evidence(pid, args.tier, "proof", coverage, getattr(mod, "ASSUMPTIONS", []), wall,
                          violations=len(new_viol) + (1 if (broken and not new_viol) else 0))
    for l in lines:
        print(l)
    print(f"{pid} {args.tier}: obligations {audit['discharged']}/{audit['obligations']} discharged; "
          f"{res.evaluations} cases ({len(res.nontrivial)} distinct non-trivial), "
          f"{len(res.divergences)} model/impl divergences, {len(res.violations)} monitor findings "
          f"({len(new_viol)} new), {wall:.1f}s")
    if new_viol:
        print("  first:", json.dumps(new_viol[0]["record"], default=str)[:400])
    if res.divergences:
        print("  first divergence:", str(res.divergences[0]["what"])[:400])
    if proof_failures:
        print("  proof failures:", json.dumps(proof_failures[:3], default=str)[:600])
    return rc


if __name__ == "__main__":
    try:
        sys.exit(main())
    except SystemExit:
        raise
    except Exception:
        print("infrastructure error:\n" + traceback.format_exc())
        sys.exit(2)
