"""Virtual-clock asyncio event loop (integer nanoseconds) used to run the real tickit code.

* `time()` is the virtual clock; when nothing is ready the clock jumps to the next timer.
* timer deadlines are quantised to integer nanoseconds.
* every iteration of the loop is a numbered *step*; callbacks can be registered to run at
  the beginning of a given step (used to inject interrupts / start processes at chosen
  event-loop steps).
* if nothing is ready and no timer is pending the loop records `stalled` and stops.
"""
import asyncio
import os
import heapq
import time as _time
from contextlib import contextmanager


class Stalled(Exception):
    pass


class VLoop(asyncio.SelectorEventLoop):
    def __init__(self, start_ns: int = 1_000_000_000):
        super().__init__()
        self._vnow_ns = int(start_ns)
        self.step = 0
        self.stalled = False
        self.at_step = {}  # step -> list of callables
        self.step_hooks = []  # callables(step) run at the start of every step
        self.max_steps = None
        self.budget_exceeded = False
        self.on_stall = None
        self.step_cost_ns = 0   # real time that passes per loop iteration (0 = infinitely fast loop)

    # ---- clock
    def time(self) -> float:
        return self._vnow_ns / 1e9

    def now_ns(self) -> int:
        return self._vnow_ns

    def advance(self, ns: int) -> None:
        """Processing cost: the clock moves while a callback runs."""
        self._vnow_ns += int(ns)

    def call_at(self, when, callback, *args, context=None):
        # a timer never fires before its time: times that are no whole number of ns are rounded UP (float noise below
        # a thousandth of a ns aside) - rounding to the nearest ns would start a sleep-paced tick up to 0.5 ns early
        import math
        q = math.ceil(when * 1e9 - 1e-3) / 1e9
        return super().call_at(q, callback, *args, context=context)

    def _run_once(self):
        self.step += 1
        if self.step_cost_ns and (self._ready or self._scheduled):
            # real time passes while the loop iterates; a list means "drawn per iteration"
            if isinstance(self.step_cost_ns, (list, tuple)):
                self._cost_rng = getattr(self, "_cost_rng", None) or __import__("random").Random(self.step_cost_ns[0])
                self._vnow_ns += self._cost_rng.choice(self.step_cost_ns[1:])
            else:
                self._vnow_ns += self.step_cost_ns
        if self.max_steps is not None and self.step > self.max_steps:
            self.budget_exceeded = True
            self.stop()
        for fn in self.at_step.pop(self.step, []):
            fn()
        for fn in self.step_hooks:
            fn(self.step)
        # drop cancelled timer heads
        while self._scheduled and self._scheduled[0]._cancelled:
            h = heapq.heappop(self._scheduled)
            self._timer_cancelled_count -= 1
            h._scheduled = False
        if not self._ready:
            if self._scheduled:
                when_ns = round(self._scheduled[0]._when * 1e9)
                if when_ns > self._vnow_ns:
                    self._vnow_ns = when_ns
            elif not self._stopping and any(k > self.step for k in self.at_step):
                # idle, but something is planned for a later step (an injected interrupt, a late start):
                # iterate idly until then instead of declaring the run over
                self.call_soon(lambda: None)
            elif not self._stopping:
                # nothing can ever happen again
                self.stalled = True
                if self.on_stall is None or not self.on_stall():
                    self.stop()
        super()._run_once()


@contextmanager
def patched_clock(loop: VLoop):
    """Redirect wall-clock readers to the virtual clock while the simulation runs."""
    import tickit.core.management.schedulers.master as master

    saved = (_time.time_ns, _time.time, _time.monotonic, _time.monotonic_ns,
             getattr(master, "time_ns", None))
    _time.time_ns = loop.now_ns
    _time.time = loop.time
    _time.monotonic = loop.time
    _time.monotonic_ns = loop.now_ns
    if saved[4] is not None:
        master.time_ns = loop.now_ns
    try:
        yield
    finally:
        _time.time_ns, _time.time, _time.monotonic, _time.monotonic_ns = saved[:4]
        if saved[4] is not None:
            master.time_ns = saved[4]


class WallClockExceeded(Exception):
    pass


def run_virtual(main_factory, *, start_ns=1_000_000_000, max_steps=200_000, at_step=None, step_cost_ns=0):
    """Run `await main_factory(loop)` on a fresh VLoop. Returns (result, loop).
    result is ('ok', value) | ('stalled', None) | ('budget', None) | ('error', exc)."""
    loop = VLoop(start_ns)
    loop.max_steps = max_steps
    loop.step_cost_ns = step_cost_ns
    if at_step:
        for k, fns in at_step.items():
            loop.at_step.setdefault(k, []).extend(fns)
    asyncio.set_event_loop(loop)
    # wall-clock watchdog: code under test that spins WITHOUT ever yielding to the event loop (e.g. `while not x: await
    # event.wait()` on an event that stays set) cannot be stopped by the virtual loop's step budget; an alarm raises inside
    # it instead, and the run is reported as not completed
    import signal
    import threading
    wall = float(os.environ.get("VERIF_WALL_LIMIT", "120"))
    armed = False
    if threading.current_thread() is threading.main_thread() and wall > 0:
        try:
            def _alarm(signum, frame):
                raise WallClockExceeded(f"no progress of the event loop within {wall:.0f} s of wall-clock time (the code under test spins without yielding)")
            old_handler = signal.signal(signal.SIGALRM, _alarm)
            signal.setitimer(signal.ITIMER_REAL, wall)
            armed = True
        except (ValueError, OSError):
            armed = False
    try:
        with patched_clock(loop):
            try:
                val = loop.run_until_complete(main_factory(loop))
                res = ("ok", val)
            except WallClockExceeded as e:
                res = ("error", e)
            except RuntimeError as e:
                if loop.stalled:
                    res = ("stalled", None)
                elif loop.budget_exceeded:
                    res = ("budget", None)
                else:
                    res = ("error", e)
            except Exception as e:  # noqa
                res = ("error", e)
            except asyncio.CancelledError as e:  # the awaited call was torn down by a cancellation nobody requested
                res = ("error", e)
            # cancel what is left
            try:
                pending = [t for t in asyncio.all_tasks(loop) if not t.done()]
                for t in pending:
                    t.cancel()
                if pending:
                    loop.max_steps = None
                    loop.stalled = False
                    loop.run_until_complete(asyncio.gather(*pending, return_exceptions=True))
            except Exception:
                pass
    finally:
        if armed:
            signal.setitimer(signal.ITIMER_REAL, 0)
            signal.signal(signal.SIGALRM, old_handler)
        asyncio.set_event_loop(None)
        try:
            loop.close()
        except Exception:
            pass
    return res, loop
