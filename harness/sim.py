"""Run the real tickit classes (from /repo's working tree) on a scenario, under the
virtual clock, with harness buses, probe devices and ticker instrumentation.

Scenario (JSON-able dict):
  {"components": [comp...], "t0": int, "speed": [num, den],
   "stims": [{"real": ns_after_start [, "yields": loop iterations after that] | "step": loop_step, "comp": name}],
   "n_ticks": int, "start_delays": {proc: steps}, "max_real": ns}
  comp := {"name", "kind": "dev", "inputs": {port: [src, port]}, "beh": {...}}
        | {"name", "kind": "sys", "inputs": {...}, "components": [...], "expose": {port: [c, p]}}
  beh  := {"outs": [{"port","kind":"const|counter|sum|time","v","mod","step","omit_mod","omit_phase"}],
           "cb": {"kind":"none|period|list", "p": int, "delays": [int|None...]},
           "fail_at": int|None, "cost": ns, "adapter_fail_at": int|None, "n_adapters": int}
"""
import asyncio
import os
import itertools
from contextlib import contextmanager

from buses import HeldBus, KafkaFakeBus, PrefixChooser, RealInternalBus, SeededChooser, SyncBus, Trace
from vloop import run_virtual


# ---------------------------------------------------------------- probe device / adapter
class ProbeFailure(Exception):
    pass


def _plain(x):
    """a deep, JSON-shaped copy (tuples become lists): what was seen at this moment, not a reference to it"""
    import json
    return json.loads(json.dumps(x, default=lambda o: list(o) if isinstance(o, (set, frozenset, tuple)) else repr(o)))


def make_iobox(name, beh, ctx):
    """tickit's own IoBoxDevice, observed: every update is logged with deep copies of what it was given and what
    it returned; the harness writes to it (as an adapter would) through ctx['devices'][name].write"""
    from tickit.devices.iobox import IoBoxDevice

    class ObservedIoBox(IoBoxDevice):
        def __init__(self):
            super().__init__()
            self._vn = 0

        def update(self, time, inputs):
            n = self._vn
            self._vn += 1
            loop = ctx["loop"]
            ev = ctx["trace"].log("update", comp=name, time=int(time), inputs=_plain(dict(inputs)), idx=n, real=loop.now_ns(), step=loop.step)
            upd = super().update(time, inputs)
            ev["outs"] = _plain(dict(upd.outputs))
            ev["call_at"] = None if upd.call_at is None else int(upd.call_at)
            return upd
    d = ObservedIoBox()
    ctx.setdefault("devices", {})[name] = d
    return d


def make_device(name, beh, ctx):
    from tickit.core.device import Device, DeviceUpdate
    from tickit.core.typedefs import SimTime
    if beh.get("iobox"):
        return make_iobox(name, beh, ctx)

    class ProbeDevice(Device):
        def __init__(self):
            self.n = 0

        def update(self, time, inputs):
            n = self.n
            self.n += 1
            loop = ctx["loop"]
            ev = ctx["trace"].log("update", comp=name, time=int(time), inputs=dict(inputs),
                                  idx=n, real=loop.now_ns(), step=loop.step)
            cost = beh.get("cost", 0)
            if cost:
                loop.advance(cost)
            if beh.get("fail_at") is not None and beh["fail_at"] == n:
                ev["raises"] = True
                ctx["trace"].log("probe-raised", comp=name, hook="device", idx=n)
                raise ProbeFailure(f"probe-fail:{name}:{n}")
            outs = {}
            if beh.get("relay"):
                # a pass-through device: it hands back the very mapping it was given (outputs alias inputs)
                outs = inputs
            for o in ([] if beh.get("relay") else beh.get("outs", [])):
                om = o.get("omit_mod", 0)
                if om and n % om == o.get("omit_phase", 0):
                    continue
                kind = o.get("kind", "const")
                mod = o.get("mod", 5)
                if kind == "const":
                    val = o.get("v", 0)
                elif kind == "counter":
                    val = (o.get("v", 0) + n * o.get("step", 1)) % mod
                elif kind == "sum":
                    val = (o.get("v", 0) + sum(int(x) for x in inputs.values() if isinstance(x, int))) % mod
                elif kind == "cycle":
                    vals = o.get("vals", [None, 0])
                    val = vals[n % len(vals)]
                elif kind == "time":
                    val = int(time)
                else:
                    val = 0
                outs[o["port"]] = val
            cb = beh.get("cb", {"kind": "none"})
            call_at = None
            if cb.get("kind") == "period":
                call_at = SimTime(int(time) + cb["p"])
            elif cb.get("kind") == "list":
                ds = cb.get("delays", [])
                d = ds[n] if n < len(ds) else None
                call_at = None if d is None else SimTime(int(time) + d)
            ev["outs"] = dict(outs)
            ev["call_at"] = None if call_at is None else int(call_at)
            return DeviceUpdate(outs, call_at)

    return ProbeDevice()


def make_adapter(comp_name, idx, beh, ctx):
    """probe adapter container: records after_update notifications; its io records the
    raise_interrupt callable so that the harness can raise interrupts for this component"""
    from tickit.core.adapter import AdapterContainer, AdapterIo

    class ProbeAdapter:
        def __init__(self):
            self.n = 0

        def after_update(self):
            n = self.n
            self.n += 1
            ctx["trace"].log("after_update", comp=comp_name, adapter=idx, idx=n)
            if beh.get("adapter_fail_at") is not None and beh["adapter_fail_at"] == n and idx == 0:
                ctx["trace"].log("probe-raised", comp=comp_name, hook="adapter", idx=n)
                raise ProbeFailure(f"probe-adapter-fail:{comp_name}:{n}")

    class ProbeIo(AdapterIo):
        async def setup(self, adapter, raise_interrupt):
            ctx["raisers"].setdefault(comp_name, raise_interrupt)
            if beh.get("io_returns") and idx >= 1:
                # an io whose setup returns as soon as it is set up (like TcpIo / EpicsIo / ZeroMqPushIo), next to the
                # first adapter's io, which serves until it is cancelled (like HttpIo)
                ctx["trace"].log("io-setup-returned", comp=comp_name, adapter=idx)
                return
            if ctx.get("adapter_wait", True):
                try:
                    await asyncio.Event().wait()
                except asyncio.CancelledError:
                    # the serving io of this adapter is shut down while the simulation runs (legitimately: StopComponent)
                    if not ctx.get("teardown"):
                        ctx["trace"].log("io-cancelled", comp=comp_name, adapter=idx, real=ctx["loop"].now_ns() if ctx.get("loop") else None)
                    raise

    return AdapterContainer(ProbeAdapter(), ProbeIo())


def make_epics_adapter(comp_name, ctx, beh=None):
    """the shipped EpicsAdapter class driven without a network: record setters are recorders.  `epics_fail_at` = n with
    `epics_fail_where` = "getter" | "set": the linked getter / the record's setter raises when called for the n-th update"""
    beh = beh or {}
    from tickit.adapters.epics import EpicsAdapter, InputRecord
    from tickit.core.adapter import AdapterContainer, AdapterIo

    class A(EpicsAdapter):
        def on_db_load(self):
            pass

    a = A()
    counter = {"n": 0}

    def setter(v, name=comp_name):
        if beh.get("epics_fail_where") == "set" and beh.get("epics_fail_at") == counter["n"] - 1:
            ctx["trace"].log("probe-raised", comp=name, hook="epics-set", idx=counter["n"] - 1)
            raise ProbeFailure(f"probe-adapter-fail:{name}:{counter['n'] - 1}")
        ctx["trace"].log("record-set", comp=name, value=v)

    def getter():
        counter["n"] += 1
        if beh.get("epics_fail_where") == "getter" and beh.get("epics_fail_at") == counter["n"] - 1:
            ctx["trace"].log("probe-raised", comp=comp_name, hook="epics-getter", idx=counter["n"] - 1)
            raise ProbeFailure(f"probe-adapter-fail:{comp_name}:{counter['n'] - 1}")
        return counter["n"]

    rec = InputRecord(f"{comp_name}:REC", setter, lambda: None)
    a.link_input_on_interrupt(rec, getter)

    class Io(AdapterIo):
        async def setup(self, adapter, raise_interrupt):
            adapter.interrupt = raise_interrupt
            await asyncio.Event().wait()

    return AdapterContainer(a, Io())


def make_command_adapter(comp_name, ctx):
    """a shipped-style CommandAdapter subclass (no server is started)"""
    from tickit.adapters.specifications.regex_command import RegexCommand
    from tickit.adapters.tcp import CommandAdapter
    from tickit.core.adapter import AdapterContainer, AdapterIo

    class A(CommandAdapter):
        def after_update(self):
            ctx["trace"].log("after_update", comp=comp_name, adapter="command", idx=-1)

        @RegexCommand(rb"X", interrupt=True)
        async def x(self) -> bytes:
            return b"x"

    class Io(AdapterIo):
        async def setup(self, adapter, raise_interrupt):
            await asyncio.Event().wait()

    return AdapterContainer(A(), Io())


class DuckConfig:
    """stands in for a ComponentConfig (the scheduler and SystemComponent only use
    `.name`, `.inputs` and `config()`)."""

    def __init__(self, comp, ctx):
        from tickit.core.typedefs import ComponentPort
        self.name = comp["name"]
        self.inputs = {q: ComponentPort(src[0], src[1]) for q, src in comp.get("inputs", {}).items()}
        self._comp = comp
        self._ctx = ctx

    def __call__(self):
        return build_component(self._comp, self._ctx)


def build_component(comp, ctx):
    from tickit.core.components.device_component import DeviceComponent
    from tickit.core.components.system_component import SystemComponent
    from tickit.core.typedefs import ComponentPort
    if comp["kind"] == "dev":
        beh = comp.get("beh", {})
        adapters = [make_adapter(comp["name"], i, beh, ctx) for i in range(beh.get("n_adapters", 1))]
        if beh.get("epics"):
            adapters.append(make_epics_adapter(comp["name"], ctx, beh))
        if beh.get("command"):
            adapters.append(make_command_adapter(comp["name"], ctx))
        dc = DeviceComponent(name=comp["name"], device=make_device(comp["name"], beh, ctx), adapters=adapters)
        ctx["components"][comp["name"]] = dc
        return dc
    else:
        kw = {}
        if comp.get("sys_adapter"):
            kw["adapter"] = make_system_adapter(comp["name"], ctx)
        sc = SystemComponent(
            name=comp["name"],
            components=[DuckConfig(c, ctx) for c in comp["components"]],
            expose={p: ComponentPort(s[0], s[1]) for p, s in comp.get("expose", {}).items()},
            **kw,
        )
        ctx["components"][comp["name"]] = sc
        return sc


def make_system_adapter(sys_name, ctx):
    """an adapter on a SYSTEM simulation (tickit's BaseSystemSimulationAdapter): when its io is set up it reports which
    inner components and which wiring the system component has handed it; the io serves until cancelled and keeps the
    system's raise_interrupt so that the harness can interrupt the system itself"""
    from tickit.adapters.system import BaseSystemSimulationAdapter
    from tickit.core.adapter import AdapterContainer, AdapterIo

    class ProbeSystemAdapter(BaseSystemSimulationAdapter):
        pass

    class ProbeSystemIo(AdapterIo):
        async def setup(self, adapter, raise_interrupt):
            comps = getattr(adapter, "_components", None)
            wiring = getattr(adapter, "_wiring", None)
            conns = None
            if wiring is not None:
                try:
                    conns = sorted(f"{src.component}:{src.port}>{c}:{q}" for c, ports in wiring.items() for q, src in ports.items())
                except Exception:   # noqa: BLE001 - a Wiring (output -> inputs) rather than an InverseWiring
                    conns = sorted(f"{c}:{p}>{t.component}:{t.port}" for c, ports in wiring.items() for p, ts in ports.items() for t in ts)
            ctx["trace"].log("sys-adapter-setup", comp=sys_name, components=None if comps is None else sorted(comps), conns=conns,
                             kinds=None if comps is None else sorted(type(v).__name__ for v in comps.values()))
            ctx["raisers"].setdefault(sys_name, raise_interrupt)
            try:
                await asyncio.Event().wait()
            except asyncio.CancelledError:
                if not ctx.get("teardown"):
                    ctx["trace"].log("io-cancelled", comp=sys_name, adapter="system", real=ctx["loop"].now_ns() if ctx.get("loop") else None)
                raise

    return AdapterContainer(ProbeSystemAdapter(), ProbeSystemIo())


# ---------------------------------------------------------------- ticker instrumentation
@contextmanager
def instrument_tickers(ctx):
    """wrap the public API of every Ticker created during the run (observation only)."""
    from tickit.core.management import ticker as ticker_mod
    T = ticker_mod.Ticker
    o_init, o_call, o_prop = T.__init__, T.__call__, T.propagate
    ids = itertools.count(1)
    trace = ctx["trace"]

    def wiring_dict(t):
        w = t.event_router.wiring
        return {c: {p: sorted([list(x) for x in ins]) for p, ins in ports.items()} for c, ports in w.items()}

    def init(self, wiring, update_component, skip_component):
        tid = next(ids)

        def upd(inp):
            trace.log("t-dispatch", tid=tid, dk="input", comp=inp.target, time=inp.time, changes=dict(inp.changes))
            return update_component(inp)

        def skp(skip):
            trace.log("t-dispatch", tid=tid, dk="skip", comp=skip.source, time=skip.time, changes={})
            return skip_component(skip)

        o_init(self, wiring, upd, skp)
        self._vid = tid
        trace.log("t-new", tid=tid, wiring=wiring_dict(self))

    async def call(self, time, update_components):
        loop = ctx["loop"]
        trace.log("t-call", tid=self._vid, time=int(time), roots=sorted(update_components),
                  real=loop.now_ns(), step=loop.step)
        try:
            await o_call(self, time, update_components)
        except asyncio.CancelledError:
            raise
        except BaseException as e:
            trace.log("t-error", tid=self._vid, where="call", error=f"{type(e).__name__}:{e}")
            raise
        trace.log("t-done", tid=self._vid, time=int(time), real=loop.now_ns(), step=loop.step)

    async def propagate(self, output):
        trace.log("t-answer", tid=self._vid, src=output.source, time=int(output.time),
                  changes=dict(output.changes), skip=type(output).__name__ == "Skip")
        try:
            await o_prop(self, output)
        except asyncio.CancelledError:
            raise
        except BaseException as e:
            trace.log("t-error", tid=self._vid, where="propagate", src=output.source,
                      error=f"{type(e).__name__}:{e}")
            raise

    # the master scheduler's add_wakeup (public, overridable hook of BaseScheduler): which entry results
    from tickit.core.management.schedulers import master as master_mod
    M = master_mod.MasterScheduler
    o_add = M.add_wakeup

    def add_wakeup(self, component, when):
        r = o_add(self, component, when)
        try:
            trace.log("m-add", comp=component, asked=int(when), entry=int(self.wakeups[component]))
        except Exception:
            trace.log("m-add", comp=component, asked=int(when), entry=None)
        return r

    T.__init__, T.__call__, T.propagate = init, call, propagate
    M.add_wakeup = add_wakeup
    try:
        yield
    finally:
        T.__init__, T.__call__, T.propagate = o_init, o_call, o_prop
        M.add_wakeup = o_add


# ---------------------------------------------------------------- running
def top_inverse(scn):
    return {c["name"]: {q: (s[0], s[1]) for q, s in c.get("inputs", {}).items()} for c in scn["components"]}


def all_devices(comps, depth=0, parent=""):
    """[(name, comp, depth, parent_level)] for every device at every depth"""
    out = []
    for c in comps:
        if c["kind"] == "dev":
            out.append((c["name"], c, depth, parent))
        else:
            out.extend(all_devices(c["components"], depth + 1, c["name"]))
    return out


def all_systems(comps, depth=0, parent=""):
    out = []
    for c in comps:
        if c["kind"] == "sys":
            out.append((c["name"], c, depth, parent))
            out.extend(all_systems(c["components"], depth + 1, c["name"]))
    return out


def run_scenario(scn, *, bus="sync", chooser=None, seed=0, max_steps=None, use_simulation_run=False,
                 stop_when=None, extra_main=None):
    """returns dict(trace=Trace, result=..., loop_steps=..., end_real=..., tasks=...)"""
    from tickit.core.management.event_router import InverseWiring
    from tickit.core.management.schedulers.master import MasterScheduler
    from tickit.core.typedefs import ComponentPort

    trace = Trace()
    ctx = {"trace": trace, "raisers": {}, "components": {}, "loop": None}
    n_ticks = scn.get("n_ticks", 3)
    speed = scn.get("speed", [1, 1])
    start_delays = scn.get("start_delays", {})
    info = {}

    async def main(loop):
        ctx["loop"] = loop
        info["loop"] = loop
        start_real = loop.now_ns()
        info["start_real"] = start_real
        if bus == "sync":
            b = SyncBus(trace, loop)
        elif bus == "internal":
            b = RealInternalBus(trace, loop)
        elif bus == "kafka":
            b = KafkaFakeBus(trace, chooser or SeededChooser(seed), loop)
        else:
            b = HeldBus(trace, chooser or SeededChooser(seed), loop)
            b.start()
        info["bus"] = b
        Consumer, Producer = b.classes()
        file_parts = scn.get("from_file")
        if file_parts:
            # the scenario goes through tickit's own loading path: written to a YAML configuration file, read back by
            # read_configs (tagged union), wired by InverseWiring.from_component_configs, built by build_simulation - as ONE
            # simulation or divided over several (scheduler here, components there) - with the run's bus classes registered
            # as a state interface of their own, and started through TickitSimulation.run()
            import tempfile
            import yaml
            import vt_config
            from tickit.core.simulation import build_simulation
            from tickit.core.state_interfaces import state_interface as SI
            assert scn.get("t0", 0) == 0 and speed == [1, 1], "build_simulation uses the default initial time and speed"
            vt_config.CTX["ctx"] = ctx
            d = tempfile.mkdtemp(prefix="vtcfg_")
            path = os.path.join(d, "cfg.yaml")
            with open(path, "w") as f:
                yaml.safe_dump(vt_config.entries(scn["components"]), f)
            # the run's bus classes are registered as a state interface: under a name of their own, or - when they ARE
            # tickit's in-memory interface (observed) - under its own name "internal", as `tickit all` would select it
            backend = "internal" if bus == "internal" else "vtbus"
            info["registry_saved"] = (backend, SI.consumers.get(backend), SI.producers.get(backend))
            SI.add(backend, False)(Consumer)
            SI.add(backend, False)(Producer)
            sims = []
            try:
                for p_ in file_parts:
                    kw = {"include_schedulers": bool(p_.get("scheduler"))}
                    if p_.get("components") == "none":
                        kw["include_components"] = False
                    else:
                        kw["components_to_run"] = None if p_.get("components") is None else set(p_["components"])
                    sims.append(build_simulation(path, backend, **kw))
            finally:
                try:
                    os.remove(path)
                    os.rmdir(d)
                except OSError:
                    pass
            def parts_of(s_):
                # (whatever the simulation object calls its attributes: the scheduler is the MasterScheduler it holds, the
                #  components are the mapping of names to components it holds)
                sch = next((v for v in vars(s_).values() if isinstance(v, MasterScheduler)), None)
                cps = next((v for v in vars(s_).values() if isinstance(v, dict) and all(hasattr(x, "run_forever") for x in v.values())), None) or {}
                return sch, cps
            sched = next(parts_of(s_)[0] for s_ in sims if parts_of(s_)[0] is not None)
            info["scheduler"] = sched
            info["built"] = [{"scheduler": parts_of(s_)[0] is not None, "components": sorted(parts_of(s_)[1].keys())} for s_ in sims]
            # (get_interface is consulted again when the components are started: the registration stays until the run is over)
            tasks = []
            for k, s_ in enumerate(sims):
                async def start(s_=s_, k=k):
                    for _ in range(start_delays.get(f"#part{k}", 0)):
                        await asyncio.sleep(0)
                    trace.log("start", proc=f"#part{k}", step=loop.step)
                    await s_.run()
                tasks.append(asyncio.create_task(start(), name=f"tickit-part-{k}"))
            comps = ctx["components"]
        else:
            inv = InverseWiring({n: {q: ComponentPort(*s) for q, s in ins.items()} for n, ins in top_inverse(scn).items()})
            sched = MasterScheduler(inv, Consumer, Producer, initial_time=scn.get("t0", 0),
                                    simulation_speed=speed[0] / speed[1])
            info["scheduler"] = sched
            comps = {c["name"]: build_component(c, ctx) for c in scn["components"]}

        async def delayed(k, coro_fn, label):
            for _ in range(k):
                await asyncio.sleep(0)
            trace.log("start", proc=label, step=loop.step)
            await coro_fn()

        if not file_parts:
            tasks = []
            tasks.append(asyncio.create_task(
                delayed(start_delays.get("", 0), sched.run_forever, ""), name="tickit-master"))
            for name, comp in comps.items():
                tasks.append(asyncio.create_task(
                    delayed(start_delays.get(name, 0), lambda comp=comp: comp.run_forever(Consumer, Producer), name),
                    name=f"tickit-comp-{name}"))
        info["tasks"] = tasks
        info["components"] = comps

        # stimuli at virtual real times (relative to start)
        async def stim_task(st):
            if "real" in st:
                await asyncio.sleep(st["real"] / 1e9)
            for _ in range(st.get("yields", 0)):
                # arrive a given number of loop iterations after that instant (sweeps across a tick that
                # runs at the same virtual instant when iterations cost no real time)
                await asyncio.sleep(0)
            if st.get("pre_cost"):
                # the adapter does some work before it raises (real time passes inside this loop iteration,
                # so timers that become due meanwhile have not fired yet when the interrupt is handled)
                loop.advance(st["pre_cost"])
            if st.get("write") is not None:
                # an adapter writes to the IoBox device and then interrupts
                ctx["devices"][st["comp"]].write(st["write"][0], st["write"][1])
            await do_interrupt(st["comp"])

        async def do_interrupt(c):
            r = ctx["raisers"].get(c)
            trace.log("raise", comp=c, real=loop.now_ns(), step=loop.step, ok=r is not None)
            if r is not None:
                await r()

        ctx["do_interrupt"] = do_interrupt
        for st in scn.get("stims", []):
            if "real" in st:
                tasks_st = asyncio.create_task(stim_task(st), name="harness-stim")
            elif "step" in st:
                loop.at_step.setdefault(st["step"], []).append(
                    lambda c=st["comp"]: asyncio.ensure_future(do_interrupt(c)))
        if extra_main is not None:
            asyncio.create_task(extra_main(ctx, info), name="harness-extra")

        # stop condition: n_ticks master ticks completed (t-done of ticker 1), or run ended
        def done_ticks():
            tid = getattr(getattr(sched, "ticker", None), "_vid", None)
            return sum(1 for e in trace.events if e["k"] == "t-done" and e["tid"] == tid)

        max_real = scn.get("max_real")
        stop_fut = loop.create_future()
        info["stalled"] = False

        def check(step):
            if stop_fut.done():
                return
            if stop_when is not None:
                if stop_when(trace, info):
                    stop_fut.set_result("cond")
                    return
            elif done_ticks() >= n_ticks and (bus in ("sync", "internal") or info["bus"].idle()):
                stop_fut.set_result("ticks")
                return
            if all(t.done() for t in tasks):
                stop_fut.set_result("tasks-done")
            elif max_real is not None and loop.now_ns() - start_real > max_real:
                stop_fut.set_result("max-real")

        def on_stall():
            info["stalled"] = True
            if not stop_fut.done():
                stop_fut.set_result("stalled")
                return True
            return False

        loop.step_hooks.append(check)
        loop.on_stall = on_stall
        info["stop"] = await stop_fut
        ctx["teardown"] = True   # whatever is cancelled from here on is cancelled by the harness (or by run_virtual's clean-up)
        loop.step_hooks.remove(check)
        loop.on_stall = None
        info["end_real"] = loop.now_ns()
        info["tasks_done"] = [(t.get_name(), t.done(), (repr(t.exception()) if t.done() and not t.cancelled() and t.exception() else None)) for t in tasks]
        info["sched_error"] = sched.error.is_set()
        return True

    try:
        with instrument_tickers(ctx):
            res, loop = run_virtual(main, max_steps=max_steps or scn.get("max_steps", 20000), step_cost_ns=scn.get("step_cost_ns", 0))
    finally:
        if info.get("registry_saved"):
            from tickit.core.state_interfaces import state_interface as SI
            name, c0, p0 = info["registry_saved"]
            for table, old in ((SI.consumers, c0), (SI.producers, p0)):
                if old is None:
                    table.pop(name, None)
                else:
                    table[name] = old
    if info.get("stop") == "ticks":
        # the run is DEFINED as the history up to the end of the n_ticks-th master tick: under a delaying bus (and with
        # callbacks for the current instant) a further tick may already have begun before the stop condition was seen
        tid = getattr(getattr(info.get("scheduler"), "ticker", None), "_vid", None)
        cnt = 0
        for i, e in enumerate(trace.events):
            if e["k"] == "t-done" and e["tid"] == tid:
                cnt += 1
                if cnt == n_ticks:
                    info["dropped_after_last_tick"] = len(trace.events) - (i + 1)
                    del trace.events[i + 1:]
                    break
    return {"trace": trace, "result": res, "steps": loop.step, "info": info, "ctx": ctx}
