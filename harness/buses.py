"""Harness-supplied state interfaces (tickit's own extension point: the scheduler and the
components take StateConsumer / StateProducer *classes*).

SyncBus  – same semantics as tickit's internal bus (synchronous re-entrant delivery,
           replay on subscribe) but every produce / delivery is logged.
HeldBus  – a broker-like conforming bus: per-topic FIFO log, per (consumer, topic) cursor,
           one sequential callback pump per consumer, the next delivery is chosen by a
           chooser (seeded PRNG or enumerating DFS oracle), with optional extra loop
           yields between deliveries.
"""
import asyncio
import random


class Trace:
    """global event log of one run"""

    def __init__(self):
        self.events = []
        self.seq = 0

    def log(self, _kind, **kw):
        self.seq += 1
        kw["k"] = _kind
        kw["n"] = self.seq
        self.events.append(kw)
        return kw

    def of(self, *kinds):
        return [e for e in self.events if e["k"] in kinds]


def msg_repr(value):
    """canonical, JSON-able description of a tickit message"""
    from tickit.core.typedefs import (ComponentException, Input, Interrupt, Output,
                                      Skip, StopComponent)
    if isinstance(value, Input):
        return {"m": "Input", "target": value.target, "time": value.time,
                "changes": dict(value.changes)}
    if isinstance(value, Skip):
        return {"m": "Skip", "source": value.source, "time": value.time}
    if isinstance(value, Output):
        return {"m": "Output", "source": value.source, "time": value.time,
                "changes": dict(value.changes), "call_at": value.call_at}
    if isinstance(value, Interrupt):
        return {"m": "Interrupt", "source": value.source}
    if isinstance(value, ComponentException):
        return {"m": "ComponentException", "source": value.source,
                "error": f"{type(value.error).__name__}:{value.error}"}
    if isinstance(value, StopComponent):
        return {"m": "StopComponent"}
    return {"m": type(value).__name__, "repr": repr(value)}


class SyncBus:
    def __init__(self, trace: Trace, loop=None):
        self.trace = trace
        self.topics = {}
        self.subs = {}
        self.loop = loop
        self.n_consumers = 0

    def classes(self):
        bus = self

        class Consumer:
            def __init__(self, callback):
                bus.n_consumers += 1
                self.cid = bus.n_consumers
                self.callback = callback

            async def subscribe(self, topics):
                for t in list(topics):
                    bus.subs.setdefault(t, [])
                    if self not in bus.subs[t]:
                        bus.subs[t].append(self)
                    for v in bus.topics.setdefault(t, []):
                        bus.trace.log("deliver", cid=self.cid, topic=t, msg=msg_repr(v), replay=True)
                        await self.callback(v)

        class Producer:
            def __init__(self):
                pass

            async def produce(self, topic, value):
                bus.trace.log("produce", topic=topic, msg=msg_repr(value),
                              real=bus.loop.now_ns() if bus.loop else None,
                              step=bus.loop.step if bus.loop else None)
                bus.topics.setdefault(topic, []).append(value)
                for c in list(bus.subs.setdefault(topic, [])):
                    bus.trace.log("deliver", cid=c.cid, topic=topic, msg=msg_repr(value), replay=False)
                    await c.callback(value)

        return Consumer, Producer


class RealInternalBus:
    """tickit's OWN in-memory state interface (InternalStateServer / InternalStateConsumer /
    InternalStateProducer), observed: produce and deliver events are logged like SyncBus does, the
    delivery itself is the real code's."""

    def __init__(self, trace: Trace, loop=None):
        reset_internal_bus()
        self.trace = trace
        self.loop = loop
        self.n_consumers = 0

    def idle(self):
        return True

    def classes(self):
        from tickit.core.state_interfaces.internal import InternalStateConsumer, InternalStateProducer
        bus = self

        class Consumer(InternalStateConsumer):
            def __init__(self, callback):
                bus.n_consumers += 1
                self.cid = bus.n_consumers

                async def observed(value, _cb=callback, _cid=self.cid):
                    bus.trace.log("deliver", cid=_cid, topic=None, msg=msg_repr(value), replay=None)
                    await _cb(value)
                super().__init__(observed)

        class Producer(InternalStateProducer):
            async def produce(self, topic, value):
                bus.trace.log("produce", topic=topic, msg=msg_repr(value),
                              real=bus.loop.now_ns() if bus.loop else None,
                              step=bus.loop.step if bus.loop else None)
                await super().produce(topic, value)

        return Consumer, Producer


class SeededChooser:
    def __init__(self, seed):
        self.rng = random.Random(seed)
        self.choices = []

    def choose(self, n):
        i = self.rng.randrange(n)
        self.choices.append((i, n))
        return i

    def yields(self):
        # occasionally a long pause: everything that is runnable gets far ahead of the next delivery
        return self.rng.choice((0, 0, 0, 1, 2, 9))

    def ack(self):
        """loop yields between a message becoming visible and `produce` returning (slow acknowledgement)"""
        return self.rng.choice((0, 0, 0, 1, 3, 80))


class PrefixChooser:
    """follows a given prefix of choices, then always takes alternative 0; records the
    branching factor at every choice point (for stateless DFS enumeration)."""

    def __init__(self, prefix):
        self.prefix = list(prefix)
        self.choices = []

    def choose(self, n):
        k = len(self.choices)
        i = self.prefix[k] if k < len(self.prefix) else 0
        if i >= n:
            i = 0
        self.choices.append((i, n))
        return i

    def yields(self):
        return 0

    def ack(self):
        return 0


class HeldBus:
    def __init__(self, trace: Trace, chooser, loop=None):
        self.trace = trace
        self.chooser = chooser
        self.loop = loop
        self.topics = {}
        self.cursors = {}  # (consumer, topic) -> next index
        self.busy = set()
        self.n_consumers = 0
        self.wake = None
        self.pump_task = None
        self.inflight = 0
        self.errors = []

    def _kick(self):
        if self.wake is not None:
            self.wake.set()

    def start(self):
        self.wake = asyncio.Event()
        self.pump_task = asyncio.create_task(self._pump(), name="harness-pump")

    def pending(self):
        out = []
        for (c, t), i in self.cursors.items():
            if i < len(self.topics.get(t, ())) and c not in self.busy:
                out.append((c.cid, t, c))
        out.sort(key=lambda x: (x[0], x[1]))
        return out

    def idle(self):
        return not self.busy and not self.pending()

    async def _pump(self):
        while True:
            cands = self.pending()
            if not cands:
                self.wake.clear()
                await self.wake.wait()
                continue
            # let everything that is runnable run first, so that the choice is among all
            # deliveries that are possible at this point
            await asyncio.sleep(0)
            cands = self.pending()
            if not cands:
                continue
            i = self.chooser.choose(len(cands))
            cid, topic, cons = cands[i]
            idx = self.cursors[(cons, topic)]
            self.cursors[(cons, topic)] = idx + 1
            value = self.topics[topic][idx]
            self.busy.add(cons)
            asyncio.create_task(self._deliver(cons, topic, value), name="harness-deliver")
            for _ in range(self.chooser.yields()):
                await asyncio.sleep(0)

    async def _deliver(self, cons, topic, value):
        self.trace.log("deliver", cid=cons.cid, topic=topic, msg=msg_repr(value), replay=False)
        try:
            await cons.callback(value)
        except Exception as e:  # a consumer callback failing kills that pump in a broker client
            self.errors.append((cons.cid, topic, repr(e)))
            self.trace.log("callback-error", cid=cons.cid, topic=topic, error=f"{type(e).__name__}:{e}")
        finally:
            self.busy.discard(cons)
            self._kick()

    def classes(self):
        bus = self

        class Consumer:
            def __init__(self, callback):
                bus.n_consumers += 1
                self.cid = bus.n_consumers
                self.callback = callback

            async def subscribe(self, topics):
                topics = list(topics)
                bus.trace.log("subscribe", cid=self.cid, topics=topics)
                for t in topics:
                    bus.topics.setdefault(t, [])
                    bus.cursors.setdefault((self, t), 0)
                bus._kick()

        class Producer:
            def __init__(self):
                pass

            async def produce(self, topic, value):
                bus.trace.log("produce", topic=topic, msg=msg_repr(value),
                              real=bus.loop.now_ns() if bus.loop else None,
                              step=bus.loop.step if bus.loop else None)
                bus.topics.setdefault(topic, []).append(value)
                bus._kick()
                for _ in range(bus.chooser.ack() if hasattr(bus.chooser, "ack") else 0):
                    await asyncio.sleep(0)

        return Consumer, Producer



class KafkaFakeBus:
    """tickit's OWN Kafka state interface (KafkaStateConsumer / KafkaStateProducer, incl. their YAML (de)serialisation
    and consumer loop) on an in-process broker with the contract semantics: per-topic byte logs, every consumer reads
    each subscribed topic from the first offset, in order, one message at a time; which topic a consumer is served
    from next is chosen by the seeded chooser.  `aiokafka` itself is replaced (no broker in this sandbox)."""

    def __init__(self, trace: Trace, chooser, loop=None):
        self.trace = trace
        self.chooser = chooser
        self.loop = loop
        self.topics = {}
        self.consumers = []
        self.n_consumers = 0
        self.delivering = 0

    def start(self):
        pass

    def idle(self):
        return self.delivering == 0 and all(not c._pending() for c in self.consumers)

    def classes(self):
        from tickit.core.state_interfaces import kafka as K
        bus = self

        class Record:
            def __init__(self, value):
                self.value = value

        class FakeConsumer:
            def __init__(self, *topics, auto_offset_reset="latest", value_deserializer=None, **kw):
                assert auto_offset_reset == "earliest", "tickit relies on replay from the first offset"
                self.de = value_deserializer or (lambda b: b)
                self.cursors = {}
                self.started = False
                self.wake = asyncio.Event()
                bus.n_consumers += 1
                self.cid = bus.n_consumers
                bus.consumers.append(self)

            async def start(self):
                await asyncio.sleep(0)
                self.started = True

            def subscribe(self, topics):
                topics = list(topics)
                bus.trace.log("subscribe", cid=self.cid, topics=topics)
                for t in topics:
                    bus.topics.setdefault(t, [])
                    self.cursors.setdefault(t, 0)
                self.wake.set()

            def _pending(self):
                return sorted(t for t, i in self.cursors.items() if i < len(bus.topics.get(t, ())))

            def __aiter__(self):
                return self

            async def __anext__(self):
                if not self.started:
                    # like aiokafka: a consumer that was never started cannot be iterated
                    raise RuntimeError("fake aiokafka: consumer iterated before start() completed")
                if bus.delivering and getattr(self, "_in", False):
                    self._in = False
                    bus.delivering -= 1
                while True:
                    ts = self._pending()
                    if ts:
                        break
                    self.wake.clear()
                    await self.wake.wait()
                for _ in range(bus.chooser.yields() if hasattr(bus.chooser, "yields") else 0):
                    await asyncio.sleep(0)
                ts = self._pending()
                t = ts[bus.chooser.choose(len(ts))]
                i = self.cursors[t]
                self.cursors[t] = i + 1
                value = self.de(bus.topics[t][i])
                bus.trace.log("deliver", cid=self.cid, topic=t, msg=msg_repr(value), replay=False)
                self._in = True
                bus.delivering += 1
                return Record(value)

        class FakeProducer:
            def __init__(self, value_serializer=None, **kw):
                self.ser = value_serializer or (lambda v: v)
                self.started = False

            async def start(self):
                # connecting takes a few loop iterations
                for _ in range(3):
                    await asyncio.sleep(0)
                self.started = True

            async def send(self, topic, value):
                if not self.started:
                    # like aiokafka: send() on a producer whose start() has not completed fails
                    raise RuntimeError("fake aiokafka: send() before start() completed")
                data = self.ser(value)
                bus.trace.log("produce", topic=topic, msg=msg_repr(value),
                              real=bus.loop.now_ns() if bus.loop else None, step=bus.loop.step if bus.loop else None)
                bus.topics.setdefault(topic, []).append(data)
                for c in bus.consumers:
                    c.wake.set()
                for _ in range(bus.chooser.ack() if hasattr(bus.chooser, "ack") else 0):
                    await asyncio.sleep(0)

        K.AIOKafkaConsumer = FakeConsumer
        K.AIOKafkaProducer = FakeProducer
        return K.KafkaStateConsumer, K.KafkaStateProducer


def reset_internal_bus():
    """Empty tickit's process-wide in-memory message server between cases WITHOUT depending on where its
    containers live (class attributes, instance attributes of the singleton, their names): every dict-like
    attribute of the class and of the current singleton instance is cleared and the instance is forgotten,
    so the next producer/consumer gets a fresh, empty server."""
    from tickit.core.state_interfaces import internal as _internal
    cls = _internal.InternalStateServer
    holders = [cls]
    try:
        holders.append(cls())
    except Exception:
        pass
    for h in holders:
        for name, v in list(vars(h).items()):
            if name.startswith("__"):
                continue
            if hasattr(v, "clear") and hasattr(v, "keys"):
                try:
                    v.clear()
                except Exception:
                    pass
    reg = getattr(type(cls), "_instances", None)
    try:
        if reg is not None and cls in reg:
            del reg[cls]
    except Exception:
        pass
