#!/venv/bin/python
"""Seeded-change bookkeeping.

  mutants.py verify <src_dir> <id>     verify a candidate (patch.diff, demo.py, NOTES.md) in a scratch worktree
                                        and, if it holds up, store it as /verif/seeded/<id>/
  mutants.py eval <id> [checks...]     apply seeded/<id>/patch.diff to /repo, run the checks (default: the
                                        property's own quick check), undo, record the outcome in meta.json
"""
import json
import os
import shutil
import subprocess
import sys
import tempfile

VERIF = os.path.dirname(os.path.dirname(os.path.abspath(__file__)))
REPO = "/repo"
PY = "/venv/bin/python"
BASE_FAILS = {"tests/test_cli.py::test_cli_version", "tests/adapters/test_system.py::test_base_has_components_and_wiring"}


def sh(cmd, cwd=None, env=None, timeout=1200):
    e = dict(os.environ)
    if env:
        e.update(env)
    p = subprocess.run(cmd, shell=True, cwd=cwd, env=e, capture_output=True, text=True, timeout=timeout)
    return p.returncode, p.stdout + p.stderr


def run_suite(wt, tries=4):
    """returns (new failures, summary); retried when the only problem is transient ERRORs
    (port 8080 in use while other suites run concurrently)"""
    import re
    import time
    for k in range(tries):
        # own network namespace: other suites running concurrently cannot take port 8080
        rc, out = sh(f"unshare -rn sh -c 'ip link set lo up; {PY} -m pytest -q -p no:cacheprovider --no-cov src tests 2>&1 | tail -40'", cwd=wt, env={"PYTHONPATH": f"{wt}/src"})
        failed = {l.split()[1] for l in out.splitlines() if l.startswith("FAILED ")}
        errors = {l.split()[1] for l in out.splitlines() if l.startswith("ERROR ")}
        summary = ([l for l in out.splitlines() if " passed" in l or " failed" in l] or [out[-200:]])[-1]
        m = re.search(r"(\d+) passed", summary)
        passed = int(m.group(1)) if m else 0
        if passed == 260 and not errors:
            return failed, summary, passed
        time.sleep(5 + 10 * k)
    return failed | errors, summary, passed


def verify(src, mid):
    prop = mid.split("-")[0]
    wt = tempfile.mkdtemp(prefix="mutv_", dir="/tmp")
    os.rmdir(wt)
    rc, out = sh(f"git -C {REPO} worktree add -q --detach {wt} HEAD")
    assert rc == 0, out
    meta = {"id": mid, "property": prop, "source": src}
    try:
        patch = os.path.join(src, "patch.diff")
        demo = os.path.join(src, "demo.py")
        rc0, out0 = sh(f"{PY} {demo}", cwd=wt, env={"PYTHONPATH": f"{wt}/src"}, timeout=300)
        meta["demo_unchanged"] = {"rc": rc0, "tail": out0[-300:]}
        rc, out = sh(f"git apply {patch}", cwd=wt)
        meta["applies"] = rc == 0
        if rc != 0:
            meta["verdict"] = "patch does not apply: " + out[-200:]
            return meta
        rc1, out1 = sh(f"{PY} {demo}", cwd=wt, env={"PYTHONPATH": f"{wt}/src"}, timeout=300)
        meta["demo_changed"] = {"rc": rc1, "tail": out1[-400:]}
        failed, summary, passed = run_suite(wt)
        meta["suite_changed"] = {"summary": summary, "new_failures": sorted(failed - BASE_FAILS)}
        rc, out = sh("git diff --stat | tail -1", cwd=wt)
        meta["diffstat"] = out.strip()
        ok = rc0 == 0 and rc1 != 0 and not (failed - BASE_FAILS) and passed == 260
        meta["verdict"] = "kept" if ok else "rejected"
        if ok:
            dst = os.path.join(VERIF, "seeded", mid)
            os.makedirs(dst, exist_ok=True)
            shutil.copy(patch, os.path.join(dst, "patch.diff"))
            shutil.copy(demo, os.path.join(dst, "demo.py"))
            notes = os.path.join(src, "NOTES.md")
            meta["needs"] = open(notes).read() if os.path.exists(notes) else ""
            meta["ran"] = [f"PYTHONPATH=<scratch>/src {PY} demo.py (unchanged: rc {rc0}; changed: rc {rc1})",
                           f"PYTHONPATH=<scratch>/src {PY} -m pytest -q -p no:cacheprovider --no-cov src tests -> {summary}"]
            meta["breaks"] = prop
            json.dump(meta, open(os.path.join(dst, "meta.json"), "w"), indent=1)
        return meta
    finally:
        sh(f"git -C {REPO} worktree remove --force {wt}")


def evaluate(mid, checks):
    dst = os.path.join(VERIF, "seeded", mid)
    meta = json.load(open(os.path.join(dst, "meta.json")))
    prop = meta["property"]
    checks = checks or [prop]
    rc, out = sh("git status --short", cwd=REPO)
    assert out.strip() == "", "/repo is not clean: " + out
    rc, out = sh(f"git apply {os.path.join(dst, 'patch.diff')}", cwd=REPO)
    assert rc == 0, out
    results = meta.get("detection", {})
    try:
        for c in checks:
            ev = os.path.join(VERIF, "evidence", f"{c}.json")
            bak = open(ev).read() if os.path.exists(ev) else None
            rc, out = sh(f"./check {c} --tier quick", cwd=VERIF, timeout=1800)
            line = next((l for l in out.splitlines() if l.startswith("VIOLATION")), None)
            first = next((l.strip() for l in out.splitlines() if l.strip().startswith("first:") or l.strip().startswith("first divergence")), "")
            results[c] = {"rc": rc, "line": line, "detail": first[:300]}
            if bak is not None:
                open(ev, "w").write(bak)
    finally:
        sh("git checkout -- .", cwd=REPO)
    meta["detection"] = results
    json.dump(meta, open(os.path.join(dst, "meta.json"), "w"), indent=1)
    return results


if __name__ == "__main__":
    if sys.argv[1] == "verify":
        m = verify(sys.argv[2], sys.argv[3])
        print(json.dumps({k: v for k, v in m.items() if k != "needs"}, indent=1))
    elif sys.argv[1] == "eval":
        print(json.dumps(evaluate(sys.argv[2], sys.argv[3:]), indent=1))
