"""Translate scenarios / traces of the real code into requests for the Lean driver and
compare the model's answers with what the implementation did (correspondence)."""
from common import pairs
import scenario as S


NONE_CODE = -1000003  # the Lean model's values are integers; Python's None travels as this code


def ev(v):
    return NONE_CODE if v is None else v


def canon_changes(d):
    return sorted([[k, ev(v)] for k, v in d.items()])


def inv_pairs(inv):
    return [[c, [[q, [s[0], s[1]]] for q, s in ports.items()]] for c, ports in inv.items()]


def sim_request(scn, trace, n_ticks=None, extra=None):
    """whole-simulation request: static structure from the scenario, device responses
    (oracle) from the trace of the real run"""
    levels = S.level_inverse(scn)
    orc = {}
    for e in trace.of("update"):
        orc.setdefault(e["comp"], []).append({
            "outs": [[k, ev(v)] for k, v in (e.get("outs") or {}).items()],
            "call_at": e.get("call_at"), "raises": bool(e.get("raises"))})
    par = S.parent_map(scn)
    start = None
    stims = []
    for e in trace.of("raise"):
        if e.get("ok") and "start_real" in (extra or {}):
            stims.append({"real": e["real"] - extra["start_real"], "comp": e["comp"]})
    return {
        "op": "sim",
        "levels": [{"name": n, "inverse": inv_pairs(inv)} for n, inv in levels.items()],
        "systems": [s["name"] for s in S.systems(scn)],
        "parent": [[c, p] for c, p in par.items()],
        "oracle": [[c, rs] for c, rs in orc.items()],
        "t0": scn.get("t0", 0), "r0": 0,
        "speed_num": scn.get("speed", [1, 1])[0], "speed_den": scn.get("speed", [1, 1])[1],
        "stims": stims, "n_ticks": n_ticks if n_ticks is not None else max(0, scn.get("n_ticks", 3) - 1),
    }


def observations(trace):
    """per-device observation sequences [(time, sorted inputs)] of the real run"""
    out = {}
    for e in trace.of("update"):
        out.setdefault(e["comp"], []).append([e["time"], canon_changes(e["inputs"])])
    return out


def model_observations(reply):
    out = {}
    for o in reply.get("obs", []):
        out.setdefault(o["c"], []).append([o["t"], o["ins"]])
    return out


def master_ticks(trace, master_tid):
    return [e for e in trace.of("t-call") if e["tid"] == master_tid]


def compare_sim(scn, run, reply, start_real):
    """differences between the real run and the model's run (list of strings)"""
    diffs = []
    tr = run["trace"]
    if "err" in reply and reply["err"]:
        diffs.append(f"model error {reply['err']}")
        return diffs
    real_obs = observations(tr)
    mod_obs = model_observations(reply)
    for d in sorted(set(real_obs) | set(mod_obs)):
        a, b = real_obs.get(d, []), mod_obs.get(d, [])
        n = min(len(a), len(b))
        if a[:n] != b[:n]:
            k = next(i for i in range(n) if a[i] != b[i])
            diffs.append(f"device {d} observation #{k}: impl {a[k]} model {b[k]}")
        elif len(a) != len(b):
            diffs.append(f"device {d}: impl made {len(a)} updates, model {len(b)}")
    return diffs


def compare_ticks(run, reply, master_tid, start_real, with_real=True):
    diffs = []
    calls = master_ticks(run["trace"], master_tid)
    mt = reply.get("ticks", [])
    n = min(len(calls), len(mt))
    for i in range(n):
        a, b = calls[i], mt[i]
        if a["time"] != b["t"] or sorted(a["roots"]) != sorted(b["roots"]):
            diffs.append(f"tick #{i}: impl time={a['time']} roots={a['roots']}  model time={b['t']} roots={b['roots']}")
        elif with_real and abs(a["real"] - start_real - b["real"]) > (i + 1 if b["real"] >= 2 ** 31 else 0):
            # the model's pacing arithmetic is exact; the code computes the wait in float seconds.  Below ~2 s of real time the
            # generated waits are exact in floats; beyond, one wait may come out a fraction of a nanosecond long, which the
            # harness clock (timers never fire early: rounded UP to whole ns) turns into at most 1 ns per tick so far
            diffs.append(f"tick #{i} real start: impl {a['real'] - start_real} model {b['real']}")
    return diffs


def ticker_requests(trace):
    """one acceptor request per Ticker instance of the run + the dispatch sets the real
    ticker produced after each call/answer event"""
    reqs, expect, tids = [], [], []
    news = {e["tid"]: e for e in trace.of("t-new")}
    for tid, new in news.items():
        evs, disp = [], []
        cur = None
        for e in trace.events:
            if e.get("tid") != tid:
                continue
            if e["k"] == "t-call":
                cur = {"ds": [], "err": None}
                disp.append(cur)
                evs.append({"e": "call", "t": e["time"], "roots": e["roots"]})
            elif e["k"] == "t-answer":
                cur = {"ds": [], "err": None}
                disp.append(cur)
                evs.append({"e": "answer", "src": e["src"], "t": e["time"], "ch": [[k, ev(v)] for k, v in e["changes"].items()]})
            elif e["k"] == "t-dispatch" and cur is not None:
                cur["ds"].append({"k": e["dk"], "c": e["comp"], "t": e["time"],
                                  **({"ch": canon_changes(e["changes"])} if e["dk"] == "input" else {})})
            elif e["k"] == "t-error" and cur is not None:
                cur["err"] = e["error"]
        w = new["wiring"]
        reqs.append({"op": "ticker",
                     "wiring": [[c, [[p, ins] for p, ins in ports.items()]] for c, ports in w.items()],
                     "events": evs})
        expect.append(disp)
        tids.append(tid)
    return reqs, expect, tids


def compare_ticker(reply, disp):
    """reply: model's per-event results; disp: the implementation's"""
    diffs = []
    for i, (m, r) in enumerate(zip(reply, disp)):
        if "err" in m:
            kind = m["err"].split(":")[0]
            if r["err"] is None or not r["err"].startswith(kind):
                diffs.append(f"event #{i}: model error {m['err']} impl {r['err']}")
            continue
        if r["err"] is not None:
            diffs.append(f"event #{i}: impl error {r['err']} model ok")
            continue
        a = sorted(r["ds"], key=lambda d: d["c"])
        b = m["ds"]
        if a != b:
            diffs.append(f"event #{i}: dispatches impl {a} model {b}")
    if len(reply) != len(disp):
        diffs.append(f"event count impl {len(disp)} model {len(reply)}")
    return diffs


def compare_inputs_aligned(run, reply):
    """only WHAT devices were given: every real update (device, time, k-th at that time) that the model
    also performs must have been given the same inputs; updates that one side lacks are not this
    comparison's business (they belong to C02/C06)"""
    diffs = []
    if reply.get("err"):
        return diffs
    real = {}
    for e in run["trace"].of("update"):
        real.setdefault((e["comp"], e["time"]), []).append(canon_changes(e["inputs"]))
    mod = {}
    for o in reply.get("obs", []):
        mod.setdefault((o["c"], o["t"]), []).append(o["ins"])
    for key in sorted(set(real) & set(mod)):
        for k, (a, b) in enumerate(zip(real[key], mod[key])):
            if a != b:
                diffs.append(f"device {key[0]} @t={key[1]} was given {a}, model {b}")
                break
    return diffs


def master_loop_request(run, fixed=True):
    """observable events of the master's run loop, for the flag-protocol model (`mloop` acceptor of the driver):
    every add_wakeup (component, resulting entry), every tick start after the initial tick (roots, time), every tick end"""
    import monitors
    tid = monitors.master_tid(run)
    evs, first = [], True
    for e in run["trace"].events:
        if e["k"] == "m-add" and e.get("entry") is not None:
            evs.append({"e": "add", "c": e["comp"], "t": e["entry"]})
        elif e["k"] == "t-call" and e.get("tid") == tid:
            if first:
                first = "in"
            else:
                evs.append({"e": "tick", "cs": sorted(e["roots"]), "w": e["time"]})
        elif e["k"] == "t-done" and e.get("tid") == tid:
            if first == "in":
                first = False
            else:
                evs.append({"e": "end"})
    return {"op": "mloop", "fixed": fixed, "events": evs}


def msg_run_request(scn, run, in_topic, out_topic):
    """message-level acceptor request (Core/MsgFlatRun) for a FLAT run without stimuli under a bus that logs deliveries
    per topic: who subscribed when, which message was delivered to whom in which order, when the master began each tick;
    the devices' responses are taken from the trace (a component is updated at most once per tick).  Returns None when the
    run cannot be rendered (systems, stimuli, no per-topic delivery log)."""
    import monitors
    if S.systems(scn) or scn.get("stims"):
        return None
    tr = run["trace"]
    names = [c["name"] for c in scn["components"]]
    ins = {in_topic(n): n for n in names}
    outs = {out_topic(n): n for n in names}
    mt = monitors.master_tid(run)
    actions, table, tick = [], [], -1
    for e in tr.events:
        k = e["k"]
        if k == "subscribe":
            for t in e["topics"]:
                if t in ins:
                    actions.append(["startComp", ins[t]])
        elif k == "t-call" and e.get("tid") == mt:
            tick += 1
            actions.append(["startSched"] if tick == 0 else ["nextTick"])
        elif k == "deliver":
            t = e.get("topic")
            if t in ins and e["msg"]["m"] in ("Input",):
                actions.append(["deliverIn", ins[t]])
            elif t in outs and e["msg"]["m"] in ("Output", "Skip"):
                actions.append(["deliverOut", outs[t]])
            elif t is None:
                return None
            elif e["msg"]["m"] not in ("Input", "Output", "Skip"):
                return None   # interrupts, exceptions, stop messages are not part of the message-level model
        elif k == "update":
            table.append([max(tick, 0), e["comp"], [[p, ev(v)] for p, v in (e.get("outs") or {}).items()], e.get("call_at")])
    return {"op": "msgrun", "inverse": inv_pairs(S.level_inverse(scn)[""]), "t0": scn.get("t0", 0), "table": table, "actions": actions}


def compare_msg_run(run, reply):
    diffs = []
    if not (reply or {}).get("accepted"):
        return [f"the message-level model does not accept the history: action #{(reply or {}).get('at')} ({(reply or {}).get('why')})"]
    real = [[e["comp"], e["time"], canon_changes(e["inputs"])] for e in run["trace"].of("update")]
    mod = [[o[0], o[1], o[2]] for o in reply.get("obs", [])]
    if real != mod:
        k = next((i for i in range(min(len(real), len(mod))) if real[i] != mod[i]), min(len(real), len(mod)))
        diffs.append(f"message-level model: update #{k}: impl {real[k] if k < len(real) else None} model {mod[k] if k < len(mod) else None}")
    return diffs
