#!/venv/bin/python
"""Detection matrix: every seeded change against every check (quick tier), in parallel, using scratch
worktrees (never /repo itself) via PYTHONPATH and --no-build.  Writes seeded/MATRIX.json."""
import json
import os
import subprocess
import sys
from concurrent.futures import ThreadPoolExecutor

VERIF = os.path.dirname(os.path.dirname(os.path.abspath(__file__)))
SUB = os.environ.get("MATRIX_DIR", "seeded")  # "seeded" (property-breaking changes) or "harmless" (behaviour-preserving refactorings)
ids = sorted(d for d in os.listdir(os.path.join(VERIF, SUB)) if os.path.isfile(os.path.join(VERIF, SUB, d, "patch.diff")))
checks = os.environ.get("MATRIX_CHECKS", "").split() or [f"C{i:02d}" for i in range(1, 21)]  # MATRIX_CHECKS="C03 C06": only those (rows are merged)
ROOT = os.environ.get("MATRIX_ROOT", "/tmp/mx")
os.makedirs(ROOT, exist_ok=True)


def sh(cmd, **kw):
    return subprocess.run(cmd, shell=True, capture_output=True, text=True, **kw)


def prep(mid):
    wt = f"{ROOT}/{mid}"
    if not os.path.exists(wt):
        sh(f"git -C /repo worktree add -q --detach {wt} HEAD")
        r = sh(f"git apply {VERIF}/{SUB}/{mid}/patch.diff", cwd=wt)
        assert r.returncode == 0, r.stderr
    return wt


def one(job):
    mid, c = job
    wt = f"{ROOT}/{mid}" if mid != "clean" else None
    env = dict(os.environ, VERIF_EVIDENCE_DIR=f"{ROOT}/ev/{mid}", VERIF_REPLAYS_DIR=f"{ROOT}/rp/{mid}", VERIF_SEED=os.environ.get("VERIF_SEED", "0"))
    if wt:
        env["PYTHONPATH"] = f"{wt}/src"
    try:
        r = subprocess.run([f"{VERIF}/check", c, "--tier", "quick", "--no-build"], capture_output=True, text=True, env=env, timeout=900)
        line = next((l for l in r.stdout.splitlines() if l.startswith("VIOLATION")), "")
        kind = "nfi" if "no-failing-input-found" in line else ("viol" if line else ("ok" if r.returncode == 0 else f"rc{r.returncode}"))
        first = next((l.strip()[:200] for l in r.stdout.splitlines() if l.strip().startswith("first")), "")
    except subprocess.TimeoutExpired:
        kind, first = "timeout", ""
    return mid, c, kind, first


if __name__ == "__main__":
    sel = sys.argv[1:] or ids
    for m in sel:
        if m != "clean":
            prep(m)
    jobs = [(m, c) for m in sel for c in checks]
    out = {}
    with ThreadPoolExecutor(max_workers=10) as ex:
        for mid, c, kind, first in ex.map(one, jobs):
            out.setdefault(mid, {})[c] = kind if kind in ("ok",) else [kind, first]
    path = os.path.join(VERIF, SUB, "MATRIX.json")
    old = json.load(open(path)) if os.path.exists(path) else {}
    for mid, row in out.items():
        old.setdefault(mid, {}).update(row)
    json.dump(old, open(path, "w"), indent=1)
    for m in sel:
        row = out[m]
        print(m, " ".join(f"{c}:{(v if isinstance(v, str) else v[0])}" for c, v in row.items() if v != "ok"))
    for m in sel:
        if m != "clean":
            sh(f"git -C /repo worktree remove --force {ROOT}/{m}")
