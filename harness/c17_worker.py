"""Runs in a fresh interpreter: create config classes, import them in a given order, load a
YAML configuration through the real read_configs / build_simulation and report what came out."""
import json
import os
import sys
import tempfile
import importlib
from dataclasses import asdict

spec = json.load(sys.stdin)
tmp = tempfile.mkdtemp(prefix="c17_")
sys.path.insert(0, tmp)
out = {"errors": []}
try:
    for mod, classes in spec["modules"].items():
        with open(os.path.join(tmp, mod + ".py"), "w") as f:
            f.write("import pydantic.v1.dataclasses\nfrom typing import Tuple\nfrom tickit.core.components.component import Component, ComponentConfig\n"
                    "from tickit.core.components.device_component import DeviceComponent\nfrom tickit.devices.sink import SinkDevice\n\n")
            for item in classes:
                cname, fields = item[0], item[1]
                base = item[2] if len(item) > 2 and item[2] else "ComponentConfig"
                f.write("@pydantic.v1.dataclasses.dataclass\nclass %s(%s):\n" % (cname, base))
                for fn, ft in fields:
                    f.write("    %s: %s\n" % (fn, ft))
                if not fields:
                    f.write("    pass\n")
                f.write("    def __call__(self) -> Component:\n        return DeviceComponent(name=self.name, device=SinkDevice())\n\n")
    import yaml
    from tickit.utils.configuration.loading import read_configs
    from tickit.core.simulation import build_simulation
    for m in spec["import_first"]:
        importlib.import_module(m)
    path = os.path.join(tmp, "cfg.yaml")
    with open(path, "w") as f:
        if spec.get("raw_yaml"):
            f.write(spec["raw_yaml"])     # the same entries written with anchors / aliases / merge keys
        else:
            yaml.safe_dump(spec["entries"], f)

    def describe(c):
        if c is None or not hasattr(c, "name"):
            return {"class": repr(type(c)), "name": None, "inputs": {}, "fields": {}}
        d = {"class": type(c).__module__ + "." + type(c).__qualname__, "name": c.name,
             "inputs": {k: [v.component, v.port] for k, v in c.inputs.items()}}
        d["fields"] = {k: v for k, v in asdict(c).items() if k not in ("name", "inputs", "type", "components", "expose")}
        if hasattr(c, "components"):
            d["components"] = [describe(x) for x in c.components]
            d["expose"] = {k: [v.component, v.port] for k, v in c.expose.items()}
        return d
    try:
        try:
            cfgs = read_configs(path)
        except Exception as e:
            out["load_error"] = type(e).__name__
            raise
        out["loaded"] = [describe(c) for c in cfgs]
        if any(c is None or not hasattr(c, "name") for c in cfgs):
            raise ValueError("entries that are not configurations")
        # round trip
        path2 = os.path.join(tmp, "cfg2.yaml")
        with open(path2, "w") as f:
            yaml.safe_dump([asdict(c) for c in cfgs], f)
        cfgs2 = read_configs(path2)
        out["roundtrip_equal"] = cfgs2 == cfgs
        out["roundtrip_classes"] = [type(c).__qualname__ for c in cfgs2] == [type(c).__qualname__ for c in cfgs]
        # the same round trip with PyYAML's standard dumper (what `yaml.dump` writes for Python data: tuples
        # etc. carry python tags, which the loader tickit asks for - yaml.Loader - reads back)
        try:
            path3 = os.path.join(tmp, "cfg3.yaml")
            with open(path3, "w") as f:
                yaml.dump([asdict(c) for c in cfgs], f)
            cfgs3 = read_configs(path3)
            out["roundtrip_full_equal"] = cfgs3 == cfgs
        except Exception as e:
            out["roundtrip_full_error"] = type(e).__name__ + ": " + str(e)[:200]
    except Exception as e:
        out.setdefault("post_load_error", type(e).__name__ + ": " + str(e)[:200])
    sels = []
    for req in spec.get("selections", []):
        try:
            sim = build_simulation(path, components_to_run=None if req is None else set(req))
            w = sim._scheduler._wiring
            sels.append({"components": sorted(sim._components.keys()),
                         "inv_conns": sorted(f"{s.component}:{s.port}>{b}:{q}" for b, ports in w.items() for q, s in ports.items()),
                         "inv_keys": sorted(w.keys())})
        except Exception as e:
            sels.append({"error": type(e).__name__})
    out["selections"] = sels
    # the same selections through the command line (`tickit components NAME... CONFIG`): the real click command is invoked
    # in-process; only the final asyncio.run is replaced (nothing is started), the simulation it would run is inspected
    clis = []
    try:
        import types
        from click.testing import CliRunner
        import tickit.cli as cli
        real_build = cli.build_simulation
        for req in spec.get("selections", []):
            cap = {}

            def fake_build(*a, _cap=cap, **kw):
                sim = real_build(*a, **kw)
                _cap["sim"] = sim
                return sim
            cli.build_simulation = fake_build
            cli.asyncio = types.SimpleNamespace(run=lambda coro: coro.close())
            r = CliRunner().invoke(cli.main, ["components"] + list(req or []) + [path])
            if "sim" in cap and r.exception is None:
                clis.append({"components": sorted(cap["sim"]._components.keys()), "scheduler": cap["sim"]._scheduler is not None})
            else:
                clis.append({"error": type(r.exception).__name__ if r.exception is not None else f"exit {r.exit_code}"})
        cli.build_simulation = real_build
    except Exception as e:
        clis = [{"worker_error": repr(e)[:200]}]
    out["cli_selections"] = clis
except Exception as e:
    import traceback
    out["errors"].append(traceback.format_exc()[-600:])
print(json.dumps(out))
