#!/venv/bin/python
"""Prepare a round of seeded changes: one scratch worktree of /repo and one prompt per property under <root>/<Cxx>/
(prompt.txt, wt/, out/).  Each prompt carries ONLY the text of one property, one-line descriptions of the changes that
already exist for it (so that the new one uses another mechanism) and the working rules - nothing from /verif.
Fresh sub-agents are then started with "Read <root>/<Cxx>/prompt.txt and carry out the task it describes exactly."

  mkmutprompts.py <root> <label>        e.g.  mkmutprompts.py /tmp/mut11 m12
Afterwards: harness/mutants.py verify <root>/<Cxx>/out <Cxx>-<label>; MATRIX_ROOT=/tmp/mx harness/matrix.py <Cxx>-<label>.
"""
import glob
import json
import os
import re
import subprocess
import sys

VERIF = os.path.dirname(os.path.dirname(os.path.abspath(__file__)))
TEMPLATE = '''You are helping to evaluate a verification tool. Your job: produce ONE realistic, subtle change to the Python project dls-controls/tickit (an asyncio discrete-event simulation framework) that BREAKS the semantic property given below, while the project still imports, and its existing test suite still passes exactly as before.

Work ONLY inside your own scratch git worktree: {d}/wt  (a detached worktree of the project; source under src/tickit, tests under tests). Never touch /repo or /verif, and do not read anything under /verif. Write your results to {d}/out/ .

## The property (id {pid})
{prop}

## Changes that already exist for this property (yours must use a DIFFERENT mechanism and preferably a different site)
{prev}

## What kind of change is wanted
* It must look like something a maintainer could plausibly merge (an optimisation, clean-up, refactor, "robustness" tweak, small feature), not sabotage; small (roughly 3-40 changed lines).
* It must need something SPECIFIC to manifest: a particular interleaving or message order, a fault at a particular point, a multi-step sequence of operations, an unusual-but-valid input or configuration, or two cooperating sites that each look fine alone. Ordinary use (the shipped examples, a plain chain of devices, the test suite) must not expose it at once.
* Prefer sites that have not been used yet: interactions between files, rarely taken branches, error/cancellation paths, shipped adapters and devices (src/tickit/adapters, src/tickit/devices), state interfaces (internal.py, kafka.py, state_interface.py), configuration loading / CLI / simulation.py, typedefs, component start-up and shutdown. But the change must genuinely violate THIS property's statement for some input/schedule/history within its quantifier - read the anchored files first.
* The violation must be of the property as stated (observable through tickit's public behaviour: device update arguments/results, messages on the state interface, adapter calls, return values, resources), not merely of an internal detail.

## Rules
* Python: /venv/bin/python (tickit's dependencies are installed there). To run against your worktree set PYTHONPATH={d}/wt/src (check with: PYTHONPATH={d}/wt/src /venv/bin/python -c 'import tickit; print(tickit.__file__)').
* Test suite (must still give "260 passed" and only the 2 pre-existing failures tests/test_cli.py::test_cli_version and tests/adapters/test_system.py::test_base_has_components_and_wiring):
  cd {d}/wt && PYTHONPATH={d}/wt/src unshare -rn sh -c 'ip link set lo up; /venv/bin/python -m pytest -q -p no:cacheprovider --no-cov src tests 2>&1 | tail -15'
* ALWAYS wrap every command that runs a simulation in `timeout 120` (SimTime is in nanoseconds; use callback periods >= 1e6 and bound runs by tick counts). The in-memory bus `InternalStateServer` is a singleton with class-level state: a demo that runs several simulations in one process must reset it (or use one simulation per process).
* No network is available. Do not install anything.
* Do NOT use `git stash` (the stash is shared between worktrees of other people); use `git diff > file` and `git apply` / `git apply -R` to switch between the changed and the unchanged tree.

## Deliverables in {d}/out/
1. patch.diff - `git -C {d}/wt diff` of your change (source files only; no test edits). Must apply cleanly to a clean checkout with `git apply`.
2. demo.py - a self-contained program (run as `PYTHONPATH=<tree>/src /venv/bin/python demo.py` from the tree root, finishing in < 60 s) that exits 0 and prints OK on the UNCHANGED tree and exits 1 with a clear message on the CHANGED tree, deterministically (try several PYTHONHASHSEED values). It must use the real tickit classes (e.g. MasterScheduler / DeviceComponent / SystemComponent / TickitSimulation, adapters, InternalStateServer ...), and check the property's statement, not an implementation detail.
3. NOTES.md - first line: `# {pid} / {label} - <one-line description>`; then: which clause is broken; what was changed and why it looks plausible; exactly what is needed for it to manifest; what you ran (commands + results) to confirm suite unchanged / demo passes on the unchanged tree / demo fails on the changed tree.
When finished leave the worktree CLEAN (git -C {d}/wt checkout -- . ; no untracked files) - the patch lives in out/patch.diff only. Reply with a three-line summary.
'''


def main():
    root, label = sys.argv[1], sys.argv[2]
    for line in open(os.path.join(VERIF, "properties.jsonl")):
        p = json.loads(line)
        pid = p["id"]
        d = os.path.join(root, pid)
        os.makedirs(os.path.join(d, "out"), exist_ok=True)
        if not os.path.exists(os.path.join(d, "wt")):
            subprocess.run(f"git -C /repo worktree add -q --detach {d}/wt HEAD", shell=True, check=True)
        prev = []
        metas = sorted(glob.glob(os.path.join(VERIF, "seeded", f"{pid}-m*", "meta.json")), key=lambda x: int(re.search(r"-m(\d+)/", x).group(1)))
        for k, m in enumerate(metas, 1):
            j = json.load(open(m))
            patch = open(os.path.join(os.path.dirname(m), "patch.diff")).read()
            files = sorted(set(f.replace("src/tickit/", "") for f in re.findall(r"^\+\+\+ b/(\S+)", patch, flags=re.M)))
            needs = (j.get("needs") or "").strip().splitlines()
            first = next((l for l in needs if l.strip() and not l.startswith("## ")), "")[:200]
            first = re.sub(r"^#*\s*C\d\d\s*/\s*m\d+\s*[-—:]*\s*", "", first.strip())
            prev.append(f"- (change {k}) [{', '.join(files)}] {first}")
        open(os.path.join(d, "prompt.txt"), "w").write(TEMPLATE.format(d=d, pid=pid, label=label, prop=json.dumps(p, indent=1), prev="\n".join(prev)))
    print("prompts written under", root)


if __name__ == "__main__":
    main()
