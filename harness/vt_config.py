"""Component configuration classes of the harness's probe devices, so that a generated scenario can be written to a
configuration FILE and come back through tickit's own loading path: `read_configs` (YAML, tagged union by the `type`
tag, lazily importing this module), `InverseWiring.from_component_configs`, `build_simulation` (with `components_to_run`
/ `include_schedulers` / `include_components`), `get_interface(backend)` and `TickitSimulation.run()`.
The probe behaviour travels as plain data in the `beh` field; the run context is handed over through `CTX`."""
from typing import Any, Dict

import pydantic.v1.dataclasses

from tickit.core.components.component import Component, ComponentConfig

CTX: Dict[str, Any] = {"ctx": None}


@pydantic.v1.dataclasses.dataclass
class Probe(ComponentConfig):
    beh: Dict[str, Any]

    def __call__(self) -> Component:
        import sim
        comp = {"name": self.name, "kind": "dev", "inputs": {q: [s.component, s.port] for q, s in self.inputs.items()}, "beh": self.beh}
        return sim.build_component(comp, CTX["ctx"])


def entries(comps):
    """scenario components -> YAML-able configuration entries"""
    out = []
    for c in comps:
        ins = {q: {"component": s[0], "port": s[1]} for q, s in c.get("inputs", {}).items()}
        if c["kind"] == "dev":
            out.append({"type": "vt_config.Probe", "name": c["name"], "inputs": ins, "beh": c.get("beh", {})})
        else:
            out.append({"type": "tickit.core.components.system_component.SystemSimulation", "name": c["name"], "inputs": ins,
                        "components": entries(c["components"]),
                        "expose": {p: {"component": s[0], "port": s[1]} for p, s in c.get("expose", {}).items()}})
    return out
