"""Scenario structure helpers: levels, resolved device-level wiring, flattening, generators."""
import copy
import random

EXTERNAL, EXPOSE = "external", "expose"


def set_pseudo(ext, exp):
    global EXTERNAL, EXPOSE
    EXTERNAL, EXPOSE = ext, exp


def walk(comps, parent="", depth=0):
    for c in comps:
        yield c, parent, depth
        if c["kind"] == "sys":
            yield from walk(c["components"], c["name"], depth + 1)


def devices(scn):
    return [c for c, _, _ in walk(scn["components"]) if c["kind"] == "dev"]


def systems(scn):
    return [c for c, _, _ in walk(scn["components"]) if c["kind"] == "sys"]


def parent_map(scn):
    return {c["name"]: p for c, p, _ in walk(scn["components"])}


def depth_map(scn):
    return {c["name"]: d for c, _, d in walk(scn["components"])}


def level_inverse(scn):
    """{level name: inverse wiring as ordered dict {comp: {port: (src, port)}}} as the code builds it"""
    out = {"": {c["name"]: dict((q, tuple(s)) for q, s in c.get("inputs", {}).items()) for c in scn["components"]}}
    for s in systems(scn):
        inv = {c["name"]: dict((q, tuple(src)) for q, src in c.get("inputs", {}).items()) for c in s["components"]}
        inv.setdefault(EXTERNAL, {})
        inv[EXPOSE] = dict((p, tuple(src)) for p, src in s.get("expose", {}).items())
        out[s["name"]] = inv
    return out


def resolve_sources(scn):
    """device-level resolved wiring: {(dev, port): (src_dev, src_port) | None}.
    An input wired to (`external`, x) resolves to whatever feeds input x of the enclosing
    system; an input wired to (sys, y) resolves to what sys exposes as y."""
    comps = {c["name"]: c for c, _, _ in walk(scn["components"])}
    par = parent_map(scn)

    def src_of(level, src, port, fuel=50):
        # (src, port) named inside `level`; return ultimate device port or None
        if fuel == 0:
            return None
        if src == EXTERNAL:
            if level == "":
                return None
            s = comps[level]
            up = s.get("inputs", {}).get(port)
            if up is None:
                return None
            return src_of(par[level], up[0], up[1], fuel - 1)
        c = comps.get(src)
        if c is None:
            return None
        if c["kind"] == "dev":
            return (src, port)
        inner = c.get("expose", {}).get(port)
        if inner is None:
            return None
        return src_of(c["name"], inner[0], inner[1], fuel - 1)

    out = {}
    for d in devices(scn):
        for q, s in d.get("inputs", {}).items():
            out[(d["name"], q)] = src_of(par[d["name"]], s[0], s[1])
    return out


def flatten(scn):
    """the equivalent flat configuration: every device at top level, external / exposed ports
    replaced by direct wires (inputs with no resolvable source are dropped)."""
    res = resolve_sources(scn)
    flat = []
    for d in devices(scn):
        dd = copy.deepcopy(d)
        dd["inputs"] = {q: list(res[(d["name"], q)]) for q in d.get("inputs", {}) if res[(d["name"], q)] is not None}
        flat.append(dd)
    out = {k: copy.deepcopy(v) for k, v in scn.items() if k != "components"}
    out["components"] = flat
    return out


def device_rank(scn):
    """topological rank over the resolved device-level wiring (None if cyclic)"""
    res = resolve_sources(scn)
    devs = [d["name"] for d in devices(scn)]
    ups = {d: set() for d in devs}
    for (d, q), s in res.items():
        if s is not None:
            ups[d].add(s[0])
    rank, left = {}, set(devs)
    while left:
        ready = [d for d in left if all(u in rank for u in ups[d])]
        if not ready:
            return None
        for d in ready:
            rank[d] = 1 + max([rank[u] for u in ups[d]], default=-1)
        left -= set(ready)
    return rank


# ------------------------------------------------------------------ generators
def gen_beh(rng, n_inputs, *, callbacks=True, period_choices=(1_000_000, 2_000_000, 3_000_000, 5_000_000)):
    n_out = rng.choice((1, 1, 2, 2, 3))
    outs = []
    for i in range(n_out):
        kind = rng.choice(("const", "counter", "sum", "sum", "counter"))
        o = {"port": rng.choice(("o", "out", "v")) if i == 0 else f"o{i}", "kind": kind,
             "v": rng.randrange(4), "mod": rng.choice((2, 3, 4)), "step": rng.choice((0, 1, 1, 2))}
        if rng.random() < 0.15:
            o["kind"] = "cycle"
            o["vals"] = [rng.choice((None, None, 0, 1, 2)) for _ in range(rng.randrange(1, 4))]
        if rng.random() < 0.25:
            o["omit_mod"] = rng.choice((2, 3))
            o["omit_phase"] = rng.randrange(o["omit_mod"])
        outs.append(o)
    # unique port names
    seen, uniq = set(), []
    for o in outs:
        if o["port"] not in seen:
            seen.add(o["port"])
            uniq.append(o)
    beh = {"outs": uniq, "cb": {"kind": "none"}}
    if callbacks:
        r = rng.random()
        if r < 0.35:
            beh["cb"] = {"kind": "period", "p": rng.choice(period_choices)}
        elif r < 0.6:
            beh["cb"] = {"kind": "list", "delays": [rng.choice((None, 1_000_000, 2_000_000, 4_000_000, 3_000_000, None, 1_000_000, 2_000_000, 0)) for _ in range(rng.randrange(1, 6))]}   # 0 = call me back at this very time
    return beh


def gen_flat(rng, n=None, *, callbacks=True, p_edge=0.45, max_n=7):
    n = n or rng.randrange(2, max_n + 1)
    names = [f"d{i}" for i in range(n)]
    comps = []
    for i, nm in enumerate(names):
        ins = {}
        beh_ports = []
        for j in range(i):
            if rng.random() < p_edge:
                src = comps[j]
                ports = [o["port"] for o in src["beh"]["outs"]]
                if ports:
                    q = rng.choice(("i", "in", "o")) if rng.random() < 0.3 else f"i{j}"
                    if q in ins:
                        q = f"i{j}"
                    ins[q] = [src["name"], rng.choice(ports)]
                    if rng.random() < 0.25:
                        # a second wire from the same upstream component (often the same output port)
                        ins[f"j{j}"] = [src["name"], ins[q][1] if rng.random() < 0.6 else rng.choice(ports)]
        beh = gen_beh(rng, len(ins), callbacks=callbacks)
        comps.append({"name": nm, "kind": "dev", "inputs": ins, "beh": beh})
    # make sure something has a callback so that there are ticks
    if callbacks and not any(c["beh"]["cb"]["kind"] != "none" for c in comps):
        comps[0]["beh"]["cb"] = {"kind": "period", "p": 2_000_000}
    return {"components": comps, "t0": rng.choice((0, 0, 5_000_000, 123)), "speed": [1, 1], "n_ticks": rng.randrange(3, 7)}


def group_into_system(rng, scn, members, sys_name):
    """group the (top-level, device) components `members` of a flat/outer scenario into one
    system simulation, preserving the device-level wiring. Returns None if the grouping
    would create a cycle through the system or is otherwise impossible."""
    comps = scn["components"]
    by = {c["name"]: c for c in comps}
    mem = [by[m] for m in members]
    memset = set(members)
    sys_inputs, expose, inner = {}, {}, []
    # convexity: no path member -> outside -> member
    # (checked by caller via rank test on the result)
    for c in mem:
        cc = copy.deepcopy(c)
        for q, s in list(cc.get("inputs", {}).items()):
            if s[0] not in memset:
                x = f"x_{s[0]}_{s[1]}"
                sys_inputs[x] = list(s)
                cc["inputs"][q] = [EXTERNAL, x]
        inner.append(cc)
    outer = []
    for c in comps:
        if c["name"] in memset:
            continue
        cc = copy.deepcopy(c)
        for q, s in list(cc.get("inputs", {}).items()):
            if s[0] in memset:
                y = f"y_{s[0]}_{s[1]}"
                expose[y] = list(s)
                cc["inputs"][q] = [sys_name, y]
        outer.append(cc)
    sysc = {"name": sys_name, "kind": "sys", "inputs": sys_inputs, "components": inner, "expose": expose}
    # place the system where its first member was, keep order otherwise
    out_comps, placed = [], False
    for c in comps:
        if c["name"] in memset:
            if not placed:
                out_comps.append(sysc)
                placed = True
        else:
            out_comps.append(next(o for o in outer if o["name"] == c["name"]))
    new = {k: copy.deepcopy(v) for k, v in scn.items() if k != "components"}
    new["components"] = out_comps
    return new


def top_level_acyclic(comps):
    names = [c["name"] for c in comps]
    ups = {c["name"]: {s[0] for s in c.get("inputs", {}).values() if s[0] in names} for c in comps}
    done, left = set(), set(names)
    while left:
        ready = [n for n in left if ups[n] <= done]
        if not ready:
            return False
        done |= set(ready)
        left -= set(ready)
    return True


def all_levels_acyclic(scn):
    if not top_level_acyclic(scn["components"]):
        return False
    for s in systems(scn):
        if not top_level_acyclic(s["components"]):
            return False
    return True


def gen_nested(rng, *, depth=2, callbacks=True, max_n=7):
    """a random nested scenario obtained by grouping slices of a random flat DAG"""
    for _ in range(50):
        scn = gen_flat(rng, callbacks=callbacks, max_n=max_n)
        k = 0
        for lvl in range(rng.randrange(1, depth + 1)):
            tops = [c["name"] for c in scn["components"] if c["kind"] == "dev"]
            if len(tops) < 1:
                break
            size = rng.randrange(1, max(2, len(tops)))
            start = rng.randrange(0, len(tops) - size + 1)
            members = tops[start:start + size] if rng.random() < 0.7 else rng.sample(tops, size)
            k += 1
            cand = group_into_system(rng, scn, members, f"s{k}")
            if cand is not None and all_levels_acyclic(cand):
                scn = cand
        # optionally nest a system inside a new system (system-in-system)
        if depth >= 2 and rng.random() < 0.5:
            syss = [c for c in scn["components"] if c["kind"] == "sys"]
            if syss:
                s = rng.choice(syss)
                cand = wrap_system(scn, s["name"], f"w{k}")
                if all_levels_acyclic(cand):
                    scn = cand
        if systems(scn) and rng.random() < 0.3:
            cand = add_passthrough(scn, rng)
            if cand is not None and all_levels_acyclic(cand) and device_rank(cand) is not None:
                scn = cand
        if systems(scn) and all_levels_acyclic(scn) and device_rank(scn) is not None:
            return scn
    return scn


def add_passthrough(scn, rng):
    """a system input that is exposed STRAIGHT THROUGH (`expose: {pt: external:x}`, possibly with no inner listener at
    all) and read by a new device outside the system"""
    tops = [c for c in scn["components"] if c["kind"] == "sys" and c.get("inputs")]
    if not tops:
        return None
    scn = copy.deepcopy(scn)
    sysc = rng.choice([c for c in scn["components"] if c["kind"] == "sys" and c.get("inputs")])
    x = rng.choice(sorted(sysc["inputs"]))
    y = f"pt_{x}"
    sysc.setdefault("expose", {})[y] = [EXTERNAL, x]
    if rng.random() < 0.4:
        # ... and nobody inside listens to x any more
        for c in sysc["components"]:
            for q, src in list(c.get("inputs", {}).items()):
                if src == [EXTERNAL, x]:
                    del c["inputs"][q]
    k = sum(1 for c, _, _ in walk(scn["components"]) if c["name"].startswith("pt"))
    sink = {"name": f"pt{k}", "kind": "dev", "inputs": {"i": [sysc["name"], y]}, "beh": gen_beh(rng, 1, callbacks=False)}
    i = scn["components"].index(sysc)
    scn["components"].insert(i + 1, sink)
    return scn


def wrap_system(scn, sys_name, wrapper):
    """put system `sys_name` inside a new pass-through system `wrapper`"""
    comps = []
    for c in scn["components"]:
        if c["name"] == sys_name:
            inner = copy.deepcopy(c)
            w_inputs = {x: list(s) for x, s in c.get("inputs", {}).items()}
            inner["inputs"] = {x: [EXTERNAL, x] for x in c.get("inputs", {})}
            w_expose = {y: [sys_name, y] for y in c.get("expose", {})}
            comps.append({"name": wrapper, "kind": "sys", "inputs": w_inputs, "components": [inner], "expose": w_expose})
        else:
            cc = copy.deepcopy(c)
            for q, s in cc.get("inputs", {}).items():
                if s[0] == sys_name:
                    cc["inputs"][q] = [wrapper, s[1]]
            comps.append(cc)
    new = {k: copy.deepcopy(v) for k, v in scn.items() if k != "components"}
    new["components"] = comps
    return new


def scenario_stats(scn):
    return {"devices": len(devices(scn)), "systems": len(systems(scn)),
            "depth": max(depth_map(scn).values(), default=0),
            "wires": sum(len(d.get("inputs", {})) for d in devices(scn)),
            "callbacks": sum(1 for d in devices(scn) if d["beh"].get("cb", {}).get("kind", "none") != "none")}


def rescale_times(scn, factor, rng):
    """the same scenario at another TIME SCALE: every callback period / delay, the initial time and every stimulus instant
    multiplied by `factor` (milliseconds -> seconds or minutes of simulated time), plus a few nanoseconds of per-device
    jitter on periodic callbacks so that wakeups of different devices come very close to each other without being equal
    (relative differences far below 1e-9).  The properties quantify over all times; tick counts do not change."""
    import copy
    scn = copy.deepcopy(scn)
    for d in devices(scn):
        cb = d["beh"].get("cb", {})
        if cb.get("kind") == "period":
            cb["p"] = cb["p"] * factor + rng.choice((0, 0, 1, 3, 7, 25, 40))
        elif cb.get("kind") == "list":
            cb["delays"] = [None if x is None else x * factor for x in cb["delays"]]
    if "t0" in scn:
        scn["t0"] = scn["t0"] * factor
    for st in scn.get("stims", []):
        if "real" in st:
            st["real"] = st["real"] * factor
    if scn.get("max_real") is not None:
        scn["max_real"] = scn["max_real"] * factor
    scn["time_scale"] = factor
    return scn


# names that differ only in case, punctuation or surrounding characters: whatever is derived from a component
# name (topics, registry keys, ...) must keep them apart
CONFUSABLE_GROUPS = [["tbl:x", "tbl_x", "tbl x", "tbl/x", "tbl.x", "tbl-x", "tbl__x", "TBL_X", "tbl;x"],
                     ["x", "X", "x-in", "x-out", "tickit-x", "tickit-x-in", "x-out-in"],
                     ["é", "e", "E", "e\u0301"],
                     ["a b", "a\tb", "a  b", "ab", " ab", "ab "],
                     ["in", "out", "0", "00", "-", "--"]]
CONFUSABLE = [n for g in CONFUSABLE_GROUPS for n in g]


def tricky_rename(scn, rng):
    """rename every component (devices and systems at every depth) to a name from CONFUSABLE, consistently
    in inputs, exposed ports and stimuli; returns a new scenario"""
    import copy
    scn = copy.deepcopy(scn)
    names = [c["name"] for c, _, _ in walk(scn["components"])]
    pool = [n for n in CONFUSABLE if n not in (EXTERNAL, EXPOSE)]
    if len(names) > len(pool):
        return scn
    # names of one group first (so that at least two components have confusable names), then the rest
    groups = [list(g) for g in CONFUSABLE_GROUPS]
    rng.shuffle(groups)
    order = []
    for g in groups:
        rng.shuffle(g)
        order += [n for n in g if n in pool]
    picked = order[:len(names)]
    rng.shuffle(picked)
    new = dict(zip(names, picked))

    def ren(comps):
        for c in comps:
            c["name"] = new[c["name"]]
            for q, src in list(c.get("inputs", {}).items()):
                c["inputs"][q] = [new.get(src[0], src[0]), src[1]]
            if c["kind"] == "sys":
                for q, src in list(c.get("expose", {}).items()):
                    c["expose"][q] = [new.get(src[0], src[0]), src[1]]
                ren(c["components"])
    ren(scn["components"])
    for st in scn.get("stims", []):
        st["comp"] = new.get(st["comp"], st["comp"])
    if "start_delays" in scn:
        scn["start_delays"] = {new.get(k, k): v for k, v in scn["start_delays"].items()}
    return scn


def permute_names(scn, rng):
    """the same scenario with the component names PERMUTED among the components of each kind (devices among devices, systems
    among systems): in which order a set of names is iterated depends on the names (and on the hash seed of the process), so
    the same topology is met with different iteration orders within one run"""
    import copy
    scn = copy.deepcopy(scn)
    new = {}
    for kind in ("dev", "sys"):
        names = [c["name"] for c, _, _ in walk(scn["components"]) if c["kind"] == kind]
        sh = list(names)
        rng.shuffle(sh)
        new.update(dict(zip(names, sh)))

    def ren(comps):
        for c in comps:
            c["name"] = new[c["name"]]
            for q, src in list(c.get("inputs", {}).items()):
                c["inputs"][q] = [new.get(src[0], src[0]), src[1]]
            if c["kind"] == "sys":
                for q, src in list(c.get("expose", {}).items()):
                    c["expose"][q] = [new.get(src[0], src[0]), src[1]]
                ren(c["components"])
    ren(scn["components"])
    for st in scn.get("stims", []):
        st["comp"] = new.get(st["comp"], st["comp"])
    if "start_delays" in scn:
        scn["start_delays"] = {new.get(k, k): v for k, v in scn["start_delays"].items()}
    return scn
