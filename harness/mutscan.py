#!/venv/bin/python
"""Systematic mutation scan of src/tickit against (1) tickit's own test suite and (2) the checks of /verif.

It is a GAP FINDER for the machinery, not a check: small syntactic faults (flipped comparisons, negated
conditions, dropped statements, swapped and/or, min/max, constants) are applied one at a time in scratch
worktrees (never /repo); those that the unedited test suite does not notice are run against the quick checks of
the properties whose anchors name the mutated file (cheapest first, stopping at the first alarm).  What is left
- passes the suite AND every relevant check - is either an equivalent mutant or a hole in the checks, and is
listed for triage in  <out>/survivors.json .

  mutscan.py enumerate [files...]            -> <out>/mutants.json
  mutscan.py suite  [--jobs N]               -> <out>/suite.json      (phase 1)
  mutscan.py checks [--jobs N] [--all]       -> <out>/checks.json, survivors.json (phase 2)
  mutscan.py report
Scratch lives under MUTSCAN_ROOT (default /tmp/mutscan) and is removed when a phase ends.
"""
import ast
import json
import os
import re
import subprocess
import sys
from concurrent.futures import ThreadPoolExecutor

VERIF = os.path.dirname(os.path.dirname(os.path.abspath(__file__)))
REPO = "/repo"
PY = "/venv/bin/python"
ROOT = os.environ.get("MUTSCAN_ROOT", "/tmp/mutscan")
OUT = os.environ.get("MUTSCAN_OUT", os.path.join(ROOT, "out"))
BASE_FAILS = {"tests/test_cli.py::test_cli_version", "tests/adapters/test_system.py::test_base_has_components_and_wiring"}
# cheapest first (quick-tier wall seconds, rough)
COST = {"C16": 3, "C20": 3, "C15": 4, "C19": 5, "C17": 8, "C18": 10, "C02": 8, "C01": 8, "C05": 8, "C03": 10, "C12": 10, "C14": 12,
        "C11": 12, "C10": 12, "C06": 14, "C08": 14, "C04": 16, "C09": 20, "C07": 22, "C13": 27}


def sh(cmd, cwd=None, env=None, timeout=600):
    e = dict(os.environ)
    if env:
        e.update(env)
    try:
        p = subprocess.run(cmd, shell=True, cwd=cwd, env=e, capture_output=True, text=True, timeout=timeout)
        return p.returncode, p.stdout + p.stderr
    except subprocess.TimeoutExpired:
        return 124, "timeout"


EXTRA = {"src/tickit/cli.py": ["C17"], "src/tickit/adapters/io/epics_io.py": ["C10"], "src/tickit/core/adapter.py": ["C10", "C18", "C11"],
         "src/tickit/core/device.py": ["C02"], "src/tickit/devices/source.py": ["C03"], "src/tickit/devices/sink.py": ["C03"],
         "src/tickit/adapters/system.py": ["C09", "C10"], "src/tickit/adapters/http.py": ["C18"]}


def anchors():
    m = {k: list(v) for k, v in EXTRA.items()}
    for l in open(os.path.join(VERIF, "properties.jsonl")):
        p = json.loads(l)
        for f in p["anchors"]["files"]:
            m.setdefault(f, []).append(p["id"])
    return m


# ---------------------------------------------------------------------------------------------------------
# enumeration

CMP = {ast.Lt: "<=", ast.LtE: "<", ast.Gt: ">=", ast.GtE: ">", ast.Eq: "!=", ast.NotEq: "==", ast.Is: "is not", ast.IsNot: "is",
       ast.In: "not in", ast.NotIn: "in"}
CMPTXT = {ast.Lt: "<", ast.LtE: "<=", ast.Gt: ">", ast.GtE: ">=", ast.Eq: "==", ast.NotEq: "!=", ast.Is: "is", ast.IsNot: "is not",
          ast.In: "in", ast.NotIn: "not in"}


class Enum(ast.NodeVisitor):
    def __init__(self, path, src):
        self.path, self.src, self.lines = path, src, src.splitlines(keepends=True)
        self.out = []
        self.func = []

    def seg(self, n):
        return ast.get_source_segment(self.src, n)

    def add(self, n, new, op):
        if new is None or self.seg(n) is None or new == self.seg(n):
            return
        self.out.append({"file": self.path, "func": ".".join(self.func), "line": n.lineno, "col": n.col_offset, "end_line": n.end_lineno,
                         "end_col": n.end_col_offset, "old": self.seg(n), "new": new, "op": op})

    def visit_FunctionDef(self, n):
        self.func.append(n.name)
        body = n.body
        if body and isinstance(body[0], ast.Expr) and isinstance(getattr(body[0], "value", None), ast.Constant) and isinstance(body[0].value.value, str):
            body = body[1:]  # docstring
        for s in body:
            self.stmt(s)
        for s in n.body:
            self.visit(s)
        self.func.pop()

    visit_AsyncFunctionDef = visit_FunctionDef

    def visit_ClassDef(self, n):
        self.func.append(n.name)
        self.generic_visit(n)
        self.func.pop()

    def stmt(self, s):
        """statement deletion (only simple statements that are not the sole carrier of a name binding used later
        would be ideal; we simply try: a NameError is caught by the suite or the checks at once)"""
        if isinstance(s, ast.Expr) and not (isinstance(s.value, ast.Constant)):
            if not (self.seg(s) or "").startswith(("LOGGER.", "logging.", "warnings.")):  # equivalent w.r.t. every property
                self.add(s, "pass", "del-stmt")
        elif isinstance(s, (ast.AugAssign,)):
            self.add(s, "pass", "del-stmt")
        elif isinstance(s, ast.Assign) and any(isinstance(t, (ast.Attribute, ast.Subscript)) for t in s.targets):
            self.add(s, "pass", "del-stmt")
        elif isinstance(s, (ast.Delete, ast.Raise, ast.Assert)):
            self.add(s, "pass", "del-stmt")
        elif isinstance(s, (ast.Continue,)):
            self.add(s, "break", "continue-break")
        elif isinstance(s, (ast.Break,)):
            self.add(s, "continue", "break-continue")
        for fld in ("body", "orelse", "finalbody"):
            for c in getattr(s, fld, []) or []:
                if isinstance(c, ast.stmt) and not isinstance(c, (ast.FunctionDef, ast.AsyncFunctionDef, ast.ClassDef)):
                    self.stmt(c)
        for h in getattr(s, "handlers", []) or []:
            for c in h.body:
                self.stmt(c)

    def visit_Compare(self, n):
        if len(n.ops) == 1 and self.func:
            op = type(n.ops[0])
            l, r = self.seg(n.left), self.seg(n.comparators[0])
            if l and r and op in CMP:
                self.add(n, f"{l} {CMP[op]} {r}", "cmp")
                if op in (ast.Lt, ast.LtE, ast.Gt, ast.GtE):
                    flip = {ast.Lt: ">", ast.LtE: ">=", ast.Gt: "<", ast.GtE: "<="}[op]
                    self.add(n, f"{l} {flip} {r}", "cmp-flip")
        self.generic_visit(n)

    def visit_BoolOp(self, n):
        if self.func:
            parts = [self.seg(v) for v in n.values]
            if all(parts):
                j = " or " if isinstance(n.op, ast.And) else " and "
                self.add(n, "(" + j.join(f"({p})" for p in parts) + ")", "and-or")
                for i in range(len(parts)):  # drop one operand
                    rest = parts[:i] + parts[i + 1:]
                    k = " and " if isinstance(n.op, ast.And) else " or "
                    self.add(n, "(" + k.join(f"({p})" for p in rest) + ")", "drop-operand")
        self.generic_visit(n)

    def visit_UnaryOp(self, n):
        if self.func and isinstance(n.op, ast.Not):
            self.add(n, f"({self.seg(n.operand)})", "drop-not")
        self.generic_visit(n)

    def cond(self, t):
        if self.func and not (isinstance(t, ast.UnaryOp) and isinstance(t.op, ast.Not)) and not isinstance(t, ast.Compare):
            self.add(t, f"not ({self.seg(t)})", "negate")

    def visit_If(self, n):
        self.cond(n.test)
        self.generic_visit(n)

    def visit_While(self, n):
        if not (isinstance(n.test, ast.Constant)):
            self.cond(n.test)
        self.generic_visit(n)

    def visit_IfExp(self, n):
        self.cond(n.test)
        self.generic_visit(n)

    def visit_comprehension(self, n):
        for c in n.ifs:
            self.cond(c)
            if self.func:
                self.add(c, "True", "drop-filter")
        self.generic_visit(n)

    def visit_Call(self, n):
        if self.func and isinstance(n.func, ast.Name) and n.func.id in ("min", "max"):
            self.add(n.func, "max" if n.func.id == "min" else "min", "min-max")
        if self.func and isinstance(n.func, ast.Attribute):
            swap = {"add": "discard", "update": "setdefault" if False else None, "popleft": "pop", "append": None, "get_nowait": None}
            a = n.func.attr
            if a == "popleft":
                self.add(n, self.seg(n).replace(".popleft(", ".pop("), "fifo-lifo")
            if a == "pop" and len(n.args) == 1 and isinstance(n.args[0], ast.Constant) and n.args[0].value == 0:
                self.add(n, self.seg(n.func) + "()", "fifo-lifo")
        self.generic_visit(n)

    def visit_BinOp(self, n):
        if self.func:
            l, r = self.seg(n.left), self.seg(n.right)
            sw = {ast.Add: "-", ast.Sub: "+", ast.Mult: "/", ast.Div: "*", ast.FloorDiv: "/", ast.BitOr: "&", ast.BitAnd: "|"}
            if l and r and type(n.op) in sw and not isinstance(n.left, ast.Constant) or (l and r and type(n.op) in sw and not isinstance(n.left.value if isinstance(n.left, ast.Constant) else 0, str)):
                if not (isinstance(n.left, ast.Constant) and isinstance(n.left.value, (str, bytes))) and not (isinstance(n.right, ast.Constant) and isinstance(n.right.value, (str, bytes))):
                    self.add(n, f"{l} {sw[type(n.op)]} {r}", "arith")
        self.generic_visit(n)

    def visit_Constant(self, n):
        if self.func:
            v = n.value
            if v is True:
                self.add(n, "False", "const")
            elif v is False:
                self.add(n, "True", "const")
            elif isinstance(v, int) and not isinstance(v, bool) and v in (0, 1):
                self.add(n, str(1 - v), "const")

    def visit_Return(self, n):
        if self.func and n.value is not None and not isinstance(n.value, ast.Constant):
            pass
        self.generic_visit(n)


def enumerate_mutants(files):
    out = []
    for rel in files:
        src = open(os.path.join(REPO, rel)).read()
        e = Enum(rel, src)
        e.visit(ast.parse(src))
        seen = set()
        for m in e.out:
            k = (m["line"], m["col"], m["end_line"], m["end_col"], m["new"])
            if k in seen:
                continue
            seen.add(k)
            out.append(m)
    for i, m in enumerate(out):
        m["id"] = i
    return out


def apply(m, root):
    p = os.path.join(root, m["file"])
    lines = open(p).read().splitlines(keepends=True)
    # byte offsets: ast columns are utf-8 byte offsets; the sources are ASCII in the places we touch
    pre = lines[m["line"] - 1][: m["col"]]
    post = lines[m["end_line"] - 1][m["end_col"]:]
    new = lines[: m["line"] - 1] + [pre + m["new"] + post] + lines[m["end_line"]:]
    txt = "".join(new)
    try:
        ast.parse(txt)
    except SyntaxError:
        return False
    open(p, "w").write(txt)
    return True


# ---------------------------------------------------------------------------------------------------------

def worktree(k):
    wt = f"{ROOT}/wt{k}"
    if not os.path.exists(wt):
        rc, out = sh(f"git -C {REPO} worktree add -q --detach {wt} HEAD")
        assert rc == 0, out
    return wt


def suite_one(args):
    m, k = args
    wt = worktree(k)
    sh("git checkout -q -- .", cwd=wt)
    if not apply(m, wt):
        return m["id"], "syntax"
    rc, out = sh(f"unshare -rn sh -c 'ip link set lo up; timeout 150 {PY} -m pytest -q -x -p no:cacheprovider --no-cov --timeout=60 "
                 f"--deselect tests/test_cli.py::test_cli_version --deselect tests/adapters/test_system.py::test_base_has_components_and_wiring "
                 f"src tests 2>&1 | tail -5'", cwd=wt, env={"PYTHONPATH": f"{wt}/src"}, timeout=200)
    sh("git checkout -q -- .", cwd=wt)
    mm = re.search(r"(\d+) passed", out)
    if mm and int(mm.group(1)) >= 260 and " failed" not in out and " error" not in out:
        return m["id"], "survived"
    return m["id"], "killed"


def pool(fn, items, jobs):
    """each worker thread owns one worktree index"""
    import queue
    import threading
    q = queue.Queue()
    for it in items:
        q.put(it)
    res = {}
    lock = threading.Lock()

    def work(k):
        while True:
            try:
                it = q.get_nowait()
            except queue.Empty:
                return
            try:
                i, r = fn((it, k))
            except Exception as e:  # noqa
                i, r = it["id"], f"error {e!r}"
            with lock:
                res[i] = r
                if len(res) % 50 == 0:
                    print(f"  {len(res)}/{len(items)}", flush=True)
    ts = [threading.Thread(target=work, args=(k,)) for k in range(jobs)]
    [t.start() for t in ts]
    [t.join() for t in ts]
    return res


def check_one(args):
    m, k = args
    wt = worktree(k)
    sh("git checkout -q -- .", cwd=wt)
    if not apply(m, wt):
        return m["id"], {"caught_by": "syntax"}
    props = sorted(m["props"], key=lambda c: COST.get(c, 30))
    tried = []
    caught = None
    for c in props:
        env = {"PYTHONPATH": f"{wt}/src", "VERIF_EVIDENCE_DIR": f"{ROOT}/ev/{m['id']}", "VERIF_REPLAYS_DIR": f"{ROOT}/rp/{m['id']}",
               "VERIF_SEED": os.environ.get("VERIF_SEED", "0")}
        rc, out = sh(f"{VERIF}/check {c} --tier quick --no-build", env=env, timeout=900)
        line = next((l for l in out.splitlines() if l.startswith("VIOLATION")), "")
        tried.append([c, rc])
        if rc == 1 and line:   # an alarm; exit 2 (infrastructure error) is no detection
            kind = "nfi" if "no-failing-input-found" in line else ("viol" if line else f"rc{rc}")
            first = next((l.strip()[:160] for l in out.splitlines() if l.strip().startswith("first")), "")
            caught = [c, kind, first]
            break
    sh("git checkout -q -- .", cwd=wt)
    sh(f"rm -rf {ROOT}/ev/{m['id']} {ROOT}/rp/{m['id']}")
    return m["id"], {"caught_by": caught, "tried": tried}


def cleanup(jobs):
    for k in range(jobs):
        sh(f"git -C {REPO} worktree remove --force {ROOT}/wt{k}")
    sh(f"git -C {REPO} worktree prune")


def main():
    os.makedirs(OUT, exist_ok=True)
    cmd = sys.argv[1]
    jobs = int(sys.argv[sys.argv.index("--jobs") + 1]) if "--jobs" in sys.argv else 8
    anc = anchors()
    if cmd == "enumerate":
        files = [a for a in sys.argv[2:] if a.endswith(".py")] or sorted(anc)
        ms = enumerate_mutants(files)
        for m in ms:
            m["props"] = anc.get(m["file"], [])
        json.dump(ms, open(f"{OUT}/mutants.json", "w"), indent=0)
        from collections import Counter
        print(len(ms), "mutants", Counter(m["op"] for m in ms))
    elif cmd == "suite":
        ms = json.load(open(f"{OUT}/mutants.json"))
        done = json.load(open(f"{OUT}/suite.json")) if os.path.exists(f"{OUT}/suite.json") else {}
        todo = [m for m in ms if str(m["id"]) not in done]
        res = pool(suite_one, todo, jobs)
        done.update({str(k): v for k, v in res.items()})
        json.dump(done, open(f"{OUT}/suite.json", "w"))
        from collections import Counter
        print(Counter(done.values()))
        cleanup(jobs)
    elif cmd == "checks":
        ms = json.load(open(f"{OUT}/mutants.json"))
        st = json.load(open(f"{OUT}/suite.json"))
        done = json.load(open(f"{OUT}/checks.json")) if os.path.exists(f"{OUT}/checks.json") else {}
        todo = [m for m in ms if st.get(str(m["id"])) == "survived" and str(m["id"]) not in done]
        print(len(todo), "to check")
        res = pool(check_one, todo, jobs)
        done.update({str(k): v for k, v in res.items()})
        json.dump(done, open(f"{OUT}/checks.json", "w"))
        cleanup(jobs)
        report()
    elif cmd == "report":
        report()


def report():
    ms = {str(m["id"]): m for m in json.load(open(f"{OUT}/mutants.json"))}
    st = json.load(open(f"{OUT}/suite.json"))
    ck = json.load(open(f"{OUT}/checks.json")) if os.path.exists(f"{OUT}/checks.json") else {}
    from collections import Counter
    print("suite:", Counter(st.values()))
    surv = [ms[i] | {"tried": v.get("tried")} for i, v in ck.items() if isinstance(v, dict) and not v.get("caught_by")]
    print("checked:", len(ck), "caught by a check:", len(ck) - len(surv), "uncaught:", len(surv))
    byfile = Counter(m["file"] for m in surv)
    for f, n in byfile.most_common():
        print(f"  {n:4d} {f}")
    json.dump(surv, open(f"{OUT}/survivors.json", "w"), indent=1)


if __name__ == "__main__":
    main()
