#!/venv/bin/python
"""(Re)generate MANIFEST.json from the property check modules that exist."""
import importlib
import json
import os
import sys

HERE = os.path.dirname(os.path.abspath(__file__))
sys.path.insert(0, HERE)
VERIF = os.path.dirname(HERE)
ALL = [f"C{i:02d}" for i in range(1, 21)]
BASELINE = json.load(open("/root/.vp/BASELINE.json")) if os.path.exists("/root/.vp/BASELINE.json") else {}

checks, na = [], []
for pid in ALL:
    try:
        mod = importlib.import_module(f"props.{pid.lower()}")
    except ImportError:
        na.append({"property_id": pid, "reason": "check not built yet (work in progress; see DESIGN.md section 7 for the plan)"})
        continue
    checks.append({
        "property_id": pid,
        "quick_cmd": f"./check {pid} --tier quick",
        "thorough_cmd": f"./check {pid} --tier thorough",
        "evidence_file": f"evidence/{pid}.json",
        "replay_cmd_template": f"./check {pid} --replay {{path}}",
        "engine": "lean4-model+correspondence",
        "level_claimed": {"category": "proof", "text": mod.LEVEL_TEXT + (" " + mod.LEVEL_ADDENDUM if getattr(mod, "LEVEL_ADDENDUM", "") else ""), "design_ref": f"DESIGN.md section 7 ({pid})"},
        "level_note": mod.LEVEL_NOTE,
        "technique": mod.TECHNIQUE,
    })

manifest = {
    "version": 1,
    "setup_cmd": "cd lean && lake build TickitModel TickitModel.AllProps driver",
    "hooks": {
        "guard": "TICKIT_VERIF",
        "enable": "no hooks are compiled into /repo: observation uses tickit's own extension points (injected state-interface classes, Device/adapter subclasses, event-loop subclass) and harness-side wrapping of Ticker methods and clock functions at run time",
        "baseline_off_cmd": "cd /repo && /venv/bin/python -m pytest -ra -q -p no:cacheprovider --timeout=900 --continue-on-collection-errors",
        "source_commits": [],
        "add_only": True,
    },
    "engines": [{
        "name": "lean4-model+correspondence",
        "path": "lean/ (Lake project TickitModel, Driver.lean) + harness/",
        "serves_properties": [c["property_id"] for c in checks],
        "kind_free_text": "machine-checked Lean 4 theorems over a hand-written executable model; model tied to /repo by differential runs and trace validation on every run; property monitors on real traces provide failing inputs",
    }],
    "checks": checks,
    "not_applicable": na,
    "notes": "See DESIGN.md. Known findings: KNOWN_FINDINGS.json. `fix:` commits in /repo are listed there as fixed.",
}
json.dump(manifest, open(os.path.join(VERIF, "MANIFEST.json"), "w"), indent=1)
print(f"{len(checks)} checks, {len(na)} not applicable")
