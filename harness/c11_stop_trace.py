"""Trace source for the stop-protocol model (lean/TickitModel/Core/StopProtocol.lean, Props/C11Stop): runs the REAL
MasterScheduler / TickitSimulation.run() on tickit's in-process bus with a randomly delaying producer and logs the events
that correspond to the model's actions (a component fails / answers, one statement of an exception handler, one
StopComponent produced / delivered, moves of the run loop, wakeups).  The driver's `stopproto` op must accept every logged
history and agree on whether run() returned.  (Written by the proof sub-agent of session 6 as its validation script,
adapted: actions are JSON lists.)"""
import asyncio, contextvars, logging, os, random, sys
TIMEOUT = 3.0   # wall-clock seconds after which a run() that has not returned counts as hanging
from immutables import Map
from tickit.core.adapter import AdapterContainer, AdapterIo
from tickit.core.components.device_component import DeviceComponent
from tickit.core.device import Device, DeviceUpdate
from tickit.core.management.event_router import InverseWiring
from tickit.core.management.schedulers.master import MasterScheduler
from tickit.core.management.schedulers.base import BaseScheduler
from tickit.core.management.ticker import Ticker
from tickit.core.simulation import TickitSimulation
from tickit.core.state_interfaces.state_interface import get_interface
from tickit.core.state_interfaces.internal import InternalStateProducer, InternalStateServer
from tickit.core.typedefs import ComponentException, ComponentID, StopComponent, SimTime

logging.disable(logging.CRITICAL)
HANDLER = contextvars.ContextVar("handler", default=None)


class Boom(Exception):
    pass


class Dev(Device):
    """periodic until `fail_at`, raises from then on (fail_at None: never)."""
    def __init__(self, period, fail_at):
        self.period, self.fail_at = period, fail_at
    def update(self, time, inputs):
        if self.fail_at is not None and time >= self.fail_at:
            raise Boom()
        return DeviceUpdate(Map(), None if self.period is None else SimTime(time + self.period))


class QuietAdapter:
    def after_update(self): pass


class BlockingIo(AdapterIo):
    async def setup(self, adapter, raise_interrupt):
        await asyncio.Event().wait()


async def run_one(seed, spec):
    rng = random.Random(seed)
    log = []
    names = [ComponentID(n) for n, _, _ in spec]
    # fresh bus
    from buses import reset_internal_bus
    reset_internal_bus()
    comps = {ComponentID(n): DeviceComponent(name=ComponentID(n), device=Dev(p, f),
             adapters=[AdapterContainer(QuietAdapter(), BlockingIo())]) for n, p, f in spec}
    sched = MasterScheduler(InverseWiring({n: {} for n in names}), *get_interface("internal"),
                            simulation_speed=1000.0)
    state = {"nreports": 0, "initial": True, "ticked": False}

    # --- the bus: random delay before every message is pushed
    orig_produce = InternalStateProducer.produce
    async def produce(self, topic, value):
        for _ in range(rng.randint(0, 3)):
            await asyncio.sleep(0)
        if isinstance(value, StopComponent):
            log.append(["produceStop", HANDLER.get(), topic[len("tickit-"):-len("-in")]])
        await orig_produce(self, topic, value)
    InternalStateProducer.produce = produce

    # --- components: stop_component
    for n, c in comps.items():
        orig_stop = c.stop_component
        async def stop(n=n, orig=orig_stop):
            log.append(["deliverStop", str(n)])
            await orig()
        c.stop_component = stop

    # --- scheduler
    orig_handle = sched.handle_message
    async def handle_message(message):
        if isinstance(message, ComponentException):
            log.append(["fail", str(message.source)])
        await orig_handle(message)
    sched.handle_message = handle_message

    orig_master_h = sched.handle_component_exception
    async def master_h(message):
        i = state["nreports"]; state["nreports"] += 1
        HANDLER.set(i)
        log.append(["handler", i])          # start -> fanout (no await before asyncio.wait)
        await orig_master_h(message)
    sched.handle_component_exception = master_h

    orig_add = sched.add_wakeup
    def add_wakeup(component, when):
        log.append(["wakeup"])
        orig_add(component, when)
    sched.add_wakeup = add_wakeup

    orig_setup = sched.setup
    async def setup():
        await orig_setup()
        ev = sched.error; o = ev.set
        def eset():
            log.append(["handler", HANDLER.get()]); o()     # fanout [] -> afterSuper
        ev.set = eset
        fin = sched.ticker.finished; fs, fc = fin.set, fin.clear
        def fset():
            if HANDLER.get() is not None:
                log.append(["handler", HANDLER.get()])       # afterSuper -> done
            fs()
        def fclear():
            log.append(["loop"]); fc()                          # ticking -> top
        fin.set, fin.clear = fset, fclear
        nw = sched.new_wakeup; nc = nw.clear
        def nclear():
            log.append(["loop"]); nc()                          # top/waiting -> waiting/sleeping
        nw.clear = nclear
        t = sched.ticker
        op = t.propagate
        async def propagate(output):
            log.append(["answer", str(output.source)])
            await op(output)
        t.propagate = propagate
        ost = t._start_tick
        async def start_tick(time, update_components):
            await ost(time, update_components)
            state["ticked"] = True
            if state["initial"]:
                state["initial"] = False
                assert set(t.to_update) == set(names)
            else:
                log.append(["sleepExpires", [str(c) for c in t.to_update], bool(sched.wakeups)])
        t._start_tick = start_tick
    sched.setup = setup

    orig_do_tick = sched._do_tick
    async def do_tick():
        state["ticked"] = False
        await orig_do_tick()
        if not state["ticked"]:
            log.append(["loop"])                                # sleeping -> top (pre-empted)
    sched._do_tick = do_tick

    orig_rf = sched.run_forever
    async def run_forever():
        await orig_rf()
        log.append(["loop"])                                    # top -> exited
    sched.run_forever = run_forever

    sim = TickitSimulation("internal", sched, comps)
    run = asyncio.create_task(sim.run())
    done, _ = await asyncio.wait([run], timeout=TIMEOUT)
    InternalStateProducer.produce = orig_produce
    ok = bool(done)
    if not ok:
        run.cancel()
    return names, log, ok



SPECS = [
    # (name, period ns or None, fail_at or None)
    [("a", None, 0), ("b", None, 0), ("w", None, None)],
    [("a", None, 0), ("b", None, 0), ("c", None, 0)],
    [("a", 2_000_000, 4_000_000), ("b", 1_000_000, 4_000_000), ("w", None, None), ("p", 3_000_000, None)],
    [("a", 1_000_000, 3_000_000), ("w", 1_000_000, None)],
    [("a", 1_000_000, 2_000_000), ("b", 1_000_000, 2_000_000), ("c", 1_000_000, 2_000_000), ("p", 500_000, None)],
]


def histories(nseeds, seed0=0):
    out = []
    for si, spec in enumerate(SPECS):
        for seed in range(seed0, seed0 + nseeds):
            names, log, ok = asyncio.run(run_one(seed, spec))
            out.append({"spec": si, "seed": seed, "comps": [str(n) for n in names], "actions": log, "returned": ok})
    return out
