#!/venv/bin/python
"""Writes the hand-kept corpus scenarios (corpus/*.json): documented shapes that past seeded changes needed in
order to manifest.  They run first in every simulation-based check.  Re-run after editing; the JSON files are
what the checks read."""
import copy
import json
import os
import random
import sys

sys.path.insert(0, os.path.dirname(os.path.abspath(__file__)))
import scenario as S  # noqa: E402

VERIF = os.path.dirname(os.path.dirname(os.path.abspath(__file__)))
OUT = os.path.join(VERIF, "corpus")
MS = 1_000_000


def dev(name, inputs=None, outs=None, cb=None):
    return {"name": name, "kind": "dev", "inputs": inputs or {},
            "beh": {"outs": outs if outs is not None else [{"port": "o", "kind": "counter", "v": 0, "mod": 5, "step": 1}], "cb": cb or {"kind": "none"}}}


def counter(port="o", v=0, mod=5, step=1):
    return {"port": port, "kind": "counter", "v": v, "mod": mod, "step": step}


def const(port="o", v=1):
    return {"port": port, "kind": "const", "v": v}


def summ(port="o", mod=7):
    return {"port": port, "kind": "sum", "v": 0, "mod": mod}


def scn(comps, t0=0, n=8, **kw):
    return {"components": comps, "t0": t0, "speed": [1, 1], "n_ticks": n, **kw}


corpus = {}

# 1. one component reachable from a common ancestor along several paths; the branches become due alone at
#    different times after ticks rooted at the ancestor (memoised / truncated reachability)
d3 = [dev("src", outs=[counter()], cb={"kind": "list", "delays": [4 * MS, 7 * MS]}),
      dev("a", {"i": ["src", "o"]}, [counter(mod=4)], {"kind": "period", "p": 2 * MS}),
      dev("b", {"i": ["src", "o"]}, [counter(mod=3)], {"kind": "period", "p": 3 * MS}),
      dev("c", {"i": ["src", "o"]}, [counter(mod=6)], {"kind": "list", "delays": [5 * MS, 1 * MS, 1 * MS]}),
      dev("join", {"ia": ["a", "o"], "ib": ["b", "o"], "ic": ["c", "o"]}, [summ()]),
      dev("tail", {"i": ["join", "o"]}, [summ()])]
corpus["diamond3-staggered"] = scn(d3, n=10)
g = S.group_into_system(random.Random(0), scn(copy.deepcopy(d3), n=10), ["a", "b", "c", "join"], "sysd")
corpus["diamond3-in-system"] = g
g2 = S.group_into_system(random.Random(0), scn(copy.deepcopy(d3), n=10), ["src", "a", "b"], "sysu")
corpus["diamond3-upper-in-system"] = g2

# 2. two wires from one upstream into one downstream plus a further upstream: the doubly wired upstream's
#    ports stay unchanged while the other changes; and both ports of one upstream change in the same tick
corpus["double-wire-fan-in"] = scn([
    dev("r", outs=[counter()], cb={"kind": "period", "p": 1 * MS}),
    dev("A", {"i": ["r", "o"]}, [const("o", 1), const("o1", 2)]),
    dev("B", {"i": ["r", "o"]}, [summ("o", 5)]),
    dev("D", {"x": ["A", "o"], "y": ["A", "o1"], "z": ["B", "o"]}, [summ()]),
    dev("P", outs=[counter("pos", 0, 7, 1), counter("vel", 3, 7, 2)], cb={"kind": "period", "p": 2 * MS}),
    dev("M", {"pos": ["P", "pos"], "vel": ["P", "vel"]}, [summ()])], n=8)

# 3. a fan-in component one of whose branches is passed over (unchanged upstream) while the other produces a
#    change, in a tick in which it is no root; branches of different depth
corpus["skip-branch-fan-in"] = scn([
    dev("r", outs=[counter()], cb={"kind": "period", "p": 1 * MS}),
    dev("X0", {"i": ["r", "o"]}, [const("o", 1)]),
    dev("X", {"i": ["X0", "o"]}, [summ()]),
    dev("B0", {"i": ["r", "o"]}, [summ("o", 5)]),
    dev("B1", {"i": ["B0", "o"]}, [summ("o", 5)]),
    dev("B", {"i": ["B1", "o"]}, [summ("o", 5)]),
    dev("D", {"x": ["X", "o"], "b": ["B", "o"]}, [summ()]),
    dev("E", {"d": ["D", "o"]}, [summ()])], n=6)

# 4. a callback for simulation time 0 next to later wakeups that are registered after it (and before it)
corpus["wakeup-at-zero"] = scn([
    dev("early", outs=[counter()], cb={"kind": "period", "p": 1 * MS}),
    dev("z1", outs=[counter()], cb={"kind": "list", "delays": [0, None]}),
    dev("z2", outs=[counter()], cb={"kind": "list", "delays": [0, 2 * MS, None]}),
    dev("late", outs=[counter()], cb={"kind": "period", "p": 2 * MS}),
    dev("sink", {"a": ["z1", "o"], "b": ["z2", "o"], "c": ["late", "o"]}, [summ()])], t0=0, n=7)

# 5. a purely interrupt-driven system next to a periodic device; stimuli inside the system, also for the device
#    that is being served
corpus["interrupt-driven-system"] = S.group_into_system(random.Random(0), scn([
    dev("clk", outs=[counter()], cb={"kind": "period", "p": 5 * MS}),
    dev("trig", outs=[counter()]),
    dev("slow", {"v": ["trig", "o"]}, [summ()]),
    dev("mon", {"v": ["slow", "o"]}, [summ()])], n=6,
    stims=[{"real": 1 * MS + 111, "comp": "trig"}, {"real": 2 * MS + 111, "comp": "slow"}, {"real": 7 * MS + 111, "comp": "trig"}]),
    ["trig", "slow"], "isys")

# 6. a system input that is exposed straight through (`expose: {pt: external:x}`) and that NO inner component listens to,
#    next to an input that is listened to; the same through two levels; values change over several ticks
corpus["pass-through-no-listener"] = scn([
    dev("src", outs=[counter()], cb={"kind": "period", "p": 1 * MS}),
    dev("src2", outs=[counter(mod=4)], cb={"kind": "period", "p": 2 * MS}),
    {"name": "psys", "kind": "sys", "inputs": {"x": ["src", "o"], "w": ["src2", "o"]},
     "expose": {"pt": ["external", "x"], "y": ["in1", "o"], "deep": ["wrap", "pt2"]},
     "components": [dev("in1", {"i": ["external", "w"]}, [summ()]), dev("quiet"),
                    {"name": "wrap", "kind": "sys", "inputs": {"x2": ["external", "x"]}, "expose": {"pt2": ["external", "x2"]}, "components": [dev("idle")]}]},
    dev("sinkpt", {"a": ["psys", "pt"]}, [summ()]),
    dev("sinky", {"b": ["psys", "y"], "c": ["psys", "deep"]}, [summ()])], n=8)

# 7. seconds and minutes of simulated time: unwired devices whose wakeups come within a few nanoseconds of each other
#    (relative differences far below 1e-9) without being equal, and a device whose wakeups coincide exactly with another's
SEC = 1_000 * MS
corpus["nearly-simultaneous-wakeups"] = scn([
    dev("sens", outs=[counter()], cb={"kind": "period", "p": 60 * SEC + 25}),
    dev("pump", outs=[counter()], cb={"kind": "period", "p": 60 * SEC}),
    dev("same", outs=[counter()], cb={"kind": "period", "p": 60 * SEC}),
    dev("view", {"a": ["sens", "o"], "b": ["pump", "o"]}, [summ()]),
    dev("hour", outs=[counter()], cb={"kind": "list", "delays": [3600 * SEC, 1, 1, None]})], n=12)

os.makedirs(OUT, exist_ok=True)
for name, s in corpus.items():
    assert s is not None and S.all_levels_acyclic(s) and S.device_rank(s) is not None, name
    json.dump(s, open(os.path.join(OUT, name + ".json"), "w"), indent=1, sort_keys=True)
print(len(corpus), "corpus scenarios written to", OUT)
