"""C10 — unconnected parts of a simulation never influence each other."""
import copy
import os
import random

import model
import monitors
import scenario as S
from sim import run_scenario

from .base import Result, V
from . import simcommon as SC
from .c07 import dev

MODULES = ['TickitModel.Props.C10', 'TickitModel.Props.C15', 'TickitModel.Props.C01', 'TickitModel.Props.C01Live', 'TickitModel.Props.C10Run', 'TickitModel.Props.C10Epics']
THEOREMS = ['part_tick_same', 'whole_never_stalls', 'extent_stays_inside', 'isPart_append', 'topic_injective', 'topic_in_ne_out', 'within_extent', 'tick_can_complete', 'part_run_same', 'part_run_same_any', 'part_run_same_append',
            'Epics.notified_once_per_own_update', 'Epics.notified_only_by_own_device', 'Epics.records_noninterference', 'Epics.records_unchanged_by_other_component',
            'Epics.record_set_own', 'Epics.adapter_events_closed_form', 'Epics.shared_sets_foreign_records']
ANCHORS = ["src/tickit/utils/topic_naming.py", "src/tickit/core/management/schedulers/nested.py", "src/tickit/core/management/schedulers/base.py",
           "src/tickit/core/state_interfaces/internal.py", "src/tickit/adapters/epics.py", "src/tickit/core/components/device_component.py"]
TECHNIQUE = 'Lean 4 theorems (distinct components never share a topic - over constants regenerated from the code; a tick touches only the extent of its roots and never stalls on an acyclic wiring; projection of a tick onto a disconnected part) + differential runs of the real code: configuration vs configuration extended by a disconnected part, incl. the shipped EPICS and command adapter classes'
LEVEL_TEXT = "ADAPTERS (Props/C10Epics, model Core/Epics of DeviceComponent.on_tick + AdapterContainer + the shipped EpicsAdapter with per-instance record tables): for every configuration, initial state and update history each adapter is notified exactly once per update of its own device and never for another device's update; the notifications and record writes of component c's adapters depend only on the sub-history of c's own updates (adding or removing any other component changes nothing), every write goes to a record of the adapter's own table with its own device's value; with the pre-repair class-level table this provably fails (a record of a is written during an update of b). The model is compared on every run with the real DeviceComponent + EpicsAdapter on generated configurations and histories. TICKS: Proved over the ticker model, for every wiring, reaction function and pair of answer orders: if no wire connects a set A of components to the rest, every component of A receives in a complete tick of the whole simulation exactly the dispatch it receives in the same tick of A alone (rank induction; the rest may do anything) - adding or removing a disconnected device, chain or system changes nothing for A; roots inside A never drag in anything outside A; the union of two well-formed wirings over disjoint components has each as such a part (so the hypothesis is satisfiable in general); the whole never stalls on an acyclic wiring; input/output topics of distinct components are pairwise distinct, over affixes re-extracted from topic_naming.py on every run. Over MANY ticks (part_run_same, part_run_same_any, part_run_same_append; flat multi-tick system, callbacks, devices that may behave differently at every tick, every answer order): every run of a configuration extended by a disconnected part projects onto a run of the configuration alone whose ticks are ticks of the extended run, with the SAME observation sequence for every component of the configuration - the extension only adds ticks in which nothing of the base is updated - and by schedule independence that is the observation sequence of every run of the base alone. PARTIAL: multi-tick histories with interrupt stamps (the 1-ns floor effect of non-integral elapsed*speed) and adapter notifications are validated, not proved: each base configuration is run alone and extended by a periodic device, a chain, a sibling system, a depth-2 system, a device with the shipped EpicsAdapter, a device with a CommandAdapter subclass and a disconnected device inside one of its own systems, under two buses: the base part's observation sequences, adapter notification logs and EPICS record refreshes must be identical and the run must not stall; every adapter is notified exactly once per update of its own device."
LEVEL_ADDENDUM = "Session 8: adapters on SYSTEM simulations (BaseSystemSimulationAdapter at depth 1 and 2) are handed their own system's components and wiring before their io runs, serve for the whole run, and their interrupt makes the master tick that system; bases at the scale of seconds / hours and an extension whose wakeups fall 25 ns per period before a base device's; the EPICS io hands every adapter the raise_interrupt of its own component."
LEVEL_NOTE = 'Trusts: Lean kernel; hand-written models; EPICS/command adapters are driven without a network (record setters are recorders).'
ASSUMPTIONS = ['the added part shares no wire and no name with the base']


def extensions(rng, scn):
    """(label, extended scenario) pairs: the base plus a part that is not wired to it"""
    # the added part ticks at the base's own time scale (3/4 of its shortest period, 3 ms for the millisecond bases)
    pers = [d["beh"]["cb"]["p"] for d in S.devices(scn) if d["beh"].get("cb", {}).get("kind") == "period"]
    P = max(3_000_000, (min(pers) * 3) // 4) if pers else 3_000_000
    out = []
    e = copy.deepcopy(scn)
    e["components"].append(dev("xdev", cb={"kind": "period", "p": P}))
    out.append(("device", e))
    e = copy.deepcopy(scn)
    e["components"] += [dev("xa", cb={"kind": "period", "p": 2 * P}), dev("xb", {"i": ["xa", "o"]})]
    out.append(("chain", e))
    e = copy.deepcopy(scn)
    e["components"].append({"name": "xsys", "kind": "sys", "inputs": {}, "expose": {"y": ["xi", "o"]},
                            "components": [dev("xi", cb={"kind": "period", "p": P}), dev("xj", {"i": ["xi", "o"]}), dev("xq")]})
    out.append(("sibling-system", e))
    e = copy.deepcopy(scn)
    xc = dev("xc", cb={"kind": "period", "p": P})
    xc["beh"]["outs"] = [{"port": "o", "kind": "const", "v": 7}]
    e["components"].append({"name": "xsysc", "kind": "sys", "inputs": {}, "expose": {"y": ["xc", "o"]}, "components": [xc]})
    out.append(("sibling-system-constant-exposed-output", e))
    e = copy.deepcopy(scn)
    e["components"].append({"name": "xo", "kind": "sys", "inputs": {}, "expose": {}, "components": [
        {"name": "xin", "kind": "sys", "inputs": {}, "expose": {}, "components": [dev("xdeep", cb={"kind": "period", "p": 2 * P})]}]})
    out.append(("nested-system", e))
    e = copy.deepcopy(scn)
    x = dev("xepics", cb={"kind": "period", "p": P})
    x["beh"]["epics"] = True
    e["components"].append(x)
    out.append(("epics-adapter-device", e))
    e = copy.deepcopy(scn)
    x = dev("xcmd", cb={"kind": "period", "p": P})
    x["beh"]["command"] = True
    x["beh"]["n_adapters"] = 2
    e["components"].append(x)
    out.append(("command-adapter-device", e))
    # a second adapter on an EXISTING device of the base, with an io whose setup returns at once (TCP / EPICS / ZeroMQ style)
    # next to the device's serving adapter: the first adapter must go on serving
    firstdev = next((c for c in scn["components"] if c["kind"] == "dev"), None)
    if firstdev is not None and not firstdev["beh"].get("command") and not firstdev["beh"].get("epics"):
        e = copy.deepcopy(scn)
        fd = next(c for c in e["components"] if c["name"] == firstdev["name"])
        fd["beh"]["n_adapters"] = fd["beh"].get("n_adapters", 1) + 1
        fd["beh"]["io_returns"] = True
        out.append(("second-adapter-with-returning-io", e))
    # a disconnected device INSIDE an existing system of the base
    syss = [c for c in scn["components"] if c["kind"] == "sys"]
    if syss:
        e = copy.deepcopy(scn)
        next(c for c in e["components"] if c["name"] == syss[0]["name"])["components"].append(dev("xinner", cb={"kind": "period", "p": P}))
        out.append(("device-inside-base-system", e))
        if not scn.get("stims"):
            # ... and a quiet one that is driven by its adapter (interrupts at instants of its own)
            e = copy.deepcopy(scn)
            next(c for c in e["components"] if c["name"] == syss[0]["name"])["components"].append(dev("xintr"))
            e["stims"] = [{"real": k * 1_700_000 + 333, "comp": "xintr"} for k in range(1, 9)]
            out.append(("interrupted-device-inside-base-system", e))
    # devices whose names differ from a base component's name only in punctuation / case
    import re as _re
    names = [c["name"] for c, _, _ in S.walk(scn["components"])]
    odd = [n for n in names if _re.search(r"[^A-Za-z0-9]", n)]
    if odd:
        e = copy.deepcopy(scn)
        added = []
        for n in odd[:2]:
            for v in (_re.sub(r"[^A-Za-z0-9]", "_", n), _re.sub(r"[^A-Za-z0-9]", " ", n), _re.sub(r"[^A-Za-z0-9]", ".", n), n.upper(), n + " "):
                if v not in names and v not in added:
                    added.append(v)
                    e["components"].append(dev(v, cb={"kind": "period", "p": P + 1000 * len(added)}))
        out.append(("devices-with-confusable-names", e))
    # an unwired device whose wakeups fall a few nanoseconds BEFORE those of a periodic device of the base (25 ns per period:
    # at simulated seconds or minutes a relative difference far below 1e-9) - close is not simultaneous
    per = [d for d in S.devices(scn) if d["beh"].get("cb", {}).get("kind") == "period"]
    if per:
        e = copy.deepcopy(scn)
        e["components"].append(dev("xclose", cb={"kind": "period", "p": per[0]["beh"]["cb"]["p"] - 25}))
        out.append(("device-with-nearly-simultaneous-wakeups", e))
    return out


def bases(rng, tier):
    P = 4_000_000
    b1 = {"components": [dev("a", cb={"kind": "period", "p": P}), dev("b", {"i": ["a", "o"]})], "n_ticks": 6}
    b1["components"][0]["beh"]["epics"] = True
    b1["components"][1]["beh"]["epics"] = True
    b2 = {"components": [dev("src", cb={"kind": "period", "p": P}),
                         {"name": "sys", "kind": "sys", "inputs": {"x": ["src", "o"]}, "expose": {"y": ["in1", "o"]},
                          "components": [dev("in1", {"i": ["external", "x"]}), dev("in2", cb={"kind": "period", "p": 2 * P})]},
                         dev("sink", {"i": ["sys", "y"]})], "n_ticks": 6}
    b2["components"][2]["beh"]["epics"] = True
    # a system whose exposed output stops changing after the first tick (its `expose` is then skipped)
    cst = dev("k", cb={"kind": "period", "p": P})
    cst["beh"]["outs"] = [{"port": "o", "kind": "const", "v": 3}]
    b3 = {"components": [{"name": "ksys", "kind": "sys", "inputs": {}, "expose": {"y": ["k", "o"]}, "components": [cst]},
                         dev("ksink", {"i": ["ksys", "y"]})], "n_ticks": 6}
    # component names with punctuation (as in beamline configurations: "BL01:CAM", "shutter 1")
    b4 = {"components": [dev("tbl:x", cb={"kind": "period", "p": P}), dev("snk/1", {"i": ["tbl:x", "o"]}),
                         {"name": "s y:s", "kind": "sys", "inputs": {"x": ["tbl:x", "o"]}, "expose": {}, "components": [dev("in:1", {"i": ["external", "x"]})]}], "n_ticks": 5}
    # seconds and minutes of simulated time
    SEC = 1_000_000_000
    b5 = {"components": [dev("sens", cb={"kind": "period", "p": 60 * SEC + 25}), dev("view", {"i": ["sens", "o"]}), dev("pump", cb={"kind": "period", "p": 7 * SEC})], "n_ticks": 12}
    b6 = {"components": [{"name": "lsys", "kind": "sys", "inputs": {}, "expose": {"y": ["lin", "o"]}, "components": [dev("lin", cb={"kind": "period", "p": 3600 * SEC})]},
                         dev("lsink", {"i": ["lsys", "y"]})], "n_ticks": 5}
    out = [b1, b2, b3, b4, b5, b6]
    # an inner device driven by its adapter: the interrupt arrives k loop iterations after the instant at
    # which (in the extended configuration) an unrelated periodic device of the same system is due - i.e.
    # while the nested tick serving that device is running, or just before / after it
    for k in (range(0, 24) if tier == "quick" else range(0, 40)):
        out.append({"components": [{"name": "bsys", "kind": "sys", "inputs": {}, "expose": {"y": ["bq", "o"]}, "components": [dev("bq")]},
                                   dev("bsink", {"i": ["bsys", "y"]})],
                    "n_ticks": 3, "stims": [{"real": 3_000_000, "yields": k, "comp": "bq"}, {"real": 3 * P + 1000, "comp": "bq"}],  # 3 ms = period of `xinner`
                    "only_extensions": ("device-inside-base-system",), "only_buses": ("sync",)})
    for _ in range(3 if tier == "quick" else 30):
        s = S.gen_nested(rng, depth=2, max_n=5)
        s["n_ticks"] = 5
        out.append(s)
    return out


def base_view(scn, run, base_devs, until_time):
    """what the base part saw: observations, adapter notifications and record refreshes, up
    to simulation time `until_time`"""
    # strictly before the last instant of the base run: that instant may consist of several ticks (callbacks for the
    # current time) of which the base run, which stops after a fixed NUMBER of ticks, has seen only some
    obs = {d: [o for o in v if o[0] < until_time] for d, v in model.observations(run["trace"]).items() if d in base_devs}
    notes = {}
    cur_t = {}
    for e in run["trace"].events:
        if e["k"] == "update":
            cur_t[e["comp"]] = e["time"]
        elif e["k"] in ("after_update", "record-set") and e["comp"] in base_devs and cur_t.get(e["comp"], 0) < until_time:
            notes.setdefault((e["k"], e["comp"], e.get("adapter")), []).append(e.get("value", 1) if e["k"] == "record-set" else 1)
    return obs, notes



def epics_model_diff(rng, n, drv, res):
    """the real DeviceComponent.on_tick + the shipped EpicsAdapter (per-instance record tables) against the Lean model
    Core/Epics (Props/C10Epics): generated configurations (1-3 components, 0-3 adapters each, 0-3 linked records each,
    record names shared between adapters and components) and update histories."""
    import asyncio
    import contextlib
    import io
    from tickit.adapters.epics import EpicsAdapter, InputRecord
    from tickit.core.adapter import AdapterContainer
    from tickit.core.components.device_component import DeviceComponent
    from tickit.core.device import Device, DeviceUpdate
    from tickit.core.typedefs import SimTime

    def simulate(cfg, hist):
        log, recs, cur = [], {}, [("?", -1)]

        class Dev(Device):
            def __init__(self, name):
                self.name, self.v, self.queue = name, 0, []

            def update(self, time, inputs):
                self.v = self.queue.pop(0)
                log.append(["update", self.name])
                return DeviceUpdate({}, None)

        class Ad(EpicsAdapter):
            def __init__(self, ref, dev, links):
                super().__init__()
                self.ref = ref
                for (name, k, b) in links:
                    if (ref, name) not in recs:
                        recs[(ref, name)] = InputRecord(name, (lambda v, name=name, ref=ref: log.append(["set", cur[0][0], cur[0][1], ref[0], ref[1], name, v])), None)
                    self.link_input_on_interrupt(recs[(ref, name)], (lambda k=k, b=b: k * dev.v + b))

            def on_db_load(self):
                pass

            def after_update(self):
                log.append(["notify", self.ref[0], self.ref[1]])
                cur[0] = self.ref
                super().after_update()
        comps = {}
        for name, adapters in cfg:
            d = Dev(name)
            ads = [AdapterContainer(Ad((name, i), d, links), None) for i, links in enumerate(adapters)]
            c = DeviceComponent(name=name, device=d, adapters=ads)

            async def out(time, changes, call_at, name=name):
                log.append(["output", name])
            c.output = out
            comps[name] = c

        async def go():
            for c, st in hist:
                if c in comps:
                    comps[c].device.queue.append(st)
                    with contextlib.redirect_stdout(io.StringIO()):
                        await comps[c].on_tick(SimTime(0), {})
        loop = asyncio.new_event_loop()
        try:
            loop.run_until_complete(go())
        finally:
            loop.close()
        return log
    cases, reals = [], []
    for _ in range(n):
        names = rng.sample(["a", "b", "c", "d"], rng.randint(1, 3))
        cfg = [[nm, [[[rng.choice(["R1", "R2", "R3"]), rng.randint(0, 3), rng.randint(0, 5)] for _ in range(rng.randint(0, 3))]
                     for _ in range(rng.randint(0, 3))]] for nm in names]
        hist = [[rng.choice(names + ["zz"]), rng.randint(0, 9)] for _ in range(rng.randint(0, 7))]
        cases.append({"op": "epics", "shared": False, "config": cfg, "history": hist})
        try:
            reals.append(simulate(cfg, hist))
        except Exception as e:   # noqa: BLE001
            reals.append([["raised", type(e).__name__, str(e)[:100]]])
    for c, real, rep in zip(cases, reals, drv.eval(cases)):
        res.case(("epics-model", str(c)), nontrivial=bool(real))
        res.count("epics-model-case")
        res.count("epics-record-sets", sum(1 for e in real if e[0] == "set"))
        if real != rep:
            k = next((i for i in range(min(len(real), len(rep))) if real[i] != rep[i]), min(len(real), len(rep)))
            res.diverge(f"epics adapter records: event #{k}: impl {real[k] if k < len(real) else None} model {rep[k] if k < len(rep) else None}", c)
        # the property, directly: every notification / record set between an update of X and its output belongs to X
        owner = None
        for e in real:
            if e[0] == "update":
                owner = e[1]
            elif e[0] == "notify" and e[1] != owner:
                res.violate(V("adapter-influenced-by-unconnected-part", f"adapter {e[1:]} notified during the update of {owner}", site="after_update"), {"epics_model": c})
            elif e[0] == "set" and (e[1] != owner or e[3] != owner):
                res.violate(V("adapter-influenced-by-unconnected-part", f"record {e[5]} of adapter {e[3:5]} set by adapter {e[1:3]} during the update of {owner}", site="EpicsAdapter.after_update"), {"epics_model": c})

def judge_epics_worker(spec, names, k, res):
    import json as _json
    import subprocess
    worker = os.path.join(os.path.dirname(os.path.dirname(os.path.abspath(__file__))), "c10_epics_worker.py")
    p_ = subprocess.run(["/venv/bin/python", worker], input=_json.dumps(spec), capture_output=True, text=True, timeout=300)
    try:
        out = _json.loads(p_.stdout.strip().splitlines()[-1])
    except Exception:
        out = {"ok": False, "error": (p_.stdout + p_.stderr)[-300:]}
    case = {"epics_io": spec}
    res.case(f"epics-io:{k}", nontrivial=True)
    res.count("epics-io-worker")
    if not out.get("ok"):
        res.violate(V("epics-io-worker-failed", out.get("error", "")[-300:], site="EpicsIo"), case)
        return
    for run_name in ("base", "ext", "divided"):
        starts = out["out"].get(run_name, {}).get("__ioc_starts__", 1)
        if starts is not None and starts != 1:
            res.violate(V("epics-records-not-served", f"{run_name} run ({'only alpha hosted here, ' + str(names[1:]) + ' elsewhere' if run_name == 'divided' else spec['runs'].get(run_name)}): "
                          f"the process-wide IOC was started {starts} times once the EPICS adapters hosted here were ready (expected once): their records are not served",
                          site="EpicsIo", extension="epics-io", run=run_name), case)
    dv = out["out"].get("divided", {})
    if dv.get("hosted") != ["alpha"] or dv.get("records") != {"DIV_ALPHA:VALUE": 0.0} and list((dv.get("records") or {})) != ["DIV_ALPHA:VALUE"]:
        res.violate(V("adapter-influenced-by-unconnected-part", f"divided run: components built here {dv.get('hosted')}, records of alpha {dv.get('records')}", site="build_simulation", extension="epics-io"), case)
    base, ext = out["out"]["base"]["alpha"], out["out"]["ext"]["alpha"]
    if base != ext:
        res.violate(V("adapter-influenced-by-unconnected-part", f"EPICS records of 'alpha' alone {base} vs with {names[1:]} present {ext}", site="EpicsIo.setup", extension="epics-io"), case)
    for n in names:
        got = out["out"]["ext"][n]
        if got.get("interrupt") != [n]:
            res.violate(V("adapter-interrupt-misrouted", f"the interrupt of the EPICS adapter of {n} (set by EpicsIo.setup) produced {got.get('interrupt')} instead of one Interrupt of {n}", site="EpicsIo.setup", extension="epics-io"), case)
        if list(got["records"]) != [f"{n.upper()}:VALUE"] or got["notified"] != 1:
            res.violate(V("adapter-influenced-by-unconnected-part", f"EPICS adapter of {n}: records {got['records']}, notified {got['notified']}", site="EpicsIo.setup", extension="epics-io"), case)


def command_adapter_isolation(res):
    """command adapters of UNCONNECTED devices whose classes are related (the shipped CommandAdapter itself, a subclass, a
    subclass of that, a sibling): what one of them has handled must not change what another one answers - each adapter's
    replies and interrupt flags in a mixed history equal those it gives when it is the only adapter in the process"""
    import asyncio
    from tickit.adapters.specifications.regex_command import RegexCommand
    from tickit.adapters.tcp import CommandAdapter

    def classes():
        class A(CommandAdapter):
            @RegexCommand(rb"X", interrupt=True)
            async def x(self) -> bytes:
                return b"a-x"

        class B(A):
            @RegexCommand(rb"Y")
            async def y(self) -> bytes:
                return b"b-y"

        class C(CommandAdapter):
            @RegexCommand(rb"X")
            async def x(self) -> bytes:
                return b"c-x"
        return {"base": CommandAdapter, "A": A, "B": B, "C": C}
    msgs = [b"X", b"Y", b"Z"]

    async def ask(ad, m):
        it, intr = await ad.handle(m)
        return [r async for r in it], intr
    loop = asyncio.new_event_loop()
    try:
        # what each adapter answers BY ITS OWN DECLARATIONS (the shipped class is process-wide and may have handled messages
        # before - e.g. a bare CommandAdapter on some other device -, so "alone" cannot be measured here; it is written down)
        unk = loop.run_until_complete(ask(CommandAdapter(), b"Z"))
        alone = {"base": [unk, unk, unk], "A": [([b"a-x"], True), unk, unk], "B": [([b"a-x"], True), ([b"b-y"], False), unk], "C": [([b"c-x"], False), unk, unk]}
        import itertools
        for order in itertools.permutations(("base", "A", "B", "C")):
            cl = classes()
            ads = {k: cl[k]() for k in order}
            got = {}
            for k in order:               # k's adapter handles its first messages after all earlier ones have handled theirs
                got[k] = [loop.run_until_complete(ask(ads[k], m)) for m in msgs]
            res.case(("command-adapters", order), nontrivial=True)
            res.count("command-adapter-orders")
            for k in order:
                if got[k] != alone[k]:
                    res.violate(V("adapter-influenced-by-unconnected-part", f"command adapter of class {k} answers {got[k]} to {msgs} after the adapters {list(order[:order.index(k)])} "
                                  f"of other devices have handled messages; alone it answers {alone[k]}", site="CommandAdapter.handle", extension="command-adapter-classes"),
                                {"command_adapters": list(order)})
                    return
    finally:
        loop.close()


def system_adapter_scenarios():
    P = 4_000_000
    inner = lambda: [dev("in1", {"i": ["external", "x"]}), dev("q")]
    one = {"components": [dev("src", cb={"kind": "period", "p": P}),
                          {"name": "asys", "kind": "sys", "sys_adapter": True, "inputs": {"x": ["src", "o"]}, "expose": {"y": ["in1", "o"]}, "components": inner()},
                          dev("sink", {"i": ["asys", "y"]})],
           "n_ticks": 5, "stims": [{"real": 6_000_000, "comp": "asys"}, {"real": 7_000_000, "comp": "q"}, {"real": 9_000_000, "comp": "asys"}]}
    two = {"components": [{"name": "outer", "kind": "sys", "sys_adapter": True, "inputs": {}, "expose": {"y": ["inner", "z"]}, "components": [
        {"name": "inner", "kind": "sys", "sys_adapter": True, "inputs": {"x": ["p", "o"]}, "expose": {"z": ["d", "o"]}, "components": [dev("d", {"i": ["external", "x"]})]},
        dev("p", cb={"kind": "period", "p": P})]},
        {"name": "plain", "kind": "sys", "inputs": {}, "expose": {}, "components": [dev("pq", cb={"kind": "period", "p": 3 * P})]},
        dev("sink", {"i": ["outer", "y"]})],
        "n_ticks": 5, "stims": [{"real": 5_000_000, "comp": "inner"}, {"real": 6_000_000, "comp": "outer"}]}
    return [one, two]


def system_adapter_part(res, drv, seed):
    """adapters on SYSTEM simulations (BaseSystemSimulationAdapter, at depth 1 and 2, next to a system without one): each is
    handed its own system's inner components and wiring - nobody else's - before its io is set up, its io serves for the
    whole run, and an interrupt raised through it makes the master tick that system (and nothing it does not feed)"""
    for si, scn in enumerate(system_adapter_scenarios()):
        inv = S.level_inverse(scn)
        adapted = [c for c, _, _ in S.walk(scn["components"]) if c["kind"] == "sys" and c.get("sys_adapter")]
        par = S.parent_map(scn)
        for b in ("sync", "held", "internal"):
            r = run_scenario(scn, bus=b, seed=seed)
            case = {"scenario": scn, "bus": b, "held_seed": seed, "system_adapter": True}
            res.case(f"system-adapter:{si}:{b}", nontrivial=True)
            res.count("system-adapter-runs")
            if SC.check_run(scn, r, drv, res, monitors_on=("adapters", "ticker"), corr=("ticker",), case_extra=case):
                continue
            tr = r["trace"]
            for c in adapted:
                evs = [e for e in tr.of("sys-adapter-setup") if e["comp"] == c["name"]]
                want_comps = sorted(k["name"] for k in c["components"])
                want_conns = sorted(f"{src[0]}:{src[1]}>{t}:{q}" for t, ports in inv[c["name"]].items() for q, src in ports.items())
                if len(evs) != 1:
                    res.violate(V("system-adapter-not-run", f"the io of the adapter of system {c['name']} was set up {len(evs)} times", site="SystemComponent.run_forever", comp=c["name"]), case)
                    continue
                if evs[0]["components"] != want_comps or evs[0]["conns"] != want_conns:
                    res.violate(V("system-adapter-wrong-view", f"the adapter of system {c['name']} was handed components {evs[0]['components']} and wiring {evs[0]['conns']}; "
                                  f"its system consists of {want_comps} wired {want_conns}", site="SystemComponent.run_forever", comp=c["name"]), case)
                if [e for e in tr.of("io-cancelled") if e["comp"] == c["name"]]:
                    res.violate(V("adapter-io-cancelled", f"the io of the adapter of system {c['name']} was shut down while the simulation was running", site="SystemComponent", comp=c["name"]), case)
            mt = monitors.master_tid(r)
            calls = [e for e in tr.of("t-call") if e["tid"] == mt]
            for R in tr.of("raise"):
                if not R.get("ok"):
                    res.violate(V("system-adapter-not-run", f"no raise_interrupt was handed to the adapter io of {R['comp']}", site="SystemComponent.run_forever", comp=R["comp"]), case)
                    continue
                top = R["comp"]
                while par.get(top):
                    top = par[top]
                served = [e for e in calls if e["n"] > R["n"] and top in e["roots"]]
                if not served:
                    res.violate(V("interrupt-lost", f"{R['comp']} raised an interrupt at real={R['real']} and {top} was never a root of a master tick afterwards",
                                  comp=R["comp"], phase="system-adapter"), case)


def run(tier, seed, drv):
    res = Result()
    rng = random.Random(seed)
    system_adapter_part(res, drv, seed)
    command_adapter_isolation(res)
    for bi, scn in enumerate(bases(rng, tier)):
        base_devs = {d["name"] for d in S.devices(scn)}
        for b in scn.get("only_buses", ("sync", "held")):
            sd = rng.randrange(1 << 30)
            rb = run_scenario(scn, bus=b, seed=sd)
            SC.check_run(scn, rb, drv, res, monitors_on=("adapters", "ticker"), corr=("ticker",), case_extra={"bus": b})
            tid = monitors.master_tid(rb)
            t_end = max([e["time"] for e in rb["trace"].of("t-done") if e["tid"] == tid], default=0)
            for label, ext in extensions(rng, scn):
                if scn.get("only_extensions") and label not in scn["only_extensions"]:
                    continue
                e2 = dict(ext, n_ticks=scn.get("n_ticks", 5) * 4)

                def stop(trace, info, t_end=t_end):
                    s = info.get("scheduler")
                    t = getattr(getattr(s, "ticker", None), "_vid", None)
                    dn = [e for e in trace.events if e["k"] == "t-done" and e.get("tid") == t]
                    return bool(dn) and dn[-1]["time"] >= t_end and (b == "sync" or info["bus"].idle())
                re_ = run_scenario(e2, bus=b, seed=sd, stop_when=stop)
                case = {"scenario": e2, "base": scn, "bus": b, "held_seed": sd, "extension": label}
                res.case(f"{bi}:{label}:{b}", nontrivial=True, sample={"base": scn, "extension": label} if len(res.samples) < 2 else None)
                res.count("ext=" + label)
                n = SC.check_run(e2, re_, drv, res, monitors_on=("adapters", "ticker"), corr=("ticker",), case_extra=case)
                if n:
                    continue
                # no serving adapter io of a base device may be shut down while the simulation runs (nobody failed, nobody
                # was told to stop)
                cancelled = [ev for ev in re_["trace"].of("io-cancelled") if ev["comp"] in base_devs]
                if cancelled and not re_["trace"].of("produce", ) is None and not any(ev["msg"]["m"] == "StopComponent" for ev in re_["trace"].of("produce")):
                    res.violate(V("adapter-influenced-by-unconnected-part", f"adding {label}: the serving io of adapter {cancelled[0]['adapter']} of {cancelled[0]['comp']} was cancelled while the simulation was running",
                                  site="DeviceComponent.run_forever", extension=label), case)
                    continue
                ob, nb = base_view(scn, rb, base_devs, t_end)
                oe, ne = base_view(e2, re_, base_devs, t_end)
                if label == "second-adapter-with-returning-io":
                    # the added adapter itself is the added part: only the adapters the base has are compared
                    nad = {d["name"]: d["beh"].get("n_adapters", 1) for d in S.devices(scn)}
                    ne = {k: v for k, v in ne.items() if not (k[0] == "after_update" and isinstance(k[2], int) and k[2] >= nad.get(k[1], 1))}
                if ob != oe:
                    d = next(k for k in sorted(set(ob) | set(oe)) if ob.get(k) != oe.get(k))
                    res.violate(V("influenced-by-unconnected-part", f"adding {label}: device {d} observed {oe.get(d)} instead of {ob.get(d)}", site="observations", extension=label), case)
                elif nb != ne:
                    k = next(k for k in sorted(set(nb) | set(ne), key=str) if nb.get(k) != ne.get(k))
                    res.violate(V("adapter-influenced-by-unconnected-part", f"adding {label}: {k} saw {ne.get(k)} instead of {nb.get(k)}", site=str(k[0]), extension=label), case)
    epics_model_diff(random.Random(seed + 31), 120 if tier == "quick" else 1500, drv, res)
    # the shipped EpicsIo with the real softioc record builder, in a fresh interpreter: the records of an
    # EPICS adapter alone vs with other (unconnected) EPICS devices set up concurrently
    import json as _json
    import subprocess
    worker = os.path.join(os.path.dirname(os.path.dirname(os.path.abspath(__file__))), "c10_epics_worker.py")
    for k, (names, db) in enumerate([(["alpha", "beta"], {"alpha": True, "beta": True}), (["alpha", "beta", "gamma"], {"alpha": False, "beta": True, "gamma": True}),
                                     (["alpha", "beta"], {"alpha": True, "beta": False})][: (2 if tier == "quick" else 3)]):
        judge_epics_worker({"runs": {"base": ["alpha"], "ext": names}, "db": db, "divided": True}, names, k, res)
    res.rule = ("bases: flat pair with EPICS adapters, source->system->sink with an EPICS sink, generated nestings; each extended by: a periodic device, a "
                "chain, a sibling system, a depth-2 system, a device with the shipped EpicsAdapter, a device with a CommandAdapter subclass, a "
                "disconnected device inside one of the base's systems (periodic, or quiet and driven by interrupts), devices whose names differ from a base "
                "component's only in punctuation or case; synchronous and delaying bus; the base part's observation sequences, adapter "
                "notification logs and EPICS record refreshes up to the base run's last tick time must be identical, and the extended run must not "
                "stall; every adapter notified exactly once per update of its own device; non-trivial = all")
    return res


def replay(payload, drv):
    c = payload["case"]
    res = Result()
    if c.get("command_adapters"):
        command_adapter_isolation(res)
        return {"violations": [v["record"] for v in res.violations], "divergences": []}
    if c.get("epics_io"):
        judge_epics_worker(c["epics_io"], c["epics_io"]["runs"]["ext"], 0, res)
        return {"violations": [v["record"] for v in res.violations], "divergences": []}
    if c.get("system_adapter"):
        system_adapter_part(res, drv, c.get("held_seed", 0))
        return {"violations": [v["record"] for v in res.violations], "divergences": res.divergences[:3]}
    re_ = run_scenario(c["scenario"], bus=c.get("bus", "sync"), seed=c.get("held_seed", 0))
    SC.check_run(c["scenario"], re_, drv, res, monitors_on=("adapters", "ticker"), corr=("ticker",))
    return {"violations": [v["record"] for v in res.violations], "divergences": res.divergences[:3]}
