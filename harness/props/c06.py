"""C06 — callbacks are honoured exactly, merged when simultaneous, never invented."""
import asyncio
import random

import monitors
import scenario as S
from sim import run_scenario

from .base import Result, V
from . import simcommon as SC
from . import simprop

MODULES = ["TickitModel.Props.C06", "TickitModel.Props.C04", "TickitModel.Props.C06Run", "TickitModel.Props.C07", "TickitModel.Props.FlatInt", "TickitModel.Props.C07Loop", 'TickitModel.Props.AnyTransfer', 'TickitModel.Props.AnyTransferC06', 'TickitModel.Props.C06Order']
THEOREMS = ["nestedDue_mapTimes", "firstWakeups_mapTimes", "firstWakeups_scale", "later_not_first", "addWakeup_lookup", "addWakeup_unique", "addWakeup_length", "firstWakeups_spec", "firstWakeups_none", "delWakeups_lookup",
            "delWakeups_unique", "served_then_later", "nestedDue_spec", "nestedDue_exact", "system_callback_is_min",
            "tick_time_provenance", "wake_not_before",
            "callback_exact", "callback_never_overtaken", "callback_first_update", "callback_served_one_tick", "time_strictly_increases",
            "flatRun_can_continue", "callback_eventually_served", "callback_eventually_observed", "callback_served_exists",
            "wake_entry_was_requested", "no_invented_tick", "callback_kept_by_silent_update", "interrupt_keeps_earlier_callback", "interrupt_keeps_earlier_callback_exact",
            "wakeup_exactI", "wakeups_served_one_tickI", "tick_provenanceI", "wake_entry_provenanceI", "pending_not_overtakenI", "tick_serves_all_first_wakeups", "old_loop_serves_stale_set", "new_loop_serves_fresh_set",
            'any_order_system_callback_is_min', 'any_order_nestedDue_exact', 'any_order_run_wakeWF', 'any_order_run_schedOK', 'any_order_next_tick_is_min_device_callback', 'any_order_run_refines_flatRun_wake', 'any_order_last_tick_requested']
ANCHORS = ["src/tickit/core/management/schedulers/base.py", "src/tickit/core/management/schedulers/master.py",
           "src/tickit/core/management/schedulers/nested.py", "src/tickit/core/components/system_component.py"]
TECHNIQUE = "Lean 4 theorems (wakeup bookkeeping: one entry per component, first wakeups = minimum and exactly its holders, served entries removed and everything left is strictly later, nested due-selection exact, system callback = inner minimum, tick-time provenance) + differential run of add_wakeup/get_first_wakeups and whole-simulation tick sequences against the model"
LEVEL_TEXT = ("Theorems over the scheduler bookkeeping for all wakeup maps and histories: add_wakeup overwrites the component's single entry; "
              "get_first_wakeups returns the minimum time and exactly the components holding it (none invented); after serving, every remaining "
              "entry is strictly later, so a pending callback is never overtaken and is served by a tick at exactly its time together with all others "
              "due then; the nested scheduler's due set at tick time t is exactly the entries equal to t given that the system reported its minimum; "
              "in flat callback histories every tick time is the initial time or a callback of one of its roots. At run level (Props/C06Run, flat multi-tick system, every answer order, devices that may change from tick to tick): a pending request of c for t is, in EVERY continuation of the run, either still pending with all new tick times < t, or c's first new update is at a time t1 <= t and, if t1 = t, in a tick at exactly t with c among its roots (callback_exact, callback_never_overtaken, callback_first_update); all components due at the minimum share one tick and each is updated in it (callback_served_one_tick); LIVENESS: when callbacks are requested strictly in the future tick times strictly increase, a run with a pending request can always be continued, and every continuation by at least t - t_last ticks contains the update (callback_eventually_served, flatRun_can_continue, callback_served_exists); no tick time is invented - every entry stems from the last update of its component that asked for one (wake_entry_was_requested, no_invented_tick; the checked counterexample callback_kept_by_silent_update shows that, as in the code, an update answering call_at=None keeps an older request). In the master's run loop (Props/C07Loop, tied by a trace acceptor) the tick that starts serves EXACTLY the components holding the minimum entry at that moment, whatever was registered while the sleep was expiring (tick_serves_all_first_wakeups; the original loop provably serves a stale set - defect F17). An interrupt never displaces an earlier, already due callback of the same component (interrupt_keeps_earlier_callback, master bookkeeping; this was defect F15). PARTIAL: callbacks inside nested systems interleaved with interrupts arriving mid-tick are validated on traces (nested callbacks-only and between-tick interrupts transfer through C09's transparency theorem). Tie to the code: differential op sequences on a real scheduler's add_wakeup/get_first_wakeups, and the tick "
              "sequence (times, roots) of generated flat/nested simulations with periodic, one-shot, re-planned and simultaneous callbacks and "
              "interrupts compared with the Lean whole-simulation model, plus a device-level monitor (requested callback served at exactly that time "
              "unless updated earlier). FOR ANY ANSWER ORDER AT EVERY NESTING LEVEL (every scheduler level answers its pending dispatches in ANY order, a system component's answer is any such execution of its inner level; Core/SimAny; none of these corollaries assumes that the first-in first-out model succeeds - that follows from the existence of the execution) (Props/AnyTransfer, AnyTransferC06): a system component reports the tick time while interrupts are queued and otherwise exactly the minimum of its inner wakeups (any_order_system_callback_is_min), the inner roots are exactly the entries due at the tick's time (any_order_nestedDue_exact), at every depth of every run a system's callback at its parent is the minimum of its inner wakeups and the next master tick is the minimum device callback (any_order_run_schedOK, any_order_next_tick_is_min_device_callback), and every any-order run refines a FlatRun whose wakeups are the devices' own entries (any_order_run_refines_flatRun_wake, any_order_last_tick_requested). Not transferred: the run-level continuation theorems (callback_exact, callback_never_overtaken, callback_eventually_served) are stated for the flat system only.")
LEVEL_ADDENDUM = 'Session 8: get_first_wakeups depends only on the ORDER of the times (Props/C06Order: it commutes with every strictly increasing re-labelling - scale, epoch shift; a request later than the earliest by however little is not served with it); the wakeups differential and the scenario family use nearly equal large times (seconds to hours, a few ns apart).'
LEVEL_NOTE = "Trusts: Lean kernel; hand-written bookkeeping model; whole-simulation comparison uses zero processing cost."
ASSUMPTIONS = ["liveness: callbacks are requested strictly in the future (otherwise a device can keep the simulation at one instant forever)",
               "whole-simulation model comparison uses zero processing cost; histories with real-time cost are checked by monitors"]
MON = ("callbacks", "tick_times", "device_order", "tick_provenance", "merged")
CORR = ('ticks', 'mloop')


def wakeups_diff(rng, n, drv, res):
    from tickit.core.management.event_router import InverseWiring
    from tickit.core.management.schedulers.base import BaseScheduler

    class Sched(BaseScheduler):
        async def schedule_interrupt(self, source):
            pass

    cases, reals = [], []
    for _ in range(n):
        s = Sched(InverseWiring({}), object, object)
        ops, out = [], []
        for _ in range(rng.randrange(1, 14)):
            r = rng.random()
            if r < 0.55:
                # small times, and large ones that are nearly - not exactly - equal (seconds / an hour / epoch-sized, 1-40 ns apart)
                c, t = rng.choice("abcde"), rng.choice((0, 1, 2, 5, 5, 7, -3, 10**9, 10**9 + 1, 60 * 10**9, 60 * 10**9 + 25, 3600 * 10**9 - 40, 3600 * 10**9,
                                                        1_700_000_000 * 10**9, 1_700_000_000 * 10**9 + 3))
                ops.append({"o": "add", "c": c, "t": t})
                out.append(sorted([k, v] for k, v in s.wakeups.items()))
                s.add_wakeup(c, t)
            elif r < 0.8:
                ops.append({"o": "first"})
                cs, t = s.get_first_wakeups()
                out.append({"cs": sorted(cs), "t": t})
            else:
                ops.append({"o": "serve"})
                cs, t = s.get_first_wakeups()
                for c in cs:
                    del s.wakeups[c]
                out.append(sorted(cs))
        cases.append({"op": "wakeups", "ops": ops})
        reals.append(out)
    for c, real, rep in zip(cases, reals, drv.eval(cases)):
        res.case(str(c), nontrivial=len(c["ops"]) > 2)
        res.count("wakeups-op-seq")
        if real != rep:
            res.diverge(f"wakeups bookkeeping: impl {real} model {rep}", c)
        # the property: first = min and exactly its holders
        w = {}
        for op, r in zip(c["ops"], real):
            if op["o"] == "add":
                w[op["c"]] = op["t"]
            elif op["o"] == "first":
                exp = {"cs": sorted(k for k, v in w.items() if v == min(w.values())), "t": min(w.values())} if w else {"cs": [], "t": None}
                if r != exp:
                    res.violate(V("first-wakeups-wrong", f"get_first_wakeups = {r}, wakeups {w}", site="get_first_wakeups"), c)
            else:
                for k in r:
                    w.pop(k, None)


def shaped(rng):
    """shapes named by the property: a re-triggerable watchdog (re-plans LATER whenever its input
    changes), simultaneous callbacks, a periodic device that is also interrupted"""
    P = 1_000_000
    dev = lambda n, ins=None, cb=None, outs=("o",): {"name": n, "kind": "dev", "inputs": ins or {},
                                                     "beh": {"outs": [{"port": p, "kind": "counter", "mod": 5, "v": 1} for p in outs], "cb": cb or {"kind": "none"}}}
    return [
        {"components": [dev("kick", cb={"kind": "period", "p": 6 * P}), dev("dog", {"i": ["kick", "o"]}, cb={"kind": "period", "p": 10 * P})], "n_ticks": 7},
        {"components": [dev("a", cb={"kind": "period", "p": 5 * P}), dev("b", cb={"kind": "period", "p": 5 * P}), dev("c", {"i": ["a", "o"]}, cb={"kind": "period", "p": 10 * P})], "n_ticks": 6},
        # an interrupt that is handled at the very instant another component's callback becomes due
        # (stamped exactly with that callback's time): both are due at once and must share one tick
        *[{"components": [dev("X", cb={"kind": "period", "p": 60 * P}), dev("Y")], "n_ticks": 4, "speed": sp,
           "stims": [{"real": 60 * P * sp[1] // sp[0] - 10 - k, "pre_cost": 10 + k, "comp": "Y"}]} for sp in ([1, 1], [1, 2]) for k in (0, 3)],
        # ... and k loop iterations after that instant, i.e. around the moment the master's sleep expires and the tick
        # starts: whatever has asked before the tick starts shares it
        *[{"components": [dev("X", cb={"kind": "period", "p": 60 * P}), dev("Y")], "n_ticks": 4,
           "stims": [{"real": 60 * P, "yields": k, "comp": "Y"}]} for k in range(0, 7)],
        # interrupts at speeds other than 1: the tick that serves an interrupt carries the simulation time that
        # corresponds to the real time of the interrupt (neither earlier nor an invented later one)
        *[{"components": [dev("X", cb={"kind": "period", "p": 50 * P}), dev("Y"), dev("Z", {"i": ["Y", "o"]})], "n_ticks": 5, "speed": sp,
           "stims": [{"real": 7 * P + 111, "comp": "Y"}, {"real": 23 * P + 111, "comp": "Z"}, {"real": 61 * P + 111, "comp": "Y"}]} for sp in ([2, 1], [1, 2], [3, 2])],
        # a component that, while being served a callback at time t, asks to be called back at the SAME time t (a zero-delay
        # second phase): at top level, inside a system and inside a system inside a system
        {"components": [dev("step0", cb={"kind": "list", "delays": [P, 0, P, 0, 0, None]}), dev("w0", {"i": ["step0", "o"]})], "n_ticks": 7},
        {"components": [{"name": "ssys", "kind": "sys", "inputs": {}, "expose": {"y": ["step1", "o"]},
                         "components": [dev("step1", cb={"kind": "list", "delays": [P, 0, P, 0, 0, None]}), dev("quiet1")]},
                        dev("w1", {"i": ["ssys", "y"]})], "n_ticks": 7},
        {"components": [{"name": "osys", "kind": "sys", "inputs": {}, "expose": {}, "components": [
            {"name": "isys", "kind": "sys", "inputs": {}, "expose": {}, "components": [dev("step2", cb={"kind": "list", "delays": [2 * P, 0, 0, P, 0, None]})]},
            dev("per2", cb={"kind": "period", "p": 3 * P})]}], "n_ticks": 9},
        {"components": [dev("p", cb={"kind": "period", "p": 10 * P}), dev("q", {"i": ["p", "o"]})], "n_ticks": 7,
         "stims": [{"real": 5 * P + 111, "comp": "p"}, {"real": 23 * P + 111, "comp": "p"}, {"real": 27 * P + 111, "comp": "q"}]},
    ]


def overdue_scenarios(tier):
    """A callback that is already due when an interrupt arrives - real time passes while the loop iterates
    (`step_cost_ns`) or while a tick is in progress: the interrupt of the same component (or, for a system,
    of another inner component) is then stamped LATER than the pending callback and must not displace it.
    Flat: X periodic in front of a chain that makes ticks long; nested: a system with two inner periodic
    devices of different periods and a quiet inner device that is interrupted."""
    from .c07 import dev
    MS = 1_000_000
    out = []
    for sc in ((1 * MS, 2 * MS) if tier == "quick" else (MS // 2, 1 * MS, 2 * MS, 3 * MS)):
        for real in ((8, 12, 15, 20, 30) if tier == "quick" else range(4, 44, 2)):
            out.append({"components": [dev("X", cb={"kind": "period", "p": 10 * MS}), dev("Y", {"i": ["X", "o"]}), dev("Z", {"i": ["Y", "o"]}), dev("W", {"i": ["Z", "o"]})],
                        "n_ticks": 5, "step_cost_ns": sc, "stims": [{"real": real * MS, "comp": "X"}]})
            out.append({"components": [{"name": "sys", "kind": "sys", "inputs": {}, "expose": {"y": ["A", "o"]}, "components": [
                dev("A", cb={"kind": "period", "p": 10 * MS}), dev("B", cb={"kind": "period", "p": 20 * MS}), dev("Q")]},
                dev("c1", {"i": ["sys", "y"]}), dev("c2", {"i": ["c1", "o"]}), dev("c3", {"i": ["c2", "o"]})],
                "n_ticks": 6, "step_cost_ns": sc, "stims": [{"real": real * MS, "comp": "Q"}]})
    return out


def tweak(scn, rng):
    # make simultaneous callbacks likely and add interrupts between ticks
    if rng.random() < 0.5:
        devs = S.devices(scn)
        for d in devs:
            if d["beh"].get("cb", {}).get("kind") == "period":
                d["beh"]["cb"]["p"] = rng.choice((2_000_000, 2_000_000, 4_000_000))
    if rng.random() < 0.4:
        names = [d["name"] for d in S.devices(scn)]
        # distinct arrival times: two interrupts at the very same instant are legitimately served by one
        # or by two ticks depending on message latency (C07 covers simultaneous arrival)
        times = rng.sample(range(1, 12), rng.randrange(1, 4))
        scn["stims"] = sorted([{"real": k * 900_000 + 111, "comp": rng.choice(names)} for k in times], key=lambda s: s["real"])
    scn["n_ticks"] = rng.randrange(4, 9) if "n_ticks" in scn else 5
    return scn


def run(tier, seed, drv):
    res = simprop.generic_run(tier, seed, drv, monitors_on=MON, corr=CORR, tweak=tweak, buses=("sync", "held"), with_real=True,
                              rule="generated flat/nested simulations with periodic (often equal) periods, one-shot lists, re-planned callbacks, interrupts "
                                   "between ticks; synchronous and delaying bus; tick sequence (time, roots, real start) and observations compared with the Lean "
                                   "model; device-level callback monitor; plus random add/first/serve sequences on a real scheduler's wakeup bookkeeping")
    wakeups_diff(random.Random(seed + 7), 300 if tier == "quick" else 4000, drv, res)
    from sim import run_scenario
    for scn in shaped(random.Random(seed)):
        for b in ("sync", "held"):
            run_ = run_scenario(scn, bus=b, seed=seed)
            res.case(SC.scn_key(scn) + b, nontrivial=True)
            res.count("shaped")
            SC.check_run(scn, run_, drv, res, monitors_on=MON, corr=CORR, case_extra={"bus": b, "held_seed": seed}, with_real=True)
    for scn in overdue_scenarios(tier):
        run_ = run_scenario(scn, bus="sync", seed=seed)
        res.case(SC.scn_key(scn), nontrivial=True)
        res.count("overdue-callback-vs-interrupt")
        SC.check_run(scn, run_, drv, res, monitors_on=MON, corr=("ticker", "mloop"), case_extra={"bus": "sync"})
    return res


def replay(payload, drv):
    if "ops" in payload["case"]:
        return {"violations": []}
    return simprop.generic_replay(payload, drv, monitors_on=MON, corr=CORR, with_real=True)
