"""C14 — long runs use bounded scheduler resources."""
import asyncio
import copy
import gc
import random

import model
import monitors
import scenario as S
from sim import run_scenario
from vloop import run_virtual

from .base import Result, V
from . import simcommon as SC
from .c07 import dev

MODULES = ['TickitModel.Props.C14', 'TickitModel.Props.C06', 'TickitModel.Props.C14Loop', 'TickitModel.Props.C14Race', 'TickitModel.Props.C14Ticker', "TickitModel.Props.C14Accept"]
THEOREMS = ["TcpSt.accept_is_run", "TcpSt.accept_prefix", "accepted_trace_resources", 'resources_bounded', 'peak_bounded', 'leaky_grows', 'leaky_tcp_grows', 'addWakeup_length', 'addWakeup_unique', 'delWakeups_unique',
            'res_step_erases', 'res_step_invisible', 'res_run_erases', 'res_run_lifts', 'res_invariant', 'loop_tasks_bounded', 'loop_tasks_exact', 'loop_entries_bounded',
            'old_loop_preemption_leaks', 'old_loop_resources_grow', 'res_control_independent', 'new_loop_same_history_clean',
            'system_race_invariant', 'system_race_bounded', 'system_farm_bounded', 'old_system_race_grows', 'new_system_race_clean',
            'tcp_bounded', 'tcp_quiescent', 'old_tcp_grows', 'new_tcp_same_history_clean',
            'extent_within_components', 'components_is_a_set', 'ticker_toUpdate_bounded', 'ticker_toUpdate_le_extent', 'ticker_toUpdate_shrinks']
ANCHORS = ["src/tickit/core/components/system_component.py", "src/tickit/core/management/schedulers/master.py",
           "src/tickit/core/management/ticker.py", "src/tickit/core/management/schedulers/base.py", "src/tickit/adapters/io/tcp_io.py",
           "src/tickit/adapters/io/zeromq_push_io.py"]
TECHNIQUE = 'Lean 4 theorems (invariants by induction over EVERY history of statement-level transition systems with ghost resource counters: the master run loop - proved to erase to the flag protocol that the trace acceptor ties to _do_tick -, the system component tick/error race, the TCP reply tasks, the ticker\'s to_update table; growth witnesses for the pre-repair code) + trace acceptance of the master loop in every long run + measurement of the real event loop (live tasks, retained finished tasks via gc, timers, entries of every reachable container) after N, 2N, 4N ticks / messages'
LEVEL_TEXT = ('Proved (Props/C14Loop, C14Race, C14Ticker; invariants by induction over every history, no bound on its length): (1) the master run loop annotated with ghost counters for the tasks and the timer of the sleep / new-wakeup race: erasing the counters gives exactly the flag protocol MLoopSt.step (res_step_erases, res_run_erases, res_run_lifts - the protocol that the driver\'s trace acceptor ties to the real _do_tick on every run), and after ANY history of add_wakeup / interrupt / expiry / loop moves the loop holds <= 2 live tasks and <= 1 timer, none at all outside the race (loop_tasks_bounded, loop_tasks_exact); len(wakeups) <= number of DISTINCT components that ever asked and len(_pending_interrupts) <= len(wakeups) (loop_entries_bounded); without the cancellation of the loser (code before 8a9136c) n pre-emptions of a far sleep leave n tasks and n timers, for every n (old_loop_resources_grow). (2) the system component\'s tick/error race: <= 2 tasks per system component and 0 outside on_tick for every history, <= 2k for k system components under any interleaving, and linear growth before f518297 (system_race_bounded, system_farm_bounded, old_system_race_grows). (3) TCP reply tasks: for every history of connections, chunks, completions and closes the stored handles are exactly the replies still in flight on open connections - independent of the number of chunks processed - and n chunks left n+1 retained handles before 9447ad9 (tcp_bounded, tcp_quiescent, old_tcp_grows). (4) in every reachable state of every tick len(to_update) <= |extent| <= |components| (ticker_toUpdate_bounded). (5) one wakeup entry per component (addWakeup_length ...) and the older operation-level ledger. PARTIAL: task and timer lifetimes inside asyncio (lazy purging of cancelled timer handles, garbage collection of finished tasks, what other adapters create) are runtime behaviour; the TCP model IS tied by a trace acceptor (driver op tcpres: the connect / chunk / reply-finished / end-of-stream / handler-returned events of several concurrent connections through the real handle function, observed by a task factory, must be enabled in TcpSt in the order observed, and at every quiescent moment the live tasks of the io and the finished reply tasks that are still referenced must equal those of the model); the system-race model is tied by measurement only. Measurement on the real code: 7 long runs (flat periodic, nested periodic, depth-2, far callback pre-empted by interrupts; with and without interrupts) are measured after N, 2N, 4N master ticks (N = 40 quick / 500 thorough): live tasks, finished-but-retained Task objects (gc), pending timers, wakeups, pending interrupts, entries of every container reachable from scheduler and components; the master loop events of each run must be accepted by the flag protocol model; plus 1200 / 16000 messages on one TCP connection through the real handle function with fake streams (some replies fail in the reply task) and 1200 / 16000 message sequences through the real ZeroMqPushIo with a fake socket whose peer goes away (sends fail); a resource that is higher at 4N than at N by more than 2 with non-decreasing differences is reported.')
LEVEL_NOTE = 'Trusts: Lean kernel for the bookkeeping bound; CPython gc and asyncio.all_tasks for the measurement; harness tasks are excluded by name.'
ASSUMPTIONS = ['one open TCP connection; fake streams that never block']


def container_entries(roots):
    """total number of entries in every built-in container (dict / list / set / tuple / deque, at any depth)
    reachable from the given objects through attributes of tickit's own objects - whatever the attributes
    are called.  Objects of other modules (probe devices, asyncio, immutables) are not entered."""
    import collections
    seen, total, todo = set(), 0, list(roots)
    while todo:
        o = todo.pop()
        if id(o) in seen or o is None or isinstance(o, (str, bytes, int, float, bool)):
            continue
        seen.add(id(o))
        if isinstance(o, (dict, list, set, frozenset, tuple, collections.deque)):
            total += len(o)
            todo.extend(o.values() if isinstance(o, dict) else o)
            if isinstance(o, dict):
                todo.extend(o.keys())
        elif type(o).__module__.startswith("tickit") and not isinstance(o, type):
            d = getattr(o, "__dict__", None)
            if d:
                todo.extend(d.values())
            for sl in getattr(type(o), "__slots__", ()):
                todo.append(getattr(o, sl, None))
    return total


def measure(loop, sched, comps=()):
    tasks = [t for t in asyncio.all_tasks(loop) if not t.get_name().startswith("harness")]
    retained = sum(1 for o in gc.get_objects() if isinstance(o, asyncio.Task) and o.done())
    timers = len([h for h in loop._scheduled if not h._cancelled])
    return {"live_tasks": len(tasks), "retained_done_tasks": retained, "timers": timers,
            "wakeups": len(getattr(sched, "wakeups", {})), "pending_interrupts": len(getattr(sched, "_pending_interrupts", {})),
            "container_entries": container_entries([sched] + list(comps))}


def long_run(scn, N, interrupts_every=0):
    """returns measurements after N, 2N, 4N master ticks"""
    marks = {N: None, 2 * N: None, 4 * N: None}
    state = {"last": 0}

    def stop_when(trace, info):
        sched = info["scheduler"]
        tid = getattr(getattr(sched, "ticker", None), "_vid", None)
        done = state.get("done", 0)
        # incremental count
        evs = trace.events
        for e in evs[state["last"]:]:
            if e["k"] == "t-done" and e["tid"] == tid:
                done += 1
        state["last"] = len(evs)
        state["done"] = done
        if done in marks and marks[done] is None:
            gc.collect()
            marks[done] = measure(info["loop"], sched, list((info.get("components") or {}).values()))
        return done >= 4 * N

    s2 = dict(copy.deepcopy(scn), n_ticks=4 * N + 1, max_steps=4000 * N + 20000)
    if interrupts_every:
        devs = [d["name"] for d in S.devices(scn)]
        s2["stims"] = [{"real": k * interrupts_every + 777, "comp": devs[k % len(devs)]} for k in range(1, 4 * N)]
    run = run_scenario(s2, bus="sync", stop_when=stop_when, max_steps=s2["max_steps"])
    return marks, run


def growth(marks, N, what, res, case, slack=2):
    a, b, c = marks[N], marks[2 * N], marks[4 * N]
    if not (a and b and c):
        res.violate(V("run-too-short", f"{what}: did not reach {4 * N} ticks (marks {marks})", site="run"), case)
        return
    for k in a:
        # the per-tick state of the tickers (accumulated inputs, roots) is part of `container_entries`: it differs from
        # tick to tick but is bounded by the configuration, hence the larger slack there
        sl = 10 if k == "container_entries" else slack
        if c[k] > a[k] + sl and (c[k] - b[k]) >= (b[k] - a[k]) > 0:
            res.violate(V("resource-grows", f"{what}: {k} = {a[k]} / {b[k]} / {c[k]} after {N} / {2 * N} / {4 * N} ticks", site=k, resource=k), case)


async def tcp_messages(n_msgs, marks_at):
    """thousands of messages on one connection handled by the real TcpIo handle function"""
    from tickit.adapters.io.tcp_io import TcpIo
    from tickit.adapters.specifications.regex_command import RegexCommand
    from tickit.adapters.tcp import CommandAdapter

    class A(CommandAdapter):
        @RegexCommand(rb"P=(\d+)", interrupt=True)
        async def setp(self, v: int) -> bytes:
            return b"ok"

        @RegexCommand(rb"Q\?")
        async def q(self) -> bytes:
            return b"1"

        @RegexCommand(rb"BAD")
        async def bad(self) -> str:
            return "a str reply cannot be written in the byte format: the reply task fails"

        @RegexCommand(rb"H=(\d+)", interrupt=True)
        async def seth(self, v: int) -> None:
            return None    # a command that sends no reply (like the shipped remote-controlled example's setters)

    interrupts = []

    async def raise_interrupt():
        interrupts.append(1)

    class Reader:
        def __init__(self):
            self.n = 0
            self.gate = asyncio.Event()

        async def read(self, k):
            if self.n >= n_msgs:
                await self.gate.wait()
                return b""
            self.n += 1
            await asyncio.sleep(0)
            return (b"P=%d" % self.n, b"Q?", b"BAD", b"H=%d" % self.n)[self.n % 4]

    class Writer:
        def __init__(self):
            self.out = []

        def write(self, b):
            self.out.append(b)

        def is_closing(self):
            return False

        async def drain(self):
            await asyncio.sleep(0)

        def get_extra_info(self, k):
            return ("fake", 0)

    io = TcpIo("localhost", 0)
    adapter = A()
    handle = io._generate_handle_function(adapter.on_connect, adapter.handle_message, raise_interrupt, adapter.byte_format)
    r, w = Reader(), Writer()
    t = asyncio.ensure_future(handle(r, w))
    marks = {}
    loop = asyncio.get_event_loop()
    handled = lambda: r.n
    idle = 0
    while idle < 20:
        await asyncio.sleep(0)
        idle = idle + 1 if r.n >= n_msgs else 0
        for m in marks_at:
            if m not in marks and r.n >= m:
                gc.collect()
                marks[m] = {"live_tasks": len([x for x in asyncio.all_tasks(loop) if not x.get_name().startswith("harness")]),
                            "retained_done_tasks": sum(1 for o in gc.get_objects() if isinstance(o, asyncio.Task) and o.done()),
                            "pending_timers": len([h for h in loop._scheduled if not h._cancelled])}
        if t.done():
            break
    r.gate.set()
    await asyncio.sleep(0)
    t.cancel()
    return marks, len(w.out), len(interrupts)


async def tcp_acceptor_run(seed, n_actions=40, max_conns=3):
    """several connections at once through the real TcpIo handle function (fake streams), driven by a seeded script
    (connect / chunk on connection i / end of stream on connection i) with replies whose writing takes time or fails.
    Observed WITHOUT touching the io: a task factory sees which connection handler spawns which reply task, done
    callbacks see them finish.  Returns (events, marks): marks = [(number of events so far, live tasks of the io,
    finished reply tasks that are still referenced by something)] taken at quiescent moments."""
    import weakref
    from tickit.adapters.io.tcp_io import TcpIo
    from tickit.adapters.specifications.regex_command import RegexCommand
    from tickit.adapters.tcp import CommandAdapter
    rng = random.Random(seed)

    class A(CommandAdapter):
        @RegexCommand(rb"P=(\d+)", interrupt=True)
        async def setp(self, v: int) -> bytes:
            return b"ok"

        @RegexCommand(rb"Q\?")
        async def q(self) -> bytes:
            return b"1"

        @RegexCommand(rb"BAD")
        async def bad(self) -> str:
            return "a str reply cannot be written in the byte format: the reply task fails"

    async def raise_interrupt():
        pass

    class Reader:
        def __init__(self):
            self.q = asyncio.Queue()

        async def read(self, k):
            data = await self.q.get()
            if data == b"":
                events.append(["eof", idx_of[self]])
            return data

    class Writer:
        def write(self, b):
            pass

        def is_closing(self):
            return False

        async def drain(self):
            await asyncio.sleep(rng.choice((0, 0, 1e-6, 2e-5)))

        def get_extra_info(self, k):
            return ("fake", 0)

    io = TcpIo("localhost", 0)
    adapter = A()
    handle = io._generate_handle_function(adapter.on_connect, adapter.handle_message, raise_interrupt, adapter.byte_format)
    loop = asyncio.get_event_loop()
    events, marks = [], []
    idx_of = {}            # reader -> connection index in order of the first reply task
    reader_of_task = {}    # handler task -> reader
    handlers, replies = [], []   # weak references

    def factory(lp, coro, **kw):
        t = asyncio.Task(coro, loop=lp, **kw)
        cur = asyncio.current_task(lp)
        rd = reader_of_task.get(cur)
        if rd is not None:
            if rd not in idx_of:
                idx_of[rd] = len(idx_of)
                events.append(["connect"])
            else:
                events.append(["chunk", idx_of[rd]])
            i = idx_of[rd]
            replies.append(weakref.ref(t))
            t.add_done_callback(lambda _t, i=i: events.append(["done", i]))
        return t
    old_factory = loop.get_task_factory()
    loop.set_task_factory(factory)
    readers = []
    try:
        def measure():
            gc.collect()
            live = sum(1 for r in handlers + replies if r() is not None and not r().done())
            done_alive = sum(1 for r in replies if r() is not None and r().done())
            marks.append((len(events), live, done_alive))

        async def settle():
            for _ in range(6):
                await asyncio.sleep(0)
            await asyncio.sleep(1e-3)
            for _ in range(3):
                await asyncio.sleep(0)

        open_ = []
        for _ in range(n_actions):
            r = rng.random()
            if (r < 0.2 and len(readers) < max_conns) or not open_:
                if len(readers) >= max_conns:
                    break
                rd = Reader()
                readers.append(rd)
                open_.append(rd)
                t = asyncio.ensure_future(handle(rd, Writer()))
                reader_of_task[t] = rd
                handlers.append(weakref.ref(t))
                t.add_done_callback(lambda _t, rd=rd: events.append(["finish", idx_of.get(rd, -1)]))
                del t
            elif r < 0.85:
                rd = rng.choice(open_)
                for _ in range(rng.choice((1, 1, 2, 3))):
                    rd.q.put_nowait(rng.choice((b"Q?", b"P=4", b"BAD", b"nonsense")))
            else:
                rd = rng.choice(open_)
                open_.remove(rd)
                rd.q.put_nowait(b"")
            if rng.random() < 0.6:
                await settle()
                measure()
        for rd in open_:
            rd.q.put_nowait(b"")
        await settle()
        measure()
    finally:
        loop.set_task_factory(old_factory)
    return events, marks


async def zmq_sequences(n_seqs, marks_at):
    """thousands of message sequences through the real ZeroMqPushIo (queued by the adapter and sent directly with
    send_message_sequence_soon) over a fake socket; from one third of the run on the peer is away: drain() raises"""
    from tickit.adapters.io.zeromq_push_io import ZeroMqPushIo
    from tickit.adapters.zmq import ZeroMqPushAdapter
    state = {"down": False, "written": 0, "sockets": 0}

    class Sock:
        def write(self, parts):
            state["written"] += 1

        async def drain(self):
            await asyncio.sleep(0)
            if state["down"]:
                raise ConnectionResetError("peer away")

        def close(self):
            pass

    async def factory(host, port):
        state["sockets"] += 1
        await asyncio.sleep(0)
        return Sock()
    loop = asyncio.get_event_loop()
    old_handler = loop.get_exception_handler()
    loop.set_exception_handler(lambda l, c: None)   # "Task exception was never retrieved" of the failing sends
    io = ZeroMqPushIo("h", 1, socket_factory=factory)
    adapter = ZeroMqPushAdapter()

    async def never():
        pass
    setup = asyncio.ensure_future(io.setup(adapter, never))
    marks = {}
    for k in range(1, n_seqs + 1):
        if k == n_seqs // 3:
            state["down"] = True
        if k % 2:
            io.send_message_sequence_soon([[b"a", "s", {"k": k}], [b"b"]])
        else:
            io.send_message_sequence_soon([[object()]])   # a part that cannot be serialised: the send fails
        if not state["down"]:
            adapter.add_message_to_stream([b"q%d" % k])
        for _ in range(6):
            await asyncio.sleep(0)
        if k in marks_at:
            gc.collect()
            marks[k] = {"live_tasks": len([x for x in asyncio.all_tasks(loop) if not x.get_name().startswith("harness")]),
                        "retained_done_tasks": sum(1 for o in gc.get_objects() if isinstance(o, asyncio.Task) and o.done()),
                        "container_entries": container_entries([io, adapter])}
    await io.shutdown() if not state["down"] else None
    setup.cancel()
    if io._task:
        io._task.cancel()
    loop.set_exception_handler(old_handler)
    return marks, state


async def zmq_stalled_peer(n_msgs, marks_at, stall=5.0, every=2.0):
    """the real ZeroMqPushIo / adapter with a peer that takes messages very slowly (`stall` seconds of virtual time per
    drain) and then not at all (drain blocks; it never fails) while the simulation keeps streaming a message every `every` seconds: the unsent messages
    wait in the adapter's queue (they are not processed yet); the number of TASKS must not follow them"""
    from tickit.adapters.io.zeromq_push_io import ZeroMqPushIo
    from tickit.adapters.zmq import ZeroMqPushAdapter
    state = {"written": 0}

    class Sock:
        def write(self, parts):
            state["written"] += 1

        async def drain(self):
            # slow at first, then the peer takes nothing at all any more (its high-water mark is reached): drain() blocks
            if state["written"] <= 6:
                await asyncio.sleep(stall)
            else:
                await never_again.wait()    # (one event for the socket's life time: its waiters stay referenced, like a transport's)

        def close(self):
            pass

    async def factory(host, port):
        await asyncio.sleep(0)
        return Sock()
    loop = asyncio.get_event_loop()
    never_again = asyncio.Event()
    io = ZeroMqPushIo("h", 1, socket_factory=factory)
    adapter = ZeroMqPushAdapter()

    async def never():
        pass
    setup = asyncio.ensure_future(io.setup(adapter, never))
    marks = {}
    for k in range(1, n_msgs + 1):
        adapter.add_message_to_stream([b"q%d" % k])
        await asyncio.sleep(every)
        if k in marks_at:
            gc.collect()
            marks[k] = {"live_tasks": len([x for x in asyncio.all_tasks(loop) if not x.get_name().startswith("harness")]),
                        "retained_done_tasks": sum(1 for o in gc.get_objects() if isinstance(o, asyncio.Task) and o.done())}
    setup.cancel()
    if getattr(io, "_task", None):
        io._task.cancel()
    for t in [x for x in asyncio.all_tasks(loop) if x is not asyncio.current_task() and not x.get_name().startswith("harness")]:
        t.cancel()
    return marks, state


def run(tier, seed, drv):
    res = Result()
    rng = random.Random(seed)
    N = 40 if tier == "quick" else 500
    P = 1_000_000
    scns = {
        "flat-periodic": {"components": [dev("a", cb={"kind": "period", "p": P}), dev("b", {"i": ["a", "o"]}), dev("c", cb={"kind": "period", "p": 3 * P})]},
        "nested-periodic": {"components": [dev("src", cb={"kind": "period", "p": P}),
                                           {"name": "sys", "kind": "sys", "inputs": {"x": ["src", "o"]}, "expose": {"y": ["in1", "o"]},
                                            "components": [dev("in1", {"i": ["external", "x"]}), dev("in2", cb={"kind": "period", "p": 2 * P})]},
                                           dev("sink", {"i": ["sys", "y"]})]},
        "nested-depth2": {"components": [{"name": "o1", "kind": "sys", "inputs": {}, "expose": {}, "components": [
            {"name": "o2", "kind": "sys", "inputs": {}, "expose": {}, "components": [dev("deep", cb={"kind": "period", "p": P})]}]}]},
        "far-callback-interrupts": {"components": [dev("far", cb={"kind": "period", "p": 10_000 * P}), dev("x"), dev("y", {"i": ["x", "o"]})]},
        # a far callback that is superseded by every interrupt, next to a device whose earlier callback is always pending
        "far-and-periodic-interrupts": {"components": [dev("far", cb={"kind": "period", "p": 10_000 * P}), dev("per", cb={"kind": "period", "p": 7 * P})]},
    }
    for name, scn in scns.items():
        for ints in ((0, 1_300_000) if not name.startswith("far-") else (1_300_000,)):
            marks, run_ = long_run(scn, N, interrupts_every=ints)
            case = {"scenario": scn, "N": N, "interrupts_every": ints, "name": name}
            res.case(f"{name}:{ints}", nontrivial=True, sample={"name": name, "marks": marks} if len(res.samples) < 3 else None)
            res.count("long-runs")
            fails = monitors.run_failures(run_)
            if fails:
                res.violate(V("exception-escaped", f"{fails[0][0]}: {fails[0][1]}", site=fails[0][1].split("(")[0][:60]), case)
            growth(marks, N, name, res, case)
            # the observable events of the master run loop must be a run of the flag protocol model - the control part of
            # the resource-annotated loop model of Props/C14Loop (res_run_erases)
            try:
                rep = drv.eval([model.master_loop_request(run_)])[0]
                res.traces_validated += 1
                if not (rep or {}).get("accepted", False):
                    res.diverge(f"master run loop (flag protocol model) does not accept the run {name}: at event {(rep or {}).get('at')}", case)
            except Exception as e:   # noqa: BLE001
                res.notes.append(f"mloop acceptor not run for {name}: {e!r}")
    # the ZeroMQ push io: message sequences, with the peer going away
    Z = 300 if tier == "quick" else 4000
    (zmarks, zstate) = run_virtual(lambda loop: zmq_sequences(4 * Z, [Z, 2 * Z, 4 * Z]))[0][1]
    res.case("zmq-push-io", nontrivial=True, sample={"zmq_marks": zmarks, "written": zstate["written"], "sockets": zstate["sockets"]})
    res.count("zmq-sequences", 4 * Z)
    if len(zmarks) == 3:
        a, b, c = zmarks[Z], zmarks[2 * Z], zmarks[4 * Z]
        for k in a:
            if c[k] > a[k] + 2 and (c[k] - b[k]) >= (b[k] - a[k]) > 0:
                res.violate(V("resource-grows", f"zeromq push io: {k} = {a[k]} / {b[k]} / {c[k]} after {Z} / {2 * Z} / {4 * Z} message sequences (peer away from {4 * Z // 3})",
                              site="zeromq_push_io", resource=k), {"zmq": True, "Z": Z})
    else:
        res.violate(V("run-too-short", f"zmq run produced marks {zmarks}", site="zmq"), {"zmq": True, "Z": Z})
    # ... and with a peer that is merely SLOW (seconds per message, never failing) while messages keep being streamed
    ZS = 30 if tier == "quick" else 300
    (smarks, sstate) = run_virtual(lambda loop: zmq_stalled_peer(4 * ZS, [ZS, 2 * ZS, 4 * ZS]))[0][1]
    res.case("zmq-stalled-peer", nontrivial=True, sample={"zmq_stalled_marks": smarks, "written": sstate["written"]})
    res.count("zmq-stalled-messages", 4 * ZS)
    if len(smarks) == 3:
        a, b, c = smarks[ZS], smarks[2 * ZS], smarks[4 * ZS]
        for k in a:
            if c[k] > a[k] + 2 and (c[k] - b[k]) >= (b[k] - a[k]) > 0:
                res.violate(V("resource-grows", f"zeromq push io with a slow peer: {k} = {a[k]} / {b[k]} / {c[k]} after {ZS} / {2 * ZS} / {4 * ZS} streamed messages (5 s per accepted message, then a peer that takes nothing any more; one message streamed every 2 s)",
                              site="zeromq_push_io", resource=k), {"zmq_stalled": True, "ZS": ZS})
    else:
        res.violate(V("run-too-short", f"zmq stalled-peer run produced marks {smarks}", site="zmq"), {"zmq_stalled": True, "ZS": ZS})
    # one TCP connection, many messages
    M = 300 if tier == "quick" else 4000
    (marks, written, ints), _ = (run_virtual(lambda loop: tcp_messages(4 * M, [M, 2 * M, 4 * M]))[0][1], None)
    res.case("tcp-connection", nontrivial=True, sample={"tcp_marks": marks, "written": written, "interrupts": ints})
    res.count("tcp-messages", 4 * M)
    if len(marks) == 3:
        a, b, c = marks[M], marks[2 * M], marks[4 * M]
        for k in a:
            if c[k] > a[k] + 2 and (c[k] - b[k]) >= (b[k] - a[k]) > 0:
                res.violate(V("resource-grows", f"tcp connection: {k} = {a[k]} / {b[k]} / {c[k]} after {M} / {2 * M} / {4 * M} messages", site="tcp_io", resource=k), {"tcp": True, "M": M})
    else:
        res.violate(V("run-too-short", f"tcp run produced marks {marks}", site="tcp"), {"tcp": True, "M": M})
    # several TCP connections at once: the observed connection / chunk / reply-finished / end-of-stream / handler-returned events
    # must be an execution of the resource model of the TCP io (Core/RaceRes, TcpSt - the machine of Props/C14Race: tcp_bounded,
    # tcp_quiescent) and, at every quiescent moment, the io's live tasks and the finished reply tasks still referenced by
    # anything must be what the model says (open handlers + replies in flight; none)
    for k in range(8 if tier == "quick" else 60):
        sd = seed * 1000 + k
        (events, marks) = run_virtual(lambda loop, sd=sd: tcp_acceptor_run(sd))[0][1]
        case = {"tcp_acceptor": sd}
        res.case(f"tcp-acceptor:{sd}", nontrivial=len(events) > 6)
        res.count("tcp-acceptor-runs")
        res.count("tcp-acceptor-events", len(events))
        for v in tcp_acceptor_judge(events, marks, drv, res, case):
            res.violate(v, case)
    res.rule = (f"4 long runs x (with/without interrupts every 1.3 ms): flat periodic, nested periodic, depth-2 nesting, a far callback pre-empted by interrupts; "
                f"measured after N={N}, 2N, 4N master ticks: live asyncio tasks, finished-but-retained Task objects (gc), pending timers, wakeups, pending "
                f"interrupts, and the total number of entries in every container reachable from the scheduler and the components (whatever the attribute names); plus {4 * M} messages on one TCP connection through the real handle function with fake streams, measured at M, 2M, 4M; "
                "a resource 'grows' if it is higher at 4N than at N by more than 2 and the second difference is at least the first")
    return res


def tcp_acceptor_judge(events, marks, drv, res, case):
    out = []
    rep = drv.eval([{"op": "tcpres", "fixed": True, "events": events}])[0]
    res.traces_validated += 1
    if not rep.get("accepted"):
        i = rep.get("at")
        msg = f"TCP io: observed event #{i} {events[i] if isinstance(i, int) and i < len(events) else None} after {events[max(0, (i or 0) - 4):i]} is not possible in the resource model ({rep.get('why')})"
        # a reply task spawned after the end of the stream, or a handler that returns while replies are unwritten
        if isinstance(i, int) and i < len(events) and events[i][0] == "finish":
            out.append(V("handler-returned-with-replies-in-flight", msg, site="tcp_io"))
        else:
            res.diverge(msg, case)
        return out
    tr = rep["trace"]
    for (n, live, done_alive) in marks:
        if n == 0:
            continue
        m = tr[n - 1]
        if live != m["tasks"]:
            out.append(V("resource-grows", f"TCP io after {n} events {events[max(0, n - 3):n]}: {live} live tasks, the model has {m['tasks']} ({m['open']} open handlers + {m['replyLive']} replies in flight)",
                         site="tcp_io", resource="live_tasks"))
            break
        if done_alive != m["retained"] - m["replyLive"]:
            out.append(V("resource-grows", f"TCP io after {n} events: {done_alive} finished reply tasks are still referenced, the model retains {m['retained'] - m['replyLive']}",
                         site="tcp_io", resource="retained_done_tasks"))
            break
    return out


def replay(payload, drv):
    c = payload["case"]
    res = Result()
    if "tcp_acceptor" in c:
        (events, marks) = run_virtual(lambda loop: tcp_acceptor_run(c["tcp_acceptor"]))[0][1]
        return {"events": events, "marks": marks, "violations": tcp_acceptor_judge(events, marks, drv, res, c), "divergences": res.divergences[:2]}
    if c.get("zmq_stalled"):
        ZS = c["ZS"]
        (smarks, sstate) = run_virtual(lambda loop: zmq_stalled_peer(4 * ZS, [ZS, 2 * ZS, 4 * ZS]))[0][1]
        return {"marks": smarks, "violations": [V("resource-grows", str(smarks))] if smarks and max(m["live_tasks"] for m in smarks.values()) > min(m["live_tasks"] for m in smarks.values()) + 2 else []}
    if c.get("zmq"):
        Z = c["Z"]
        (zmarks, zstate) = run_virtual(lambda loop: zmq_sequences(4 * Z, [Z, 2 * Z, 4 * Z]))[0][1]
        return {"marks": zmarks, "violations": [V("resource-grows", str(zmarks))] if zmarks and max(m["retained_done_tasks"] for m in zmarks.values()) > min(m["retained_done_tasks"] for m in zmarks.values()) + 2 else []}
    if c.get("tcp"):
        (marks, written, ints) = run_virtual(lambda loop: tcp_messages(4 * c["M"], [c["M"], 2 * c["M"], 4 * c["M"]]))[0][1]
        return {"marks": marks, "violations": [V("resource-grows", str(marks))] if marks and max(m["retained_done_tasks"] for m in marks.values()) > min(m["retained_done_tasks"] for m in marks.values()) + 2 else []}
    marks, run_ = long_run(c["scenario"], c["N"], interrupts_every=c["interrupts_every"])
    growth(marks, c["N"], c["name"], res, c)
    return {"marks": marks, "violations": [v["record"] for v in res.violations]}
