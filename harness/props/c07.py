"""C07 — every interrupt is served promptly whenever it arrives."""
import copy
import os
import random

import monitors
import scenario as S
from sim import run_scenario

from .base import Result, V
from . import simcommon as SC

MODULES = ['TickitModel.Props.C07', 'TickitModel.Props.C07Nested', 'TickitModel.Props.C12', 'TickitModel.Props.FlatInt', 'TickitModel.Props.C07TwoLevel', 'TickitModel.Props.C07Loop', 'TickitModel.Props.C07Cost']
THEOREMS = ['minv_init', 'minv_step', 'no_interrupt_lost', 'not_displaced', 'next_tick_not_after_stamp', 'served_as_root', 'tick_ends_after_roots', 'owed_cleared_only_by_update', 'interrupts_coalesce', 'interrupts_coalesce_fresh', 'interrupt_wake_le_stamp', 'interrupt_record_le_stamp', 'interrupt_keeps_earlier_callback', 'interrupt_keeps_earlier_callback_eq', 'interrupt_replaces_later_callback', 'displaced_without_record', 'interrupt_due_now', 'stamp_law', 'late_immediate', 'nested_no_interrupt_lost', 'queued_becomes_root', 'queued_means_told', 'clear_after_tick_loses', 'interrupt_served', 'interrupt_never_overtaken', 'interrupt_first_update', 'interrupt_next_tick', 'flatRunI_can_continue', 'two_level_inv', 'inner_interrupt_not_lost', 'queued_has_master_obligation', 'idle_master_ticks_sys', 'beginSys_roots_owed', 'ends_wait', 'inner_interrupt_chain', 'inner_interrupt_chain_tick', 'inner_interrupt_chain_current', 'not_passed_up_loses', 'loop_never_dies', 'loop_never_waits_with_work', 'loop_woken_only_for_work', 'loop_progress', 'loop_quiescent_iff', 'served_entries_deleted', 'old_loop_dies', 'new_loop_survives_f16',
            'delay_telescope', 'c07C_first_tick', 'c07C_mid_gap', 'c07C_served_or_pending', 'c07C_run_complete', 'c07C_served', 'c07C_served_root', 'c07C_served_of_reached', 'c07C_coalesce']
ANCHORS = ["src/tickit/core/management/schedulers/master.py", "src/tickit/core/management/schedulers/base.py",
           "src/tickit/core/management/schedulers/nested.py", "src/tickit/core/components/system_component.py",
           "src/tickit/core/components/component.py"]
TECHNIQUE = "Lean 4 theorems over a transition system of the master's bookkeeping in which interrupts arrive at any point (invariant: nothing owed is forgotten or displaced; next tick not after the stamp; served as root; coalescing) + exhaustive sweep of the injection step on the real code and differential run of the real bookkeeping against the model"
LEVEL_TEXT = "Theorems over the master-bookkeeping transition system (wakeups + pending-interrupt stamps; actions interrupt / answer / tick start / update begins / tick end in ANY order): an owed component is always either a not-yet-updated root of the running tick or holds a wakeup no later than its interrupt stamp - whatever callbacks its answers request (the pre-repair behaviour is shown to violate this); when idle the next tick is not after the stamp, which by the C12 theorems is due at once (no sleeping for an unrelated callback); the component is a root of that tick and a tick cannot end before its roots began their update; interrupts of one component coalesce. The nested queue (NSt) and the COMPOSITION master x nested scheduler are proved as well (Props/C07Nested, Props/C07TwoLevel): an interrupt of a device inside a system is queued and passed up in one step; in every reachable state of the composed system an owed inner component is a not-yet-begun root of the running inner tick, or it is queued AND the master owes the system an update (running root or pending wakeup not after the stamp); when the system's update begins every queued component becomes a root of the inner tick, the inner tick cannot end before their updates began, the system cannot answer and the master tick cannot end before the inner tick ended (inner_interrupt_chain*); without passing the interrupt up it is lost (not_passed_up_loses). At flat run level with interrupts in the history (Props/FlatInt: interrupt_served, interrupt_never_overtaken). The master's RUN LOOP itself (the `new_wakeup` flag raced against the sleep; Core/MasterLoop, Props/C07Loop, tied to `_do_tick` by a trace acceptor over the add_wakeup / tick-start / tick-end events of every run of this check): for every interleaving of wakeups with the loop's own moves the repaired loop never reaches the failed assertion, never waits while a wakeup exists, is woken only for work, always has an enabled move while there is work, and deletes exactly the entries it serves; the original loop provably dies on the history of defect F16 (old_loop_dies). THE REAL-TIME BOUND at run level (Props/C07Cost, over the master loop with processing costs Core/SimCost: tick k takes cost k ns; stimuli between ticks and in the middle of ticks, any nesting below the master): every handled stimulus is either served - a later tick record, for a time <= the recorded stamp, that has the interrupting top-level component among its roots (or, only in the model, updates it as a dependant of an earlier root), with every tick in between for an earlier time - or its wakeup is still pending when the run is cut: never lost (c07C_served_or_pending, c07C_served, c07C_run_complete); the next tick after a stimulus between ticks starts AT the stimulus' arrival; after a stimulus in the middle of tick z it starts no later than the end of z plus the sleep for the stamp, which is at most the part of z that had elapsed when the stimulus arrived, hence less than z's duration (c07C_first_tick, c07C_mid_gap); behind earlier-or-equal wakeups the delay is exactly their costs plus the master's sleeps (chain / total bounds, attained in examples); stimuli of one component handled before it is served share one serving tick (c07C_coalesce). PARTIAL: the whole-simulation model records answers with the plain wakeup rule (the master's pending-interrupt guard is in the bookkeeping model Core/Master, not in Core/Sim), so 'root at a time <= stamp' is unconditional only for components that are downstream of no other top-level component (c07C_served_root); the same bound on the REAL asyncio schedule is validated: ONE interrupt is injected at EVERY event-loop step from the master's first tick start to the end of a baseline run, for every device at every depth of 4 configurations with processing costs (plus simultaneous sets), on the real asyncio schedule; a monitor checks a later update exists within the bound; the real MasterScheduler's schedule_interrupt/add_wakeup/_do_tick are run against the model on random action sequences."
LEVEL_NOTE = 'Trusts: Lean kernel; hand-written bookkeeping transition system (tied by differential run); event-loop steps are those of the harness loop on the synchronous bus; calls the private _do_tick with a stub ticker.'
ASSUMPTIONS = ['interrupts are raised once the master has begun its initial tick (earlier ones: C13)']


def dev(n, ins=None, cb=None, cost=0, outs=("o",)):
    return {"name": n, "kind": "dev", "inputs": ins or {},
            "beh": {"outs": [{"port": p, "kind": "counter", "mod": 3, "v": 1} for p in outs], "cb": cb or {"kind": "none"}, "cost": cost}}


def base_scenarios(rng, tier):
    P = 10_000_000
    out = [
        # flat: periodic source, chain, an idle device with no callback
        {"components": [dev("a", cb={"kind": "period", "p": P}, cost=200_000), dev("b", {"i": ["a", "o"]}, cost=200_000), dev("idle", cost=100_000)], "n_ticks": 3},
        # nested: periodic device inside a system, plus interruptible devices inside and outside
        {"components": [dev("src", cb={"kind": "period", "p": P}, cost=100_000),
                        {"name": "sys", "kind": "sys", "inputs": {"x": ["src", "o"]}, "expose": {"y": ["in1", "o"]},
                         "components": [dev("in1", {"i": ["external", "x"]}, cost=200_000), dev("in2", cb={"kind": "period", "p": 3 * P}, cost=100_000), dev("quiet", cost=50_000)]},
                        dev("sink", {"i": ["sys", "y"]}, cost=100_000)], "n_ticks": 3},
        # far callback only (interrupt must pre-empt a long sleep), zero cost
        {"components": [dev("far", cb={"kind": "period", "p": 1000 * P}), dev("x")], "n_ticks": 2},
        # depth 2
        {"components": [{"name": "o1", "kind": "sys", "inputs": {}, "expose": {}, "components": [
            {"name": "o2", "kind": "sys", "inputs": {}, "expose": {}, "components": [dev("deep", cb={"kind": "period", "p": 2 * P}, cost=100_000), dev("deepq", cost=100_000)]},
            dev("mid", cost=100_000)]}, dev("top", cb={"kind": "period", "p": P}, cost=100_000)], "n_ticks": 3},
    ]
    # an upstream whose output never changes: its downstream is passed over (Skip) by ticks rooted upstream
    cs = dev("csrc", cost=50_000)
    cs["beh"]["outs"] = [{"port": "o", "kind": "const", "v": 5}]
    out.append({"components": [cs, dev("csnk", {"i": ["csrc", "o"]}, cost=50_000), dev("cper", cb={"kind": "period", "p": P}, cost=50_000)], "n_ticks": 3})
    # interrupting devices that sit two and three steps BELOW a root of the same tick whose output does not change: inside a
    # system every tick is also rooted at `external` (here fed by a constant), at top level the interrupt may coincide with
    # the callback of the constant source - the device is a root of that tick AND downstream of a component that is passed over
    kc = dev("kconst", cb={"kind": "period", "p": P}, cost=20_000)
    kc["beh"]["outs"] = [{"port": "o", "kind": "const", "v": 2}]
    chain = lambda first: [dev("k1", {"i": first}, cost=30_000), dev("k2", {"i": ["k1", "o"]}, cost=30_000), dev("k3", {"i": ["k2", "o"]}, cost=30_000)]  # noqa: E731
    kflat = {"components": [kc] + chain(["kconst", "o"]), "n_ticks": 3, "same_instant_as": "kconst"}
    ksys = {"components": [copy.deepcopy(kc), {"name": "ksys", "kind": "sys", "inputs": {"x": ["kconst", "o"]}, "expose": {"y": ["k3", "o"]},
                                               "components": chain(["external", "x"])}, dev("kout", {"i": ["ksys", "y"]}, cost=20_000)], "n_ticks": 3}
    for scn_ in (kflat, ksys):
        for d in S.devices(scn_):
            if d["name"] in ("k1", "k2", "k3"):
                d["beh"]["outs"] = [{"port": "o", "kind": "const", "v": 1}]
        out.append(scn_)
    # the same nested shape with an infinitely fast loop (no processing cost, initial time 0): an interrupt raised during the
    # initial tick is stamped with simulation time 0 exactly - a time like any other
    out.append({"components": [dev("zsrc", cb={"kind": "period", "p": 5 * P}),
                               {"name": "zsys", "kind": "sys", "inputs": {"x": ["zsrc", "o"]}, "expose": {"y": ["zin", "o"]},
                                "components": [dev("zin", {"i": ["external", "x"]}), dev("zper", cb={"kind": "period", "p": 4 * P}), dev("zquiet")]},
                               dev("zsink", {"i": ["zsys", "y"]})], "n_ticks": 2, "t0": 0})
    # a purely interrupt-driven system (no inner callback is ever pending) next to a periodic top-level device:
    # whatever the system answers carries no call_at of its own
    out.append({"components": [dev("per", cb={"kind": "period", "p": 2 * P}, cost=50_000),
                               {"name": "isys", "kind": "sys", "inputs": {}, "expose": {"y": ["islow", "o"]},
                                "components": [dev("itrig", cost=150_000), dev("islow", {"i": ["itrig", "o"]}, cost=400_000)]},
                               dev("imon", {"i": ["isys", "y"]}, cost=50_000)], "n_ticks": 2, "same_device_pairs": ["itrig", "islow"]})
    # other speeds: the stamp converts real to simulation time
    for sp in ([1, 2], [2, 1]):
        out.append({"components": [dev("far", cb={"kind": "period", "p": 50 * P}), dev("x", cost=100_000), dev("y", {"i": ["x", "o"]}, cost=100_000)], "n_ticks": 2, "speed": sp})
    if tier == "thorough":
        for _ in range(6):
            scn = S.gen_nested(rng, depth=2, max_n=5)
            for d in S.devices(scn):
                d["beh"]["cost"] = rng.choice((0, 100_000, 300_000))
            scn["n_ticks"] = 3
            out.append(scn)
    return out


def stop_when_served(n_extra_ticks, n_stims=1):
    def f(trace, info):
        raises = [e for e in trace.events if e["k"] == "raise" and e.get("ok")]
        allr = [e for e in trace.events if e["k"] == "raise"]
        if len(allr) < n_stims:
            return False
        if info["loop"].now_ns() - allr[-1]["real"] > 45_000_000:
            return True   # waited long enough (4 callback periods) after the last interrupt
        ups = [e for e in trace.events if e["k"] == "update"]
        served = all(any(u["comp"] == r["comp"] and u["n"] > r["n"] for u in ups) for r in raises)
        tid = info["scheduler"].ticker._vid if hasattr(info.get("scheduler"), "ticker") else None
        calls = sum(1 for e in trace.events if e["k"] == "t-call" and e.get("tid") == tid)
        dones = sum(1 for e in trace.events if e["k"] == "t-done" and e.get("tid") == tid)
        return served and calls == dones and dones >= n_extra_ticks
    return f


def master_diff(rng, n, drv, res):
    """the real MasterScheduler's bookkeeping (schedule_interrupt / add_wakeup / _do_tick) against
    the Lean transition system Core/Master.lean, on random action sequences"""
    import asyncio
    import time as _time
    from tickit.core.management.event_router import InverseWiring
    from tickit.core.management.schedulers import master as master_mod
    from tickit.core.management.schedulers.master import MasterScheduler
    from vloop import run_virtual
    cases, reals = [], []
    for _ in range(n):
        acts = []
        for _ in range(rng.randrange(2, 12)):
            r = rng.random()
            c = rng.choice(("a", "b", "s"))
            if r < 0.35:
                acts.append({"a": "interrupt", "c": c, "dt": rng.choice((0, 1000, 250_000))})
            elif r < 0.7:
                acts.append({"a": "output", "c": c, "call_at": rng.choice((None, 1_000_000, 5_000_000, 2_000_000))})
            else:
                acts.append({"a": "start"})
        out = []

        async def main(loop, acts=acts, out=out):
            ticks = []

            from tickit.core.management.ticker import Ticker

            class StubTicker(Ticker):
                """tickit's own Ticker (so that whatever the scheduler asks of a ticker between ticks is answered by
                the real class) whose ticks complete at once: only the scheduler's bookkeeping is under test here"""

                async def __call__(self, when, roots):
                    self.time = when
                    ticks.append((int(when), sorted(roots)))

            sched = MasterScheduler(InverseWiring({c: {} for c in ("a", "b", "s")}), object, object)
            sched.ticker = StubTicker(sched._wiring, sched.update_component, sched.skip_component)
            sched.ticker.time = 0
            sched.new_wakeup = asyncio.Event()
            await sched._do_initial_tick()
            t_sim = 0
            for a in acts:
                if a["a"] == "interrupt":
                    loop.advance(a["dt"])
                    await sched.schedule_interrupt(a["c"])
                    a["stamp"] = int(sched.ticker.time + (loop.now_ns() - sched.last_time))
                    out.append({"wake": sorted([k, int(v)] for k, v in sched.wakeups.items())})
                elif a["a"] == "output":
                    if a["call_at"] is not None:
                        a["call_at"] = int(sched.ticker.time) + a["call_at"]
                        sched.add_wakeup(a["c"], a["call_at"])
                    out.append({"wake": sorted([k, int(v)] for k, v in sched.wakeups.items())})
                else:
                    if not sched.wakeups:
                        out.append({"enabled": False})
                        continue
                    n0 = len(ticks)
                    await sched._do_tick()
                    while len(ticks) == n0:   # pre-empted by its own new_wakeup flag: try again
                        await sched._do_tick()
                    out.append({"wake": sorted([k, int(v)] for k, v in sched.wakeups.items()), "time": ticks[-1][0], "roots": ticks[-1][1]})
            return True
        r, _ = run_virtual(main)
        if r[0] != "ok":
            res.violate(V("master-bookkeeping-crashed", str(r), site="MasterScheduler"), {"acts": acts})
            continue
        cases.append({"op": "master", "acts": [dict(a, **({"a": "start"} if a["a"] == "start" else {})) for a in acts]})
        reals.append(out)
    for c, real, rep in zip(cases, reals, drv.eval(cases)):
        res.case(str(c), nontrivial=len(c["acts"]) > 2)
        res.count("master-bookkeeping-seqs")
        # after a modelled startTick the model waits for beginUpdate/endTick; the stub tick ends at once
        # so we replay with explicit update+end actions
        acts2 = []
        for a in c["acts"]:
            acts2.append(a)
        # compare step by step using a fresh expanded request
        exp_req = {"op": "master", "acts": []}
        idx = []
        for a, r in zip(c["acts"], real):
            exp_req["acts"].append(a)
            idx.append(len(exp_req["acts"]) - 1)
            if a["a"] == "start" and r.get("enabled", True):
                for root in r["roots"]:
                    exp_req["acts"].append({"a": "update", "c": root})
                exp_req["acts"].append({"a": "end"})
        rep2 = drv.eval([exp_req])[0]
        for k, (a, r) in enumerate(zip(c["acts"], real)):
            m = rep2[idx[k]]
            if a["a"] == "start":
                if r.get("enabled", True) != m["enabled"]:
                    res.diverge(f"master bookkeeping step {k}: tick enabled impl {r.get('enabled', True)} model {m['enabled']}", c)
                    break
                if m["enabled"] and (r["time"] != m["time"] or r["roots"] != m["roots"] or r["wake"] != m["wake"]):
                    res.diverge(f"master bookkeeping step {k}: impl tick {r} model {m}", c)
                    break
            elif r["wake"] != m["wake"]:
                res.diverge(f"master bookkeeping step {k} ({a}): impl wakeups {r['wake']} model {m['wake']}", c)
                break


def _work(item):
    """one injected-interrupt run (executed in a worker process)"""
    import logging
    import common
    logging.disable(logging.CRITICAL)
    scn, stims, n_ticks, key = item
    s2 = dict(copy.deepcopy(scn), stims=stims, max_real=40_000_000_000, n_ticks=10)
    res = Result()
    drv = common.Driver()
    run_ = run_scenario(s2, bus="sync", stop_when=stop_when_served(n_ticks, len(stims)))
    raised = [e for e in run_["trace"].of("raise") if e.get("ok")]
    ph = monitors.phase_of(run_["trace"], monitors.master_tid(run_), raised[0]) if raised else "not-raised"
    SC.check_run(s2, run_, drv, res, monitors_on=("interrupts", "ticker"), corr=("ticker", "mloop"), case_extra={"bus": "sync"})
    return {"key": key, "phase": ph, "raised": bool(raised), "violations": res.violations, "divergences": res.divergences,
            "validated": res.traces_validated, "scenario": s2 if ph == "mid-tick" else None,
            "depth": S.depth_map(scn).get(stims[0]["comp"]) if len(stims) == 1 else None}


def nested_diff(rng, n, drv, res):
    """the real NestedScheduler's interrupt bookkeeping (schedule_interrupt / on_tick) against the
    Lean transition system Core/NestedInt.lean: random sequences of interrupts and inner ticks, with
    interrupts arriving WHILE an inner tick is running"""
    import asyncio
    from immutables import Map
    from tickit.core.management.event_router import InverseWiring
    from tickit.core.management.schedulers.nested import NestedScheduler
    from tickit.core.typedefs import Changes
    loop = asyncio.new_event_loop()
    asyncio.set_event_loop(loop)
    cases, reals = [], []
    for _ in range(n):
        # a plan: list of ("interrupt", c) | ("tick", [interrupts that arrive during the tick])
        plan = []
        for _ in range(rng.randrange(2, 9)):
            if rng.random() < 0.5:
                plan.append(("interrupt", rng.choice("xyz")))
            else:
                plan.append(("tick", [rng.choice("xyz") for _ in range(rng.choice((0, 0, 1, 2)))]))
        out, acts = [], []

        async def main(plan=plan, out=out, acts=acts):
            raised = []

            async def raise_interrupt():
                raised.append(1)

            ns = NestedScheduler(InverseWiring({c: {} for c in "xyz"}), object, object, {}, raise_interrupt)
            during = []

            from tickit.core.management.ticker import Ticker

            class StubTicker(Ticker):
                async def __call__(self, time, roots):
                    self.time = time
                    out.append({"roots": sorted(set(roots) - {"external", "expose"})})
                    for c in during:
                        await ns.schedule_interrupt(c)

            ns.ticker = StubTicker(ns._wiring, ns.update_component, ns.skip_component)
            ns.ticker.time = 0
            # the system simulation's initial tick (every inner component) is not part of the bookkeeping compared here
            await ns.on_tick(0, Changes(Map()))
            out.clear()
            t = 0
            for kind, arg in plan:
                if kind == "interrupt":
                    n0 = len(raised)
                    await ns.schedule_interrupt(arg)
                    acts.append({"a": "interrupt", "c": arg})
                    out.append({"up": len(raised) > n0})
                else:
                    during[:] = arg
                    n0 = len(raised)
                    t += 10
                    await ns.on_tick(t, Changes(Map()))
                    acts.append({"a": "start", "due": []})
                    for c in arg:
                        acts.append({"a": "interrupt", "c": c})
                        out.append({"up": True})
                    # the stub tick updates every root and ends
                    acts.append({"a": "roots-done"})
                    out.append({"up_total": len(raised) - n0})
            return True
        try:
            loop.run_until_complete(main())
        except Exception as e:
            res.violate(V("nested-bookkeeping-crashed", f"{type(e).__name__}:{e}", site="NestedScheduler"), {"plan": plan})
            continue
        cases.append((plan, acts))
        reals.append(out)
    loop.close()
    asyncio.set_event_loop(None)
    # expand "roots-done" into update/end actions using the model's own roots (batch per case)
    for (plan, acts), real in zip(cases, reals):
        exp, idx = [], []
        # first pass to learn roots: run model incrementally
        req = {"op": "nested", "acts": []}
        model_out = []
        for a in acts:
            if a["a"] == "roots-done":
                rep = drv.eval([dict(req)])[0] if req["acts"] else []
                roots = []
                for r in rep:
                    if r.get("roots") is not None:
                        roots = r["roots"]
                for c in roots:
                    req["acts"].append({"a": "update", "c": c})
                req["acts"].append({"a": "end"})
            else:
                req["acts"].append(a)
                idx.append(len(req["acts"]) - 1)
        rep = drv.eval([req])[0]
        res.case(str(plan), nontrivial=any(k == "tick" and a for k, a in plan))
        res.count("nested-bookkeeping-seqs")
        # compare: roots of every inner tick, and whether each interrupt was passed upward
        real_roots = [r["roots"] for r in real if "roots" in r]
        model_roots = [rep[i]["roots"] for i, a in zip(idx, [x for x in acts if x["a"] != "roots-done"]) if a["a"] == "start"]
        if real_roots != model_roots:
            res.diverge(f"nested interrupt bookkeeping: inner tick roots impl {real_roots} model {model_roots}", {"plan": plan})
        if any(r.get("up") is False for r in real):
            res.violate(V("inner-interrupt-not-raised-upward", f"an inner interrupt was queued without interrupting the enclosing scheduler (plan {plan})", site="NestedScheduler.schedule_interrupt"), {"plan": plan})
        # the property, directly: every interrupt (also one arriving during a tick) is a root of a later tick
        pend = []
        ticks = iter(real_roots)
        for kind, arg in plan:
            if kind == "interrupt":
                pend.append(arg)
            else:
                roots = next(ticks)
                missing = [c for c in pend if c not in roots]
                if missing:
                    res.violate(V("interrupt-lost", f"inner interrupts {missing} queued before an inner tick are not among its roots {roots} (plan {plan})", site="NestedScheduler.on_tick", phase="mid-tick"), {"plan": plan})
                pend = list(arg)


def run(tier, seed, drv):
    from concurrent.futures import ProcessPoolExecutor
    res = Result()
    rng = random.Random(seed)
    master_diff(random.Random(seed + 3), 150 if tier == "quick" else 2000, drv, res)
    nested_diff(random.Random(seed + 4), 60 if tier == "quick" else 600, drv, res)
    items = []
    for si, scn in enumerate(base_scenarios(rng, tier)):
        base = run_scenario(scn, bus="sync")
        tid = monitors.master_tid(base)
        first = next((e["step"] for e in base["trace"].of("t-call") if e["tid"] == tid), 1)
        last = base["steps"]
        devs = [d["name"] for d in S.devices(scn)]
        stride = 1 if tier == "thorough" else (1 if last - first < 70 else 2)
        for step in range(first, last + 1, stride):
            for d in devs:
                items.append((scn, [{"step": step, "comp": d}], scn["n_ticks"], f"{si}:{step}:{d}"))
        # an interrupt of a DOWNSTREAM device a few loop steps after the interrupt of its upstream: the tick
        # rooted at the upstream reaches the downstream device (updates it, or passes it over when its inputs
        # did not change) while the downstream's own interrupt is still queued
        wired = [(src[0], d["name"]) for d in S.devices(scn) for src in d["inputs"].values() if src[0] in devs]
        for (u, d) in wired[:2]:
            for s0 in range(first, last + 1, 2 if tier == "thorough" else 5):
                for k in ((0, 1, 2, 3, 5, 8) if tier == "thorough" else (0, 2, 5)):
                    items.append((scn, [{"step": s0, "comp": u}, {"step": s0 + k, "comp": d}], scn["n_ticks"], f"{si}:multi:pair:{u}:{d}:{s0}:{k}"))
        # a SECOND interrupt of the same inner device k loop steps after the first, i.e. before, while and after
        # the (nested) tick that serves the first one is running
        for d in scn.get("same_device_pairs", []):
            for s0 in range(first + 2, last + 1, 9 if tier == "quick" else 4):
                for k in (range(1, 40, 2) if tier == "quick" else range(1, 60)):
                    items.append((scn, [{"step": s0, "comp": d}, {"step": s0 + k, "comp": d}], scn["n_ticks"], f"{si}:multi:same:{d}:{s0}:{k}"))
        # simultaneous interrupts and interrupt together with a due callback
        for k in range(6 if tier == "quick" else 40):
            stims = [{"step": rng.randrange(first, last + 1), "comp": rng.choice(devs)} for _ in range(rng.randrange(2, 4))]
            if rng.random() < 0.5:
                stims[1]["step"] = stims[0]["step"]
            items.append((scn, stims, scn["n_ticks"], f"{si}:multi:{k}"))
    # an interrupt of a device k loop iterations after the instant at which its own LAST callback becomes due
    # (around the moment the master's sleep expires and the tick starts), followed by later interrupts: the
    # scheduler must survive that window and keep serving
    P1 = 10_000_000
    oneshot = {"components": [dev("one", cb={"kind": "list", "delays": [P1, None, None, None, None]}), dev("oth")], "n_ticks": 3}
    for k in (range(0, 10) if tier == "quick" else range(0, 24)):
        items.append((oneshot, [{"real": P1, "yields": k, "comp": "one"}, {"real": 3 * P1, "comp": "one"}, {"real": 4 * P1, "comp": "oth"}], 3, f"oneshot:multi:{k}"))
    with ProcessPoolExecutor(max_workers=min(14, os.cpu_count() or 4)) as ex:
        outs = list(ex.map(_work, items, chunksize=8))
    for o in outs:
        multi = ":multi:" in o["key"]
        res.case(o["key"], nontrivial=o["raised"] or multi, sample={"scenario": o["scenario"]} if o["scenario"] and len(res.samples) < 2 else None)
        res.count("multi-interrupt" if multi else "phase=" + o["phase"])
        if o["depth"] is not None:
            res.count("depth=" + str(o["depth"]))
        res.traces_validated += o["validated"]
        for v in o["violations"]:
            res.violate(v["record"], v["case"])
        for d in o["divergences"]:
            res.diverge(d["what"], d["case"])
    res.rule = ("4 base configurations (flat chain; system with fed, periodic and quiet inner devices; a far callback; depth 2) [+ generated nestings in the "
                "thorough tier], per-update processing costs; ONE interrupt injected at every event-loop step from the master's first tick start to the "
                "end of the baseline run, for every device at every depth (real asyncio schedule on the synchronous bus), plus sets of 2-3 interrupts "
                "(some simultaneous); monitor: a later update of that device exists within the property's bound; every Ticker trace validated against "
                "the Lean ticker model; plus random action sequences on the real MasterScheduler bookkeeping against the Lean transition system. "
                "non-trivial = the interrupt was actually raised")
    return res


def replay(payload, drv):
    c = payload["case"]
    res = Result()
    run_ = run_scenario(c["scenario"], bus="sync", stop_when=stop_when_served(3, len(c["scenario"].get("stims", []))))
    SC.check_run(c["scenario"], run_, drv, res, monitors_on=("interrupts", "ticker"), corr=("ticker",))
    return {"violations": [v["record"] for v in res.violations], "divergences": res.divergences[:3]}
