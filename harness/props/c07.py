"""C07 — every interrupt is served promptly whenever it arrives."""
import copy
import random

import monitors
import scenario as S
from sim import run_scenario

from .base import Result, V
from . import simcommon as SC

MODULES = ["TickitModel.Props.C07"]
THEOREMS = []
ANCHORS = ["src/tickit/core/management/schedulers/master.py", "src/tickit/core/management/schedulers/base.py",
           "src/tickit/core/management/schedulers/nested.py", "src/tickit/core/components/system_component.py",
           "src/tickit/core/components/component.py"]
TECHNIQUE = "Lean 4 transition-system model of the master loop with interrupts arriving at any point + exhaustive sweep of the injection step on the real code"
LEVEL_TEXT = "see DESIGN.md"
LEVEL_NOTE = "see DESIGN.md"
ASSUMPTIONS = []


def dev(n, ins=None, cb=None, cost=0, outs=("o",)):
    return {"name": n, "kind": "dev", "inputs": ins or {},
            "beh": {"outs": [{"port": p, "kind": "counter", "mod": 3, "v": 1} for p in outs], "cb": cb or {"kind": "none"}, "cost": cost}}


def base_scenarios(rng, tier):
    P = 10_000_000
    out = [
        # flat: periodic source, chain, an idle device with no callback
        {"components": [dev("a", cb={"kind": "period", "p": P}, cost=200_000), dev("b", {"i": ["a", "o"]}, cost=200_000), dev("idle", cost=100_000)], "n_ticks": 3},
        # nested: periodic device inside a system, plus interruptible devices inside and outside
        {"components": [dev("src", cb={"kind": "period", "p": P}, cost=100_000),
                        {"name": "sys", "kind": "sys", "inputs": {"x": ["src", "o"]}, "expose": {"y": ["in1", "o"]},
                         "components": [dev("in1", {"i": ["external", "x"]}, cost=200_000), dev("in2", cb={"kind": "period", "p": 3 * P}, cost=100_000), dev("quiet", cost=50_000)]},
                        dev("sink", {"i": ["sys", "y"]}, cost=100_000)], "n_ticks": 3},
        # far callback only (interrupt must pre-empt a long sleep), zero cost
        {"components": [dev("far", cb={"kind": "period", "p": 1000 * P}), dev("x")], "n_ticks": 2},
        # depth 2
        {"components": [{"name": "o1", "kind": "sys", "inputs": {}, "expose": {}, "components": [
            {"name": "o2", "kind": "sys", "inputs": {}, "expose": {}, "components": [dev("deep", cb={"kind": "period", "p": 2 * P}, cost=100_000), dev("deepq", cost=100_000)]},
            dev("mid", cost=100_000)]}, dev("top", cb={"kind": "period", "p": P}, cost=100_000)], "n_ticks": 3},
    ]
    if tier == "thorough":
        for _ in range(6):
            scn = S.gen_nested(rng, depth=2, max_n=5)
            for d in S.devices(scn):
                d["beh"]["cost"] = rng.choice((0, 100_000, 300_000))
            scn["n_ticks"] = 3
            out.append(scn)
    return out


def stop_when_served(n_extra_ticks, n_stims=1):
    def f(trace, info):
        raises = [e for e in trace.events if e["k"] == "raise" and e.get("ok")]
        allr = [e for e in trace.events if e["k"] == "raise"]
        if len(allr) < n_stims:
            return False
        if info["loop"].now_ns() - allr[-1]["real"] > 45_000_000:
            return True   # waited long enough (4 callback periods) after the last interrupt
        ups = [e for e in trace.events if e["k"] == "update"]
        served = all(any(u["comp"] == r["comp"] and u["n"] > r["n"] for u in ups) for r in raises)
        tid = info["scheduler"].ticker._vid if hasattr(info.get("scheduler"), "ticker") else None
        calls = sum(1 for e in trace.events if e["k"] == "t-call" and e.get("tid") == tid)
        dones = sum(1 for e in trace.events if e["k"] == "t-done" and e.get("tid") == tid)
        return served and calls == dones and dones >= n_extra_ticks
    return f


def run(tier, seed, drv):
    res = Result()
    rng = random.Random(seed)
    for si, scn in enumerate(base_scenarios(rng, tier)):
        base = run_scenario(scn, bus="sync")
        tid = monitors.master_tid(base)
        first = next((e["step"] for e in base["trace"].of("t-call") if e["tid"] == tid), 1)
        last = base["steps"]
        devs = [d["name"] for d in S.devices(scn)]
        stride = 1 if tier == "thorough" else (1 if last - first < 70 else 2)
        max_real = 2_500_000_000 if si != 2 else 20_000_000_000
        for step in range(first, last + 1, stride):
            for d in devs:
                s2 = dict(copy.deepcopy(scn), stims=[{"step": step, "comp": d}], max_real=40_000_000_000, n_ticks=10)
                run_ = run_scenario(s2, bus="sync", stop_when=stop_when_served(scn["n_ticks"]))
                raised = [e for e in run_["trace"].of("raise") if e.get("ok")]
                ph = monitors.phase_of(run_["trace"], monitors.master_tid(run_), raised[0]) if raised else "not-raised"
                res.case(f"{si}:{step}:{d}", nontrivial=bool(raised), sample={"scenario": s2} if len(res.samples) < 2 and ph == "mid-tick" else None)
                res.count("phase=" + ph)
                res.count("depth=" + str(S.depth_map(scn).get(d)))
                SC.check_run(s2, run_, drv, res, monitors_on=("interrupts", "ticker"), corr=("ticker",), case_extra={"bus": "sync"})
        # simultaneous interrupts and interrupt together with a due callback
        for k in range(6 if tier == "quick" else 40):
            stims = [{"step": rng.randrange(first, last + 1), "comp": rng.choice(devs)} for _ in range(rng.randrange(2, 4))]
            if rng.random() < 0.5:
                stims[1]["step"] = stims[0]["step"]
            s2 = dict(copy.deepcopy(scn), stims=stims, max_real=40_000_000_000, n_ticks=10)
            run_ = run_scenario(s2, bus="sync", stop_when=stop_when_served(scn["n_ticks"], len(stims)))
            res.case(f"{si}:multi:{k}", nontrivial=True)
            res.count("multi-interrupt")
            SC.check_run(s2, run_, drv, res, monitors_on=("interrupts", "ticker"), corr=("ticker",), case_extra={"bus": "sync"})
    res.rule = ("4 base configurations (flat chain; system with fed, periodic and quiet inner devices; a far callback; depth 2) [+ generated nestings in the "
                "thorough tier], per-update processing costs; ONE interrupt injected at every event-loop step from the master's first tick start to the "
                "end of the baseline run, for every device at every depth (real asyncio schedule on the synchronous bus), plus sets of 2-3 interrupts "
                "(some simultaneous); monitor: a later update of that device exists and all elapsed real time is processing cost; every Ticker trace "
                "validated against the Lean ticker model. non-trivial = the interrupt was actually raised")
    return res


def replay(payload, drv):
    c = payload["case"]
    res = Result()
    run_ = run_scenario(c["scenario"], bus="sync", stop_when=stop_when_served(3, len(c["scenario"].get("stims", []))))
    SC.check_run(c["scenario"], run_, drv, res, monitors_on=("interrupts", "ticker"), corr=("ticker",))
    return {"violations": [v["record"] for v in res.violations], "divergences": res.divergences[:3]}
