"""C13 — start-up order does not matter."""
import copy
import itertools
import random

import model
import monitors
import scenario as S
from sim import run_scenario

from .base import Result, V
from . import simcommon as SC
from .c07 import dev

MODULES = ['TickitModel.Props.C13', 'TickitModel.Props.C15', 'TickitModel.Props.C17Codec', 'TickitModel.Props.C08Msg', 'TickitModel.Props.C08MsgRun']
THEOREMS = ['contract_exactly_once', 'deliver_enabled', 'late_subscribe_is_delay', 'producer_before_subscribe', 'subscribe_before_producer_crashes', 'bus_exactly_once_in_order', 'syncBus_refines_contract',
            'msg_tick_refines', 'msg_tick_can_complete', 'msg_not_complete_while_unstarted', 'msg_input_exactly_once', 'msg_root_gets_input', 'msg_bus_contract', 'msg_tick_deterministic', 'msg_run_refines_flatRun', 'msg_run_schedule_independent', 'msg_run_can_complete_tick', 'msg_run_next_tick_enabled']
ANCHORS = ["src/tickit/core/components/component.py", "src/tickit/core/state_interfaces/internal.py",
           "src/tickit/core/state_interfaces/kafka.py", "src/tickit/core/simulation.py",
           "src/tickit/core/components/system_component.py", "src/tickit/core/management/schedulers/base.py"]
TECHNIQUE = "Lean 4 theorems (contract bus: replay from the first message exactly once in order for late subscribers; any execution can be reordered with all subscriptions first without changing any delivery; producer-before-subscribe start machine) + exhaustive start-delay vectors on the real code"
LEVEL_TEXT = ("Theorems over the state-interface contract model: in every execution a consumer receives exactly the log prefix up to its cursor from the "
              "very first message, whenever it subscribed; every execution is equivalent (same logs, same deliveries in the same order) to one in "
              "which all subscriptions come first - so start delays are delivery delays, and schedule independence (C08) transfers; with the producer "
              "created before the subscription no interleaving handles an input without a producer (and the opposite order provably crashes); the synchronous internal bus is proved to be a refinement of the contract bus. THE LINK TO OBSERVATIONS (Core/MsgFlat, MsgFlatRun; Props/C08Msg, C08MsgRun - a message-level model of one scheduler level over the contract bus in which the scheduler and every component START AT ANY MOMENT, in any order, and messages produced to a topic before its consumer started stay in the log and are consumed after it starts): from every reachable state the tick in progress can be completed (msg_tick_can_complete, msg_run_can_complete_tick); a tick cannot complete while a component that was sent an Input has not started, and once it starts it handles exactly that Input, exactly once (msg_not_complete_while_unstarted, msg_input_exactly_once); every root of the initial tick is sent an Input (msg_root_gets_input); every history refines the atomic tick system and over many ticks a FlatRun, so two runs with different start patterns and interleavings have the same tick times and per-device observations - the run proceeds as if all had started together (msg_run_refines_flatRun, msg_run_schedule_independent). PARTIAL: "
              "the message-level model covers one (flat) scheduler level without interrupts; nested levels and early interrupts are validated. The message-level model is a TRACE ACCEPTOR for the flat configuration: for every start-delay vector run under the delaying bus and tickit's own Kafka interface, the real order of subscriptions, deliveries and tick starts must be an execution of Core/MsgFlatRun with the same device updates. Tie to the code: every "
              "assignment of start delays 0..2/3 event-loop steps to the scheduler and each top-level component (device and system components) of "
              "small configurations, under the internal-bus semantics and a delaying bus, plus early interrupts raised before a late scheduler is "
              "up: the initial tick must reach every device once, complete, and all observation sequences must equal the simultaneous start.")
LEVEL_NOTE = "Trusts: Lean kernel; hand-written contract-bus model; delays are in event-loop steps of the harness loop; inner processes of a system component start as that component starts them."
ASSUMPTIONS = ["state interface delivers per topic in order with replay from the first message (internal bus: C15; Kafka: auto_offset_reset=earliest)"]


def configs():
    P = 5_000_000
    return [
        {"components": [dev("a", cb={"kind": "period", "p": P}), dev("b", {"i": ["a", "o"]}), dev("c", {"i": ["b", "o"], "j": ["a", "o"]})], "n_ticks": 3},
        {"components": [dev("src", cb={"kind": "period", "p": P}),
                        {"name": "sys", "kind": "sys", "inputs": {"x": ["src", "o"]}, "expose": {"y": ["in1", "o"]},
                         "components": [dev("in1", {"i": ["external", "x"]}), dev("in2", cb={"kind": "period", "p": 2 * P})]},
                        dev("sink", {"i": ["sys", "y"]})], "n_ticks": 3},
    ]


def compare(base, run_, scn, res, case):
    oa, ob = model.observations(base["trace"]), model.observations(run_["trace"])
    for d in sorted(set(oa) | set(ob)):
        if oa.get(d, []) != ob.get(d, []):
            x, y = oa.get(d, []), ob.get(d, [])
            k = next((i for i in range(min(len(x), len(y))) if x[i] != y[i]), min(len(x), len(y)))
            res.violate(V("start-order-dependent", f"device {d} observation #{k}: simultaneous start {x[k] if k < len(x) else None}, delayed start {y[k] if k < len(y) else None}",
                          site="observations", comp=d), case)
            return


def run(tier, seed, drv):
    res = Result()
    rng = random.Random(seed)
    maxd = 2 if tier == "quick" else 3
    for ci, scn in enumerate(configs()):
        procs = [""] + [c["name"] for c in scn["components"]]
        base = run_scenario(scn, bus="sync")
        SC.check_run(scn, base, drv, res, monitors_on=("initial_tick",), corr=("ticker",), case_extra={"bus": "sync"})
        dvals = (0, 1, 3) if tier == "quick" else (0, 1, 2, 3, 6)
        vectors = list(itertools.product(dvals, repeat=len(procs)))
        if tier == "quick" and len(vectors) > 60:
            vectors = [v for v in vectors if rng.random() < 60 / len(vectors)] + [tuple([3] + [0] * (len(procs) - 1)), tuple([0] + [3] * (len(procs) - 1))]
        for vec in vectors:
            delays = dict(zip(procs, vec))
            vi = vectors.index(vec)
            for b in ("sync", "internal", "held") + (("kafka",) if vi % 4 == 0 else ()):   # "internal" / "kafka" = tickit's own state interfaces (Kafka over an in-process broker)
                s2 = dict(copy.deepcopy(scn), start_delays=delays)
                sd = rng.randrange(1 << 30)
                run_ = run_scenario(s2, bus=b, seed=sd)
                case = {"scenario": s2, "bus": b, "held_seed": sd}
                res.case(f"{ci}:{vec}:{b}", nontrivial=any(vec), sample=case if len(res.samples) < 2 and any(vec) else None)
                res.count("master-late" if vec[0] > max(vec[1:]) else ("master-first" if vec[0] < min(vec[1:]) else "mixed"))
                n = SC.check_run(s2, run_, drv, res, monitors_on=("initial_tick", "ticker"), corr=("ticker",), case_extra=case)
                if n == 0:
                    compare(base, run_, scn, res, case)
                    if b in ("held", "kafka"):
                        # the history of subscriptions and deliveries (with these start delays) is an execution of the message-level model
                        SC.msg_level_accept(s2, run_, drv, res, case)
        # the same configuration from a configuration FILE, DIVIDED over several simulations on one bus (scheduler here,
        # components there; build_simulation + TickitSimulation.run()) whose start is staggered by 0-3 loop steps either way
        tops = [c["name"] for c in scn["components"]]
        divisions = [[{"scheduler": True, "components": "none"}, {"scheduler": False, "components": None}],
                     [{"scheduler": True, "components": tops[:1]}, {"scheduler": False, "components": tops[1:]}],
                     [{"scheduler": False, "components": tops[:-1]}, {"scheduler": True, "components": tops[-1:]}],
                     [{"scheduler": False, "components": [t]} for t in tops] + [{"scheduler": True, "components": "none"}]]
        for di, parts in enumerate(divisions):
            for vec in itertools.product((0, 1, 3), repeat=len(parts)):
                if len(parts) > 2 and rng.random() > (0.15 if tier == "quick" else 0.6):
                    continue
                for b in ("internal", "sync", "held"):
                    s2 = dict(copy.deepcopy(scn), t0=0, from_file=parts, start_delays={f"#part{k}": d for k, d in enumerate(vec)})
                    sd = rng.randrange(1 << 30)
                    run_ = run_scenario(s2, bus=b, seed=sd)
                    case = {"scenario": s2, "bus": b, "held_seed": sd}
                    res.case(f"{ci}:divided:{di}:{vec}:{b}", nontrivial=any(vec))
                    res.count("divided-staggered-start")
                    if SC.check_run(s2, run_, drv, res, monitors_on=("initial_tick", "ticker"), corr=("ticker",), case_extra=case) == 0:
                        compare(base, run_, scn, res, case)
        # early interrupts: a component that is already running raises before the late scheduler is up
        for late in range(2, maxd + 3):
            for who in [c["name"] for c in S.devices(scn)][:3]:
                for at, eb in itertools.product(range(1, late + 1), ("sync", "internal")):
                    s2 = dict(copy.deepcopy(scn), start_delays={"": late}, stims=[{"step": 1 + at, "comp": who}], n_ticks=4, t0=(0 if (late + at) % 2 else 7_000_000))
                    run_ = run_scenario(s2, bus=eb)
                    case = {"scenario": s2, "bus": eb, "early_interrupt": True}
                    raised = [e for e in run_["trace"].of("raise") if e.get("ok")]
                    res.case(f"{ci}:early:{late}:{who}:{at}:{eb}", nontrivial=bool(raised))
                    res.count("early-interrupt" if raised else "early-interrupt-not-raised")
                    n = SC.check_run(s2, run_, drv, res, monitors_on=("initial_tick", "ticker", "tick_times"), corr=("ticker",), case_extra=case)
                    if n == 0 and raised:
                        # the interrupt must be served: an update of `who` that begins after the raise
                        ups = [u for u in run_["trace"].of("update") if u["comp"] == who and u["n"] > raised[0]["n"]]
                        if not ups:
                            res.violate(V("early-interrupt-lost", f"{who} raised an interrupt before the scheduler came up (delay {late}) and was never updated afterwards", site="early-interrupt", comp=who), case)
                        # ... and the run proceeds as if all had started together: in a simultaneous start
                        # an interrupt raised that early arrives during the initial tick and is served by a
                        # tick of its own at the initial time; the late scheduler must do the same
                        n_at_t0 = len([u for u in run_["trace"].of("update") if u["comp"] == who and u["time"] == s2["t0"]])
                        same = run_scenario(dict(copy.deepcopy(scn), stims=s2["stims"], n_ticks=4, t0=s2["t0"]), bus=eb)
                        raised_same = [e for e in same["trace"].of("raise") if e.get("ok")]
                        if raised_same:
                            m_at_t0 = len([u for u in same["trace"].of("update") if u["comp"] == who and u["time"] == s2["t0"]])
                            if n_at_t0 < m_at_t0:
                                res.violate(V("start-order-dependent", f"{who}: {m_at_t0} updates at the initial time when all start together, {n_at_t0} when the scheduler starts {late} steps late (early interrupt not served by its own tick)",
                                              site="early-interrupt", comp=who), case)
    # an interrupt of a device INSIDE a system simulation a few loop steps after the start, for combinations of start
    # delays of the master and of the system component: it may land before, inside or after the system's own initial
    # tick; it must be served (the run proceeds as if all had started together).  The configuration is one in which
    # nothing asks for a callback: a lost interrupt is not covered up by an unrelated later tick of the system.
    quiet = {"components": [{"name": "qsys", "kind": "sys", "inputs": {}, "expose": {"y": ["qin", "o"]},
                             "components": [dev("qin"), dev("qdown", {"i": ["qin", "o"]})]},
                            dev("qsink", {"i": ["qsys", "y"]})], "n_ticks": 2}
    for ci, scn in [(len(configs()), quiet)]:
        for sysc in [c for c in scn["components"] if c["kind"] == "sys"]:
            inner = [d["name"] for d in sysc["components"] if d["kind"] == "dev"][:2]
            md_vals, sd_vals = ((0, 2, 5), (0, 3, 6)) if tier == "quick" else ((0, 1, 2, 3, 5, 6), (0, 1, 2, 3, 4, 6))
            for md, sdl, step, who in itertools.product(md_vals, sd_vals, range(1, 13 if tier == "quick" else 22), inner):
                s2 = dict(copy.deepcopy(scn), start_delays={"": md, sysc["name"]: sdl}, stims=[{"step": 1 + step, "comp": who}], n_ticks=2)
                run_ = run_scenario(s2, bus="sync")
                case = {"scenario": s2, "bus": "sync", "inner_early_interrupt": True}
                raised = [e for e in run_["trace"].of("raise") if e.get("ok")]
                res.case(f"{ci}:inner-early:{md}:{sdl}:{step}:{who}", nontrivial=bool(raised))
                res.count("inner-early-interrupt" if raised else "inner-early-interrupt-not-raised")
                n = SC.check_run(s2, run_, drv, res, monitors_on=("ticker", "tick_times"), corr=("ticker",), case_extra=case)
                if n == 0 and raised:
                    ups = [u for u in run_["trace"].of("update") if u["comp"] == who and u["n"] > raised[0]["n"]]
                    if not ups:
                        res.violate(V("early-interrupt-lost", f"{who} (inside {sysc['name']}) raised an interrupt at loop step {1 + step} with start delays master={md} "
                                      f"{sysc['name']}={sdl} and was never updated afterwards", site="early-interrupt", comp=who, inner=True), case)
    res.rule = (f"2 configurations (3-device diamond-ish chain; source -> system(2 inner devices) -> sink); every assignment of start delays 0..{maxd} loop "
                "steps to the master and each top-level component" + (" (sampled to ~60 vectors per configuration in the quick tier, extremes always included)" if tier == "quick" else "") +
                ", under internal-bus semantics and a delaying bus; plus interrupts raised at each step before a scheduler that starts 2.." + str(maxd + 2) +
                " steps late; plus interrupts of devices inside the system simulation at each of the first loop steps for combinations of master and system "
                "start delays; non-trivial = some delay is non-zero / the early interrupt was raised")
    return res


def replay(payload, drv):
    c = payload["case"]
    scn = c["scenario"]
    res = Result()
    run_ = run_scenario(scn, bus=c.get("bus", "sync"), seed=c.get("held_seed", 0))
    SC.check_run(scn, run_, drv, res, monitors_on=("initial_tick", "ticker"), corr=("ticker",))
    if not c.get("early_interrupt"):
        base = run_scenario(dict(scn, start_delays={}), bus="sync")
        compare(base, run_, scn, res, c)
    return {"violations": [v["record"] for v in res.violations], "divergences": res.divergences[:3]}
