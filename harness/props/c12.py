"""C12 — simulation time is paced against real time by the configured speed."""
import asyncio
import copy
import random

import monitors
import scenario as S
from sim import run_scenario

from .base import Result, V
from . import simcommon as SC

MODULES = ['TickitModel.Props.C12Cost', "TickitModel.Props.C12", "TickitModel.Props.C12Run"]
THEOREMS = ["never_early", "exact_when_free", "late_immediate", "stamp_law", "interrupt_due_now", "linear_step_callback", "linear_step_interrupt",
            "run_never_early", "run_step_law", "run_linear_law", "run_linear_exact_of_dvd", "run_linear_exact", "run_stamp_law", "stamp_written",
            "masterRunC_zero_cost", "masterInitialC_zero_cost", "zero_cost_instance", "runC_linear_law_zero_cost", "runC_never_early", "runC_step_computed", "runC_step_zero_cost",
            "runC_never_ahead", "runC_lag_bound_of_mono", "runC_lag_bound", "runC_lag_simtime", "runC_linear_exact_of_dvd", "runC_linear_exact", "stampC_written", "runC_stamp_law", "runC_stamp_formula", "runC_stim_now"]
ANCHORS = ["src/tickit/core/management/schedulers/master.py"]
TECHNIQUE = "Lean 4 theorems (exact integer/rational arithmetic of sleep_time and the interrupt stamp: never early for any processing cost, exact when free, stamp = floor law, linear law by induction) + differential run of MasterScheduler.sleep_time / schedule_interrupt and whole-simulation timing under a virtual clock against the model"
LEVEL_TEXT = ("Full-strength theorems over the pacing model for every positive rational speed, all times and all processing costs: the tick for t is due "
              "no earlier than last + (t - t_prev)/speed and never before now; exactly then when the wait is a whole number of ns and not overdue; an "
              "interrupt arriving at real time r is stamped t_prev + floor((r - last)*speed) and its own tick is due at once; the linear law "
              "simTime - t0 = speed*(real - r0) is preserved by callback and interrupt ticks (integral products). RUN LEVEL (Props/C12Run, whole-simulation model at zero processing cost, any configuration and depth, with stimuli): at every tick simulation time is never ahead of real time - between consecutive ticks and cumulatively from the start (run_never_early); with callbacks only it lags by at most k*(num-1)/num ns after k ticks (each sleep is rounded up to a whole ns; the bound is attained) and the law is EXACT when the waits are integral, e.g. for every speed 1/den (run_linear_law, run_linear_exact); every handled stimulus is stamped by the stamp law, never ahead of real time, and the next tick starts at the very real time it arrived - its own tick with the interrupting component as a root, or the tick of an earlier wakeup (run_stamp_law). Tied to master.py by (i) a "
              "differential run of the real sleep_time / schedule_interrupt on generated (when, ticker.time, last_time, now, speed) with dyadic speeds "
              "and (ii) whole simulations under the virtual clock, with and without processing cost, whose tick start times must equal the model's. "
              "Float rounding of the real computation is outside the model (inputs are chosen so that the floats are exact). WITH ARBITRARY PROCESSING COSTS (Core/SimCost: the master loop in which the k-th tick takes cost k ns of real time and a stimulus arriving during a tick is stamped relative to that tick's start; Props/C12Cost): with all costs 0 it IS the zero-cost model (masterRunC_zero_cost); for every configuration, speed, cost function and stimuli a tick never starts before the previous one ended plus ceil(dt*den/num) unless it is overdue, in which case it starts at once, exactly as sleep_time computes it (runC_never_early, runC_step_computed); simulation time never runs ahead of scaled real time (runC_never_ahead) and lags it by the accumulated costs scaled by the speed plus at most k*(num-1)/den of rounding - bounds that are attained (runC_lag_bound, runC_lag_simtime, runC_linear_exact); every handled stimulus obeys the floor law relative to the end of the last tick (between ticks) or to the start of the tick in progress (mid-tick) (runC_stamp_law, runC_stamp_formula). The cost model is compared with the real scheduler on generated flat runs with per-update costs, speeds 1, 2, 1/2, 4, 1/4, 3/2 and stimuli between and in the middle of ticks (tick times, real start times and roots must be equal; stimuli raised at exactly the clock reading of a tick boundary are excluded: the code goes by event order there, the model by the clock).")
LEVEL_ADDENDUM = 'Session 8: waits of 10 s ... 1 h of simulated time between ticks at speeds 1/4, 1/2, 1, 3/2, 2 and generated timed scenarios at second / minute scale; the comparison of real tick starts with the exact model tolerates the float rounding of such waits (at most 1 ns per tick beyond 2 s of real time; the never-early monitor is exact).'
LEVEL_NOTE = "Trusts: Lean kernel; hand-written pacing model; the virtual-clock loop (quantised to integer ns); float arithmetic of sleep_time is exact only for dyadic speeds and times < 2^53 ns (generator restriction, stated in DESIGN.md)."
ASSUMPTIONS = ["speeds are positive dyadic rationals in the runs", "interrupts are compared when they arrive between ticks; mid-tick arrival is C07's subject"]
SPEEDS = [[1, 1], [2, 1], [1, 2], [4, 1], [1, 4], [8, 1]]


def pacing_diff(rng, n, drv, res):
    """real MasterScheduler.sleep_time / schedule_interrupt vs model arithmetic"""
    import time as _time
    from tickit.core.management.event_router import InverseWiring
    from tickit.core.management.schedulers import master as master_mod
    from tickit.core.management.schedulers.master import MasterScheduler
    cases, reals = [], []
    loop = asyncio.new_event_loop()
    asyncio.set_event_loop(loop)
    for _ in range(n):
        num, den = rng.choice(SPEEDS)
        tt = rng.choice((0, 5_000_000, 123, -7_000))
        last = rng.randrange(0, 10**9)
        now = last + rng.choice((0, 0, 1, 1000, 250_000, 3_000_000))
        k = rng.randrange(0, 2000) * num  # (when - tt) divisible by num -> whole ns
        when = tt + k * rng.choice((1, 1, 1000))
        cases.append({"op": "pacing", "num": num, "den": den, "ticker_time": tt, "last": last, "now": now, "when": when})

        sched = MasterScheduler(InverseWiring({}), object, object, simulation_speed=num / den)
        try:
            # a REAL ticker between ticks (whatever the scheduler asks of it is answered by tickit's own class)
            from tickit.core.management.ticker import Ticker
            sched.ticker = Ticker(sched._wiring, sched.update_component, sched.skip_component)
        except Exception:   # noqa: BLE001 - constructor shape changed: fall back to the minimum the arithmetic needs
            class _T:
                pass
            sched.ticker = _T()
        sched.ticker.time = tt
        sched.last_time = last
        sched.new_wakeup = asyncio.Event()
        saved = (master_mod.time_ns, _time.time_ns)
        master_mod.time_ns = lambda now=now: now
        _time.time_ns = master_mod.time_ns
        try:
            st = sched.sleep_time(when)
            loop.run_until_complete(sched.schedule_interrupt("x"))
            stamp = sched.wakeups["x"]
        except Exception as e:   # noqa: BLE001 - the scheduler cannot be driven in isolation like this (any more): the timed simulations below still decide
            st, stamp = None, None
            if not any("pacing arithmetic in isolation" in n for n in res.notes):
                res.notes.append(f"pacing arithmetic in isolation not compared: {type(e).__name__}: {e}")
        finally:
            master_mod.time_ns, _time.time_ns = saved
        reals.append((st, stamp))
    loop.close()
    asyncio.set_event_loop(None)
    reps = drv.eval(cases)
    for c, (st, stamp), rep in zip(cases, reals, reps):
        if st is None:
            continue
        res.case(str(c), nontrivial=c["now"] != c["last"], sample=dict(c, impl_sleep_s=st, impl_stamp=stamp, model=rep))
        res.count("pacing-arith")
        sleep_ns = round(st * 1e9)
        exp_sleep = rep["sleep_numer"] / c["num"]
        if abs(sleep_ns - exp_sleep) > 0.5:
            res.diverge(f"sleep_time: impl {sleep_ns}ns model {exp_sleep}ns", c)
        if stamp != rep["stamp"]:
            res.diverge(f"interrupt stamp: impl {stamp} model {rep['stamp']}", c)
        # the property, directly: never early
        due = c["now"] + max(0, sleep_ns)
        if (due - c["last"]) * c["num"] < (c["when"] - c["ticker_time"]) * c["den"]:
            res.violate(V("tick-started-early", f"sleep_time({c}) = {st}s is too short", site="MasterScheduler.sleep_time"), c)
        exp_stamp = c["ticker_time"] + ((c["now"] - c["last"]) * c["num"]) // c["den"]
        if stamp != exp_stamp:
            res.violate(V("interrupt-stamp-wrong", f"stamp {stamp}, floor law gives {exp_stamp} for {c}", site="MasterScheduler.schedule_interrupt"), c)


def long_wait_scenarios():
    """waits of tens of seconds up to minutes of real time between ticks, at several speeds (a callback 50 s ahead is
    100 s of real time away at speed 1/2, 25 s at speed 2): the pacing law does not depend on the length of the wait"""
    from .c07 import dev
    out = []
    S_ = 1_000_000_000
    for num, den in ([1, 2], [1, 4], [2, 1], [1, 1], [3, 2]):
        for p in (10 * S_, 45 * S_, 50 * S_, 70 * S_, 150 * S_, 3600 * S_):
            out.append({"components": [dev("far", cb={"kind": "period", "p": p * num}), dev("dep", {"i": ["far", "o"]}),
                                       dev("other", cb={"kind": "list", "delays": [7 * S_ * num, None]})],
                        "speed": [num, den], "t0": 0, "n_ticks": 4})
    return out


def timed_scenarios(rng, tier):
    out = long_wait_scenarios()
    for i in range(24 if tier == "quick" else 240):
        scn = S.gen_flat(rng, callbacks=True, max_n=5) if i % 3 else S.gen_nested(rng, depth=2, max_n=5)
        num, den = rng.choice(SPEEDS)
        scn["speed"] = [num, den]
        scn["t0"] = rng.choice((0, 4_000_000, 8_000))
        # periods are multiples of 1 ms and of num -> whole ns waits
        for d in S.devices(scn):
            cb = d["beh"].get("cb", {})
            if cb.get("kind") == "period":
                cb["p"] = cb["p"] * num
            elif cb.get("kind") == "list":
                cb["delays"] = [None if x is None else x * num for x in cb["delays"]]
            if i % 2:
                d["beh"]["cost"] = rng.choice((0, 0, 50_000, 300_000))
        if i % 6 == 0:
            # the same at the scale of seconds / minutes: waits of more than a minute of REAL time between ticks (at speeds
            # below 1 a callback 50 s ahead is 100 s away)
            t0 = scn["t0"]
            scn = S.rescale_times(scn, rng.choice((1_000, 10_000, 20_000, 60_000)), rng)
            scn["t0"] = t0
            for d in S.devices(scn):   # keep waits whole numbers of ns at this speed
                cb = d["beh"].get("cb", {})
                if cb.get("kind") == "period":
                    cb["p"] = cb["p"] - cb["p"] % num
        devs = [d["name"] for d in S.devices(scn)]
        if i % 4 == 1:
            scn["stims"] = [{"real": k * 700_000 * den + 333 * den, "comp": rng.choice(devs)} for k in rng.sample(range(1, 9), rng.randrange(1, 3))]
            scn["stims"].sort(key=lambda s: s["real"])
        scn["n_ticks"] = rng.randrange(3, 7)
        out.append(scn)
    return out


def midtick_scenarios(rng, tier):
    from .c07 import dev
    out = []
    for num, den in ([1, 1], [2, 1], [1, 2]):
        P = 600_000_000 * num
        for off in (30_000_000, 750_000_000, 810_000_000, 1_260_000_000):
            scn = {"components": [dev("p", cb={"kind": "period", "p": P}, cost=60_000_000), dev("q", {"i": ["p", "o"]}, cost=60_000_000), dev("x", cost=0)],
                   "speed": [num, den], "n_ticks": 6, "stims": [{"real": off * den // num if False else off, "comp": "x"}], "max_steps": 4000}
            out.append(scn)
    return out


def cost_scenarios(rng, tier):
    """flat chains with per-update processing costs, speeds != 1, stimuli between ticks and in the middle of ticks, on the
    quiet device and on the periodic one (whose pending callback is not displaced)"""
    from .c07 import dev
    out = []
    for _ in range(30 if tier == "quick" else 300):
        num, den = rng.choice(([1, 1], [2, 1], [1, 2], [4, 1], [1, 4], [3, 2]))
        P = rng.choice((5, 8, 13)) * 1_000_000 * num
        c = rng.choice((100_000, 700_000, 2_000_000))
        nst = rng.randrange(1, 5)
        stims = sorted([{"real": rng.randrange(1, 40) * 777_001 + rng.randrange(1000), "comp": rng.choice(("x", "x", "p", "r"))} for _ in range(nst)], key=lambda s_: s_["real"])
        out.append({"components": [dev("p", cb={"kind": "period", "p": P}, cost=c), dev("q", {"i": ["p", "o"]}, cost=c), dev("r", {"i": ["q", "o"]}, cost=c // 2), dev("x", cost=0)],
                    "speed": [num, den], "n_ticks": rng.randrange(4, 8), "stims": stims, "max_steps": 6000})
    return out


def early_scenarios():
    from .c07 import dev
    out = []
    for num, den in ([1, 1], [2, 1], [1, 2]):
        for late, at in ((6, 3), (6, 4), (8, 5)):
            out.append({"components": [dev("x"), dev("a", cb={"kind": "period", "p": 200_000_000 * num})], "speed": [num, den], "t0": 5_000_000_000,
                        "n_ticks": 4, "start_delays": {"": late}, "stims": [{"step": at, "comp": "x"}]})
    # ... followed by LATER interrupts of the same (otherwise quiet) component: they are stamped with the simulation
    # time that corresponds to their own arrival, whatever was recorded for the early one
    for num, den in ([1, 1], [2, 1], [1, 2]):
        for late, at in ((6, 3), (8, 5)):
            out.append({"components": [dev("x"), dev("a", cb={"kind": "period", "p": 500_000_000 * num})], "speed": [num, den], "t0": 5_000_000_000,
                        "n_ticks": 5, "start_delays": {"": late}, "monitor_stamps": True,
                        "stims": [{"step": at, "comp": "x"}, {"real": 120_000_111, "comp": "x"}, {"real": 310_000_111, "comp": "x"}]})
    return out



def clock_tie(run_):
    """a stimulus raised at exactly the clock reading at which a master tick ended, or at which a tick had already
    started: the code goes by event order there, the cost model by the clock"""
    mt_ = monitors.master_tid(run_)
    dones = [(e["real"], e["n"]) for e in run_["trace"].of("t-done") if e["tid"] == mt_]
    calls = [(e["real"], e["n"]) for e in run_["trace"].of("t-call") if e["tid"] == mt_]
    rs = run_["trace"].of("raise")
    # raised before the tick's end was recorded, at the same clock reading (code: mid-tick, model: after the tick), or
    # after a tick had started at the same clock reading (code: mid-tick at +0, model: before the tick)
    return any(r["real"] == real and r["n"] < n for r in rs for real, n in dones) or any(r["real"] == real and n < r["n"] for r in rs for real, n in calls)


def run(tier, seed, drv):
    res = Result()
    rng = random.Random(seed)
    for scn in early_scenarios():
        run_ = run_scenario(scn, bus="sync")
        res.case(SC.scn_key(scn), nontrivial=True)
        res.count("early-interrupt-nonzero-t0")
        SC.check_run(scn, run_, drv, res, monitors_on=("pacing", "tick_times", "linear_law") + (("interrupt_stamp", "interrupts") if scn.get("monitor_stamps") else ()),
                     corr=("ticker",), case_extra={"bus": "sync"})
    n_mid = len(midtick_scenarios(rng, tier))
    for k_, scn in enumerate(midtick_scenarios(rng, tier) + cost_scenarios(rng, tier)):
        run_ = run_scenario(scn, bus="sync")
        res.case(SC.scn_key(scn), nontrivial=True)
        res.count("mid-tick-interrupt")
        # flat, with costs: the whole run (tick times, real start times, roots - hence every stamp) against the cost model
        costable = not clock_tie(run_)
        res.count("cost-model-compared" if costable else "cost-model-not-applicable")
        # (the generated cost scenarios stop after a fixed number of ticks, possibly before a late stimulus is served: no service monitor there)
        SC.check_run(scn, run_, drv, res, monitors_on=("pacing", "interrupt_stamp") + (("interrupts",) if k_ < n_mid else ()), corr=("ticks",) if costable else (), case_extra={"bus": "sync"},
                     with_real=costable, with_costs=costable)
    # an interrupt of a device that is still WAITING for its upstream in the tick in progress (injected at every loop step of
    # a tick whose upstream updates take real time): the update it gets in that tick, at the tick's time, does not stand for
    # the arrival time
    from .c07 import dev as dev7
    for num, den in ([2, 1], [1, 1], [1, 2]):
        P_ = 20_000_000 * num
        scn = {"components": [dev7("slow", cb={"kind": "period", "p": P_}, cost=300_000), dev7("mid", {"i": ["slow", "o"]}, cost=300_000),
                              dev7("wdev", {"i": ["mid", "o"]}, cost=50_000), dev7("other", cost=0)], "speed": [num, den], "n_ticks": 4, "max_steps": 6000}
        base = run_scenario(scn, bus="sync")
        mt0 = monitors.master_tid(base)
        c2 = [e for e in base["trace"].of("t-call") if e["tid"] == mt0]
        d2 = [e for e in base["trace"].of("t-done") if e["tid"] == mt0]
        if len(c2) >= 2 and len(d2) >= 2:
            for st in range(c2[1]["step"], d2[1]["step"] + 2):
                for who in ("wdev", "mid"):
                    s2 = dict(copy.deepcopy(scn), stims=[{"step": st, "comp": who}], n_ticks=5)
                    run_ = run_scenario(s2, bus="sync")
                    res.case(f"waiting:{num}/{den}:{st}:{who}", nontrivial=bool([e for e in run_["trace"].of("raise") if e.get("ok")]))
                    res.count("interrupt-while-waiting-in-tick")
                    SC.check_run(s2, run_, drv, res, monitors_on=("pacing", "interrupt_stamp", "interrupt_time_served"), corr=(), case_extra={"bus": "sync"})
    pacing_diff(rng, 400 if tier == "quick" else 5000, drv, res)
    for i, scn in enumerate(SC.corpus_scenarios() + timed_scenarios(rng, tier)):
        SC.stats_into(res, scn)
        zero_cost = all(d["beh"].get("cost", 0) == 0 for d in S.devices(scn))
        run_ = run_scenario(scn, bus="sync")
        res.case(SC.scn_key(scn), nontrivial=len(run_["trace"].of("t-call")) > 1,
                 sample={"scenario": scn} if i < 1 else None)
        res.count("zero-cost" if zero_cost else "with-cost")
        res.count("with-interrupts" if scn.get("stims") else "callbacks-only")
        # with processing costs the run is compared with the cost model (Core/SimCost): flat configurations, no stimulus
        # exactly at the end instant of a tick (there the code goes by event order, the model by the clock)
        # (the whole-simulation model records a component's answer with the plain wakeup rule; the master's guard "a pending
        # interrupt is not displaced by a later callback request" matters only when a tick for an EARLIER, overdue time updates an
        # interrupted device as a dependant and that device asks for a callback - possible only with processing costs; such
        # runs are left to the monitors)
        risky = any(d["inputs"] and d["beh"].get("cb", {}).get("kind", "none") != "none" and any(st["comp"] == d["name"] for st in scn.get("stims", []))
                    for d in S.devices(scn))
        costable = (not zero_cost) and not S.systems(scn) and not clock_tie(run_) and not risky
        res.count("cost-model-compared" if costable else ("cost-model-not-applicable" if not zero_cost else "zero-cost-model"))
        SC.check_run(scn, run_, drv, res, monitors_on=("pacing", "interrupt_stamp"), corr=("ticks",) if (zero_cost or costable) else (),
                     case_extra={"bus": "sync"}, with_real=zero_cost or costable, with_costs=costable)
    res.rule = ("(i) generated (when, ticker.time, last_time, now, speed) tuples, dyadic speeds 1/4..8, fed to the real MasterScheduler.sleep_time and "
                "schedule_interrupt with a patched clock and compared with the Lean arithmetic; (ii) generated flat/nested simulations with those speeds, "
                "non-zero initial times, callbacks, interrupts between ticks, with and without per-update processing cost, run under the virtual clock: "
                "tick start times equal the model's (zero cost) and are never early (any cost); non-trivial = now != last / more than one tick")
    return res


def replay(payload, drv):
    c = payload["case"]
    res = Result()
    if "scenario" in c:
        run_ = run_scenario(c["scenario"], bus="sync")
        SC.check_run(c["scenario"], run_, drv, res, monitors_on=("pacing", "interrupt_stamp"), corr=(), with_real=False)
    return {"violations": [v["record"] for v in res.violations], "divergences": res.divergences[:3]}
