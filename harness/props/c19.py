"""C19 — the ZeroMQ push stream preserves order and creates one socket."""
import asyncio
import json
import random

from .base import Result, V
from vloop import run_virtual

MODULES = ["TickitModel.Props.C19", 'TickitModel.Props.C19Cancel']
THEOREMS = ["one_socket", "queued_in_order_once", "direct_in_order", "serialize_parts", "serialize_bytes",
            'one_socket_cancel', 'socket_never_replaced', 'lock_never_orphaned', 'cancel_does_not_block', 'ensure_gets_socket', 'queued_in_order_once_cancel', 'direct_in_order_cancel', 'cancelled_never_writes', 'direct_all_written_cancel', 'queue_all_written_cancel', 'cancel_free_is_base', 'base_is_cancel_free', 'exec_is_run', 'seeded_one_cancel_kills_stream']
ANCHORS = ["src/tickit/adapters/zmq.py", "src/tickit/adapters/io/zeromq_push_io.py"]
TECHNIQUE = "Lean 4 theorems (invariant over every interleaving of the push-stream transition system: socket factory called at most once; queued messages written once each in queue order; direct sequences in their own order; part-wise serialisation) + seeded interleavings of the real ZeroMqPushIo/Adapter with a fake socket factory under the virtual clock, compared with the model"
LEVEL_TEXT = ("Full-strength theorems over a small-step model with explicit yield points (FIFO lock acquisition, socket-factory latency, write, drain latency) "
              "for every interleaving of queueing, directly spawned send sequences and the set-up call: the factory is called at most once, exactly "
              "once when anything was written; what the queue loop wrote + what it holds + the queue = everything ever queued, in order; each direct "
              "sequence is written in its own order; serialisation is part by part with bytes unchanged. Tied to zeromq_push_io.py / zmq.py by "
              "running the real classes with a fake socket factory whose creation and drain latencies are drawn from the seeded scheduler under the "
              "virtual loop; the recorded writes are compared with the property directly and the number of factory calls with the model. "
              "json.dumps of str/mapping parts is the model's parameter (compared for generated values, no floats). CANCELLATION (Core/ZmqCancel, Props/C19Cancel): the transition system extended by `cancel k` for every suspended sender (a cancelled waiter leaves the lock queue, a holder cancelled inside the factory releases the lock and leaves no socket): for EVERY history with any number of cancellations at most one factory call ever completes and the socket is never replaced (one_socket_cancel, socket_never_replaced), the lock is never orphaned, a cancelled sender never prevents a non-cancelled one from writing (cancel_does_not_block, ensure_gets_socket: a finite cancel-free continuation exists from every reachable state), written ++ in-hand ++ pending = queued / origin for queue and direct senders (exactly-once in order, at most once for cancelled senders), histories without cancel are exactly those of the base system (cancel_free_is_base, base_is_cancel_free); the shared un-shielded future variant provably loses the stream after one cancellation (seeded_one_cancel_kills_stream). Cancellation is taken as atomic at its linearisation point (asyncio delivers it when the task next runs): an informal argument, not a theorem.")
LEVEL_ADDENDUM = "Session 8: the peer's pace is drawn per run from microseconds to SECONDS per accepted message (virtual time); parts outside the serialisation rule are rejected with nothing written."
LEVEL_NOTE = "Trusts: Lean kernel; hand-written transition system (asyncio.Lock modelled as FIFO); aiozmq/zmq are replaced by a fake stream; json.dumps is a parameter."
ASSUMPTIONS = ["asyncio.Lock is FIFO-fair", "message parts are bytes, str, mappings or pydantic models"]


class FakeSocket:
    def __init__(self, rng, log, scale=1):
        self.rng, self.log, self.scale = rng, log, scale

    def write(self, parts):
        # like aiozmq's transport, the socket keeps the very object it was handed (a message that
        # cannot be flushed at once is buffered by reference), so later mutation of it shows
        self.log.append(parts)

    async def drain(self):
        for _ in range(self.rng.choice((0, 0, 1, 3))):
            await asyncio.sleep(0)
        if self.rng.random() < 0.3:
            await asyncio.sleep(self.rng.choice((1e-6, 5e-6)) * self.scale)

    def close(self):
        pass


def one_run(seed, n_queue, n_direct_seqs):
    from tickit.adapters.io.zeromq_push_io import ZeroMqPushIo
    from tickit.adapters.zmq import ZeroMqPushAdapter
    rng = random.Random(seed)
    writes, calls = [], []
    # the peer's pace: microseconds, milliseconds, or SECONDS per accepted message / connection (virtual time) -
    # the property quantifies over every latency, and timeouts in the io would only show at the slow end
    scale = rng.choice((1, 1, 1, 1e3, 1e6, 3e6))

    async def factory(host, port):
        calls.append(1)
        for _ in range(rng.choice((0, 1, 2, 5))):
            await asyncio.sleep(0)
        if rng.random() < 0.5:
            await asyncio.sleep(rng.choice((1e-6, 3e-6, 1e-5)) * scale)
        return FakeSocket(rng, writes, scale)

    queued, direct = [], []
    # in some runs the adapter exists and has been handed its first messages BEFORE any event loop runs (a device that
    # queues a header from its constructor, as configurations are instantiated by build_simulation outside the loop)
    early = None
    n_early = 0
    if n_queue and rng.random() < 0.3:
        early = ZeroMqPushAdapter()
        n_early = rng.randrange(1, min(n_queue, 3) + 1)
        for i in range(n_early):
            msg = [b"q%d" % i, {"n": i}] if i % 2 else [b"q%d" % i]
            queued.append(msg)
            early.add_message_to_stream(msg)

    async def main(loop):
        io = ZeroMqPushIo(socket_factory=factory)
        adapter = early if early is not None else ZeroMqPushAdapter()
        start_first = rng.random() < 0.5
        tasks = []
        if start_first:
            tasks.append(asyncio.ensure_future(io.setup(adapter, None)))
        k = 0
        for i in range(n_early, n_queue):
            msg = [b"q%d" % i, {"n": i}] if i % 2 else [b"q%d" % i]
            queued.append(msg)
            adapter.add_message_to_stream(msg)
            if rng.random() < 0.4:
                await asyncio.sleep(0)
            if k < n_direct_seqs and rng.random() < 0.5:
                seq = [[b"d%d_%d" % (k, j)] for j in range(rng.randrange(1, 4))]
                direct.append(seq)
                io.send_message_sequence_soon(seq)
                k += 1
        while k < n_direct_seqs:
            seq = [[b"d%d_%d" % (k, j)] for j in range(rng.randrange(1, 4))]
            direct.append(seq)
            io.send_message_sequence_soon(seq)
            k += 1
        if not start_first:
            tasks.append(asyncio.ensure_future(io.setup(adapter, None)))
        if n_queue > 50:
            # a backlog that keeps being fed while it drains: further messages are queued at instants of their own while
            # earlier ones are still waiting behind the socket's latency
            for j in range(60):
                await asyncio.sleep(rng.choice((0, 0, 1e-6, 2e-6, 3e-6)) * scale)
                msg = [b"q%d" % (n_queue + j)]
                queued.append(msg)
                adapter.add_message_to_stream(msg)
        total = len(queued) + sum(len(s) for s in direct)
        for _ in range(4000):
            if len(writes) >= total:
                break
            await asyncio.sleep(1e-6 * scale)
        for _ in range(3):   # a write that is repeated after the stream looks complete must still show
            await asyncio.sleep(2e-6 * scale)
        await io.shutdown()
        return True

    res, loop = run_virtual(main, max_steps=400000 if n_queue > 1000 else 200000)
    return res, writes, len(calls), queued, direct



def cancel_run(seed):
    """the real ZeroMqPushIo with sender tasks CANCELLED at arbitrary suspension points (waiting for the lock, inside
    the socket factory, inside drain()); returns the list of property violations (statements of Props/C19Cancel)"""
    from tickit.adapters.io.zeromq_push_io import ZeroMqPushIo
    from tickit.adapters.zmq import ZeroMqPushAdapter
    rng = random.Random(seed)
    calls = {"started": 0, "completed": 0, "aborted": 0}
    socks, out, stats = [], [], {}

    class Sock:
        def __init__(self):
            self.w = []

        def write(self, m):
            self.w.append(m)

        async def drain(self):
            await asyncio.sleep(rng.choice([0, 1e-6, 3e-6]))

        def close(self):
            pass

    async def factory(host, port):
        calls["started"] += 1
        try:
            await asyncio.sleep(rng.choice([0.0, 5e-6, 2e-5]))
        except asyncio.CancelledError:
            calls["aborted"] += 1
            raise
        calls["completed"] += 1
        sk = Sock()
        socks.append(sk)
        return sk

    async def main(loop):
        io = ZeroMqPushIo(socket_factory=factory)
        ad = ZeroMqPushAdapter()
        tasks, seqs, queued, cancelled = {}, {}, [], set()
        n = 0
        tasks[0] = asyncio.ensure_future(io.send_messages_forever(ad))

        async def seq(msgs):
            for m in msgs:
                await io.send_message(m)
        for step in range(rng.randint(5, 25)):
            r = rng.random()
            if r < 0.3:
                n += 1
                m = [b"q%d" % n]
                queued.append(m)
                ad.add_message_to_stream(m)
            elif r < 0.55:
                k = len(tasks)
                msgs = []
                for _ in range(rng.randint(1, 3)):
                    n += 1
                    msgs.append([b"d%d" % n])
                seqs[k] = msgs
                tasks[k] = asyncio.ensure_future(seq(msgs))
            elif r < 0.65:
                k = len(tasks)
                seqs[k] = []
                tasks[k] = asyncio.ensure_future(io._ensure_socket())
            elif r < 0.85:
                k = rng.choice(list(tasks))
                if not tasks[k].done() and tasks[k].cancel():
                    cancelled.add(k)
            await asyncio.sleep(rng.choice([0, 0, 1e-6, 4e-6, 1e-5]))
        await asyncio.sleep(5e-4)
        stats.update(cancelled=len(cancelled), aborted=calls["aborted"])
        if calls["completed"] > 1 or len(socks) != calls["completed"]:
            out.append(V("socket-count", f"{calls['completed']} socket factory calls completed ({calls})", site="ZeroMqPushIo._ensure_socket", cancellation=True))
        w = socks[0].w if socks else []
        for k, msgs in seqs.items():
            mine = [m for m in w if m in msgs]
            if k not in cancelled:
                if not tasks[k].done() or tasks[k].exception() is not None:
                    out.append(V("sender-blocked", f"sender {k} was not cancelled but did not finish ({'pending' if not tasks[k].done() else repr(tasks[k].exception())}) after others were cancelled "
                                 f"({sorted(cancelled)}); factory calls {calls}", site="ZeroMqPushIo._ensure_socket", cancellation=True))
                elif mine != msgs:
                    out.append(V("direct-order", f"sender {k} (not cancelled) wrote {mine}, its messages are {msgs}", site="ZeroMqPushIo.send_message", cancellation=True))
            elif mine != msgs[:len(mine)]:
                out.append(V("direct-order", f"cancelled sender {k} wrote {mine}, not a prefix of {msgs}", site="ZeroMqPushIo.send_message", cancellation=True))
        qw = [m for m in w if m in queued]
        if (0 not in cancelled and qw != queued) or qw != queued[:len(qw)]:
            out.append(V("queue-order", f"queued writes {qw}, queued {queued} (forwarding task cancelled: {0 in cancelled})", site="ZeroMqPushIo.send_messages_forever", cancellation=True))
        if len(w) != len({id(m) for m in w}):
            out.append(V("write-count", "a message was written twice", site="ZeroMqPushIo", cancellation=True))
        if io._socket_lock.locked():
            out.append(V("sender-blocked", "the socket lock is still held after every sender has finished", site="ZeroMqPushIo._ensure_socket", cancellation=True))
        tasks[0].cancel()
        return True
    r, _ = run_virtual(main, max_steps=200000)
    if r[0] != "ok":
        out.append(V("run-did-not-complete", str(r), site="run", cancellation=True))
    return out, stats

def serial(msg):
    """the fixed rule: bytes as they are, strings and mappings as JSON, models as the JSON of their dict"""
    return [p if isinstance(p, bytes) else json.dumps(p.dict() if hasattr(p, "dict") and not isinstance(p, dict) else p).encode("utf_8") for p in msg]


def run(tier, seed, drv):
    res = Result()
    rng = random.Random(seed)
    for i in range(150 if tier == "quick" else 2000):
        sd = rng.randrange(1 << 30)
        nq, nd = rng.randrange(0, 7), rng.randrange(0, 4)
        if i % 25 == 7:
            nq = rng.choice((70, 130, 300))   # a backlog: many messages queued while the socket is slow
        if i == 3:
            nq = 2500                         # ... and a very long one (whatever holds the backlog is not a small fixed-size buffer)
        r, writes, calls, queued, direct = one_run(sd, nq, nd)
        case = {"seed": sd, "n_queue": nq, "n_direct": nd}
        res.case(str(case), nontrivial=nq + nd > 1, sample={"case": case, "writes": [[p.decode("latin1") for p in w] for w in writes][:6], "factory_calls": calls} if len(res.samples) < 2 and nq and nd else None)
        res.count(f"direct_seqs={nd}")
        if r[0] != "ok":
            res.violate(V("run-did-not-complete", str(r), site="run"), case)
            continue
        if calls != 1:
            res.violate(V("socket-count", f"socket factory called {calls} times", site="ZeroMqPushIo._ensure_socket"), case)
        qw = [w for w in writes if w and w[0].startswith(b"q")]
        if qw != [serial(m) for m in queued]:
            res.violate(V("queue-order", f"queued writes {qw} expected {[serial(m) for m in queued]}", site="ZeroMqPushIo.send_messages_forever"), case)
        for k, seq in enumerate(direct):
            dw = [w for w in writes if w and w[0].startswith(b"d%d_" % k)]
            if dw != [serial(m) for m in seq]:
                res.violate(V("direct-order", f"direct sequence {k}: {dw} expected {seq}", site="ZeroMqPushIo.send_message_sequence_soon"), case)
        if len(writes) != len(queued) + sum(len(s) for s in direct):
            res.violate(V("write-count", f"{len(writes)} writes for {len(queued)} queued + {sum(len(s) for s in direct)} direct", site="ZeroMqPushIo"), case)
    # cancellation at arbitrary suspension points (the statements of Props/C19Cancel on the real io)
    for i in range(150 if tier == "quick" else 2000):
        sd = rng.randrange(1 << 30)
        vs, st = cancel_run(sd)
        res.case(f"cancel:{sd}", nontrivial=st.get("cancelled", 0) > 0)
        res.count("cancel-runs")
        res.count("cancellations", st.get("cancelled", 0))
        res.count("aborted-factory-calls", st.get("aborted", 0))
        for v in vs:
            res.violate(v, {"cancel_seed": sd})
    # model side: random interleavings of the transition system give one factory call as well,
    # and the abstract schedule "everything to completion" reproduces the queue order
    reqs = []
    for i in range(100 if tier == "quick" else 1000):
        acts = []
        n_s = 1
        for _ in range(rng.randrange(3, 40)):
            r = rng.random()
            if r < 0.2:
                acts.append({"a": "enqueue", "m": rng.randrange(100)})
            elif r < 0.3:
                acts.append({"a": "spawn", "msgs": [rng.randrange(100, 200) for _ in range(rng.randrange(1, 3))]})
                n_s += 1
            elif r < 0.35:
                acts.append({"a": "ensure"})
                n_s += 1
            else:
                acts.append({"a": "step", "i": rng.randrange(n_s)})
        reqs.append({"op": "zmq", "acts": acts})
    for rq, rep in zip(reqs, drv.eval(reqs)):
        res.case(str(rq), nontrivial=True)
        res.count("model-interleavings")
        if rep["factory_calls"] > 1:
            res.diverge(f"model run has {rep['factory_calls']} factory calls", rq)
    # serialisation of parts vs the rule
    from tickit.adapters.io.zeromq_push_io import ZeroMqPushIo
    io = ZeroMqPushIo(socket_factory=None)
    from pydantic.v1 import BaseModel

    class Status(BaseModel):
        enabled: object
        gain: object

    # values that compare (and hash) equal but serialise differently - 1 / True / 1.0, 0 / False / 0.0 - in equal-shaped
    # mappings and models, mappings that differ only in key order, a string that looks like a mapping's JSON
    vals = [b"", b"\x00\xff", "", "é\n\"", {"a": 1, "b": [True, None, "x"]}, {"é": {"n": -3}}, " ",
            {"s": 1}, {"s": True}, {"s": 1.0}, {"s": 0}, {"s": False}, {"s": 0.0}, {"s": None}, {"s": "1"}, {"a": 1, "b": 2}, {"b": 2, "a": 1},
            '{"s": 1}', b'{"s": 1}', Status(enabled=True, gain=2.0), Status(enabled=1, gain=2), Status(enabled=1.0, gain=2.0), {}, {"": ""}]
    for _ in range(200 if tier == "quick" else 3000):
        msg = [rng.choice(vals) for _ in range(rng.randrange(1, 5))]
        out = io._serialize(msg)
        res.case(("ser", repr(msg)))
        if out != serial(msg):
            res.violate(V("serialise", f"{msg} -> {out}", site="ZeroMqPushIo._serialize"), {"msg": repr(msg)})
    bad_parts(res)
    res.rule = ("seeded runs of the real ZeroMqPushIo + ZeroMqPushAdapter: 0-6 queued messages (some with mapping parts), 0-3 directly spawned sequences, "
                "set-up before or after queueing, fake socket factory and drain with random latencies (loop yields and virtual microseconds); checked: "
                "factory calls == 1, queued writes == queue order once each, each direct sequence in order, total writes; seeded runs in which sender tasks are CANCELLED at arbitrary suspension points (lock queue, socket factory, drain): at most one completed factory call, no non-cancelled sender blocked, order and at-most-once preserved; plus random action lists "
                "through the Lean transition system and part-wise serialisation of generated messages; non-trivial = more than one message")
    return res


def bad_parts(res):
    from tickit.adapters.io.zeromq_push_io import ZeroMqPushIo
    # parts outside the fixed rule (numbers, None, lists, tuples ...) are REJECTED: a message that contains one is written
    # to the socket neither in part nor as something else
    for bad in (3, 2.5, None, [b"x"], (b"x",), True, object()):
        for pos in (0, 1):
            msg = [b"ok", "s"]
            msg.insert(pos, bad)
            writes = []

            class Sock:
                def write(self, parts):
                    writes.append(parts)

                async def drain(self):
                    pass

                def close(self):
                    pass

            async def factory(host, port):
                return Sock()

            async def go(loop, msg=msg):
                io2 = ZeroMqPushIo(socket_factory=factory)
                try:
                    await io2.send_message(msg)
                    return "accepted"
                except TypeError:
                    return "TypeError"
                except Exception as e:   # noqa: BLE001
                    return type(e).__name__
            r, _ = run_virtual(go)
            res.case(("ser-bad", repr(bad), pos))
            res.count("unserialisable-part")
            if writes or r != ("ok", "TypeError"):
                res.violate(V("serialise", f"message {msg!r} with a part outside the rule: send_message -> {r}, written {writes!r}; expected TypeError and nothing written",
                              site="ZeroMqPushIo._serialize"), {"bad": repr(bad)})


def replay(payload, drv):
    c = payload["case"]
    if "bad" in c:
        r2 = Result()
        bad_parts(r2)
        return {"violations": [v["record"] for v in r2.violations]}
    if "cancel_seed" in c:
        vs, st = cancel_run(c["cancel_seed"])
        return {"stats": st, "violations": vs}
    if "seed" not in c:
        return {"violations": []}
    r, writes, calls, queued, direct = one_run(c["seed"], c["n_queue"], c["n_direct"])
    vs = []
    if calls != 1:
        vs.append(V("socket-count", f"{calls}"))
    if [w for w in writes if w and w[0].startswith(b"q")] != [serial(m) for m in queued]:
        vs.append(V("queue-order", str(writes)))
    return {"writes": [[p.decode("latin1") for p in w] for w in writes], "factory_calls": calls, "violations": vs}
