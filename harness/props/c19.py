"""C19 — the ZeroMQ push stream preserves order and creates one socket."""
import asyncio
import json
import random

from .base import Result, V
from vloop import run_virtual

MODULES = ["TickitModel.Props.C19"]
THEOREMS = ["one_socket", "queued_in_order_once", "direct_in_order", "serialize_parts", "serialize_bytes"]
ANCHORS = ["src/tickit/adapters/zmq.py", "src/tickit/adapters/io/zeromq_push_io.py"]
TECHNIQUE = "Lean 4 theorems (invariant over every interleaving of the push-stream transition system: socket factory called at most once; queued messages written once each in queue order; direct sequences in their own order; part-wise serialisation) + seeded interleavings of the real ZeroMqPushIo/Adapter with a fake socket factory under the virtual clock, compared with the model"
LEVEL_TEXT = ("Full-strength theorems over a small-step model with explicit yield points (FIFO lock acquisition, socket-factory latency, write, drain latency) "
              "for every interleaving of queueing, directly spawned send sequences and the set-up call: the factory is called at most once, exactly "
              "once when anything was written; what the queue loop wrote + what it holds + the queue = everything ever queued, in order; each direct "
              "sequence is written in its own order; serialisation is part by part with bytes unchanged. Tied to zeromq_push_io.py / zmq.py by "
              "running the real classes with a fake socket factory whose creation and drain latencies are drawn from the seeded scheduler under the "
              "virtual loop; the recorded writes are compared with the property directly and the number of factory calls with the model. "
              "json.dumps of str/mapping parts is the model's parameter (compared for generated values, no floats).")
LEVEL_NOTE = "Trusts: Lean kernel; hand-written transition system (asyncio.Lock modelled as FIFO); aiozmq/zmq are replaced by a fake stream; json.dumps is a parameter."
ASSUMPTIONS = ["asyncio.Lock is FIFO-fair", "message parts are bytes, str, mappings or pydantic models"]


class FakeSocket:
    def __init__(self, rng, log):
        self.rng, self.log = rng, log

    def write(self, parts):
        # like aiozmq's transport, the socket keeps the very object it was handed (a message that
        # cannot be flushed at once is buffered by reference), so later mutation of it shows
        self.log.append(parts)

    async def drain(self):
        for _ in range(self.rng.choice((0, 0, 1, 3))):
            await asyncio.sleep(0)
        if self.rng.random() < 0.3:
            await asyncio.sleep(self.rng.choice((1e-6, 5e-6)))

    def close(self):
        pass


def one_run(seed, n_queue, n_direct_seqs):
    from tickit.adapters.io.zeromq_push_io import ZeroMqPushIo
    from tickit.adapters.zmq import ZeroMqPushAdapter
    rng = random.Random(seed)
    writes, calls = [], []

    async def factory(host, port):
        calls.append(1)
        for _ in range(rng.choice((0, 1, 2, 5))):
            await asyncio.sleep(0)
        if rng.random() < 0.5:
            await asyncio.sleep(rng.choice((1e-6, 3e-6, 1e-5)))
        return FakeSocket(rng, writes)

    queued, direct = [], []

    async def main(loop):
        io = ZeroMqPushIo(socket_factory=factory)
        adapter = ZeroMqPushAdapter()
        start_first = rng.random() < 0.5
        tasks = []
        if start_first:
            tasks.append(asyncio.ensure_future(io.setup(adapter, None)))
        k = 0
        for i in range(n_queue):
            msg = [b"q%d" % i, {"n": i}] if i % 2 else [b"q%d" % i]
            queued.append(msg)
            adapter.add_message_to_stream(msg)
            if rng.random() < 0.4:
                await asyncio.sleep(0)
            if k < n_direct_seqs and rng.random() < 0.5:
                seq = [[b"d%d_%d" % (k, j)] for j in range(rng.randrange(1, 4))]
                direct.append(seq)
                io.send_message_sequence_soon(seq)
                k += 1
        while k < n_direct_seqs:
            seq = [[b"d%d_%d" % (k, j)] for j in range(rng.randrange(1, 4))]
            direct.append(seq)
            io.send_message_sequence_soon(seq)
            k += 1
        if not start_first:
            tasks.append(asyncio.ensure_future(io.setup(adapter, None)))
        total = n_queue + sum(len(s) for s in direct)
        for _ in range(4000):
            if len(writes) >= total:
                break
            await asyncio.sleep(1e-6)
        await io.shutdown()
        return True

    res, loop = run_virtual(main, max_steps=200000)
    return res, writes, len(calls), queued, direct


def serial(msg):
    """the fixed rule: bytes as they are, strings and mappings as JSON, models as the JSON of their dict"""
    return [p if isinstance(p, bytes) else json.dumps(p.dict() if hasattr(p, "dict") and not isinstance(p, dict) else p).encode("utf_8") for p in msg]


def run(tier, seed, drv):
    res = Result()
    rng = random.Random(seed)
    for i in range(150 if tier == "quick" else 2000):
        sd = rng.randrange(1 << 30)
        nq, nd = rng.randrange(0, 7), rng.randrange(0, 4)
        r, writes, calls, queued, direct = one_run(sd, nq, nd)
        case = {"seed": sd, "n_queue": nq, "n_direct": nd}
        res.case(str(case), nontrivial=nq + nd > 1, sample={"case": case, "writes": [[p.decode("latin1") for p in w] for w in writes][:6], "factory_calls": calls} if len(res.samples) < 2 and nq and nd else None)
        res.count(f"direct_seqs={nd}")
        if r[0] != "ok":
            res.violate(V("run-did-not-complete", str(r), site="run"), case)
            continue
        if calls != 1:
            res.violate(V("socket-count", f"socket factory called {calls} times", site="ZeroMqPushIo._ensure_socket"), case)
        qw = [w for w in writes if w and w[0].startswith(b"q")]
        if qw != [serial(m) for m in queued]:
            res.violate(V("queue-order", f"queued writes {qw} expected {[serial(m) for m in queued]}", site="ZeroMqPushIo.send_messages_forever"), case)
        for k, seq in enumerate(direct):
            dw = [w for w in writes if w and w[0].startswith(b"d%d_" % k)]
            if dw != [serial(m) for m in seq]:
                res.violate(V("direct-order", f"direct sequence {k}: {dw} expected {seq}", site="ZeroMqPushIo.send_message_sequence_soon"), case)
        if len(writes) != len(queued) + sum(len(s) for s in direct):
            res.violate(V("write-count", f"{len(writes)} writes for {len(queued)} queued + {sum(len(s) for s in direct)} direct", site="ZeroMqPushIo"), case)
    # model side: random interleavings of the transition system give one factory call as well,
    # and the abstract schedule "everything to completion" reproduces the queue order
    reqs = []
    for i in range(100 if tier == "quick" else 1000):
        acts = []
        n_s = 1
        for _ in range(rng.randrange(3, 40)):
            r = rng.random()
            if r < 0.2:
                acts.append({"a": "enqueue", "m": rng.randrange(100)})
            elif r < 0.3:
                acts.append({"a": "spawn", "msgs": [rng.randrange(100, 200) for _ in range(rng.randrange(1, 3))]})
                n_s += 1
            elif r < 0.35:
                acts.append({"a": "ensure"})
                n_s += 1
            else:
                acts.append({"a": "step", "i": rng.randrange(n_s)})
        reqs.append({"op": "zmq", "acts": acts})
    for rq, rep in zip(reqs, drv.eval(reqs)):
        res.case(str(rq), nontrivial=True)
        res.count("model-interleavings")
        if rep["factory_calls"] > 1:
            res.diverge(f"model run has {rep['factory_calls']} factory calls", rq)
    # serialisation of parts vs the rule
    from tickit.adapters.io.zeromq_push_io import ZeroMqPushIo
    io = ZeroMqPushIo(socket_factory=None)
    from pydantic.v1 import BaseModel

    class Status(BaseModel):
        enabled: object
        gain: object

    # values that compare (and hash) equal but serialise differently - 1 / True / 1.0, 0 / False / 0.0 - in equal-shaped
    # mappings and models, mappings that differ only in key order, a string that looks like a mapping's JSON
    vals = [b"", b"\x00\xff", "", "é\n\"", {"a": 1, "b": [True, None, "x"]}, {"é": {"n": -3}}, " ",
            {"s": 1}, {"s": True}, {"s": 1.0}, {"s": 0}, {"s": False}, {"s": 0.0}, {"s": None}, {"s": "1"}, {"a": 1, "b": 2}, {"b": 2, "a": 1},
            '{"s": 1}', b'{"s": 1}', Status(enabled=True, gain=2.0), Status(enabled=1, gain=2), Status(enabled=1.0, gain=2.0), {}, {"": ""}]
    for _ in range(200 if tier == "quick" else 3000):
        msg = [rng.choice(vals) for _ in range(rng.randrange(1, 5))]
        out = io._serialize(msg)
        res.case(("ser", repr(msg)))
        if out != serial(msg):
            res.violate(V("serialise", f"{msg} -> {out}", site="ZeroMqPushIo._serialize"), {"msg": repr(msg)})
    res.rule = ("seeded runs of the real ZeroMqPushIo + ZeroMqPushAdapter: 0-6 queued messages (some with mapping parts), 0-3 directly spawned sequences, "
                "set-up before or after queueing, fake socket factory and drain with random latencies (loop yields and virtual microseconds); checked: "
                "factory calls == 1, queued writes == queue order once each, each direct sequence in order, total writes; plus random action lists "
                "through the Lean transition system and part-wise serialisation of generated messages; non-trivial = more than one message")
    return res


def replay(payload, drv):
    c = payload["case"]
    if "seed" not in c:
        return {"violations": []}
    r, writes, calls, queued, direct = one_run(c["seed"], c["n_queue"], c["n_direct"])
    vs = []
    if calls != 1:
        vs.append(V("socket-count", f"{calls}"))
    if [w for w in writes if w and w[0].startswith(b"q")] != [serial(m) for m in queued]:
        vs.append(V("queue-order", str(writes)))
    return {"writes": [[p.decode("latin1") for p in w] for w in writes], "factory_calls": calls, "violations": vs}
