"""C09 — system simulations are transparent: nesting does not change behaviour."""
import random

import model
import monitors
import scenario as S
from sim import run_scenario

from .base import Result, V
from . import simcommon as SC
from .c05 import shapes
from .c08 import compare_obs

MODULES = ['TickitModel.Props.C09', 'TickitModel.Props.C05', 'TickitModel.Props.C06', 'TickitModel.Props.AnyTransfer']
THEOREMS = ['nesting_transparent_initial', 'nesting_transparent_initial_fuel', 'nesting_transparent_run', 'nesting_transparent_run_fuel', 'nesting_transparent_run_stims', 'resolveFuel_sufficient', 'flatten_devices', 'external_passes_inputs', 'expose_collects_outputs', 'tickLevel_once', 'initial_tick_complete', 'system_callback_is_min', 'nestedDue_exact',
            'any_order_flatten_valid', 'any_order_nesting_transparent_initial', 'any_order_nesting_transparent_run', 'any_order_nesting_transparent_run_fuel', 'any_order_flatten_run_exists']
ANCHORS = ["src/tickit/core/management/schedulers/nested.py", "src/tickit/core/components/system_component.py",
           "src/tickit/core/management/schedulers/base.py", "src/tickit/core/management/ticker.py"]
TECHNIQUE = 'Lean 4 theorem: for every valid configuration tree (any depth) the whole-simulation model run on the nested configuration and on its mechanical flattening have the same tick times and the same per-device (time, inputs) observations, initial tick and any number of callback ticks (device-level tick equations for nested ticks + uniqueness by rank induction) + nested vs flattened runs of the real code validated against the model'
LEVEL_TEXT = "Proved over the executable whole-simulation model (nested schedulers at unbounded depth, devices as oracles), for every structurally valid configuration: if the nested run completes, so does the run of the mechanically flattened configuration (external / exposed ports replaced by direct wires; the resolution fuel bound is proved sufficient, after a counterexample to a smaller bound), with the same tick times and real start times and, for every device, the same sequence of (time, inputs) observations - for the initial tick and for any number of callback ticks: values cross system boundaries in both directions and through pass-through ports within the same tick, and callbacks requested inside a system are served at exactly the requested time (system entry = minimum inner wakeup). The proof goes through device-level tick equations for arbitrary nested ticks and their uniqueness on the acyclic resolved wiring. Histories WITH interrupts between ticks are covered as well (nesting_transparent_run_stims) for stimuli on devices that never request a callback or re-request one at every update (the property's restriction, shown necessary by a build-time counterexample), and that are 'timely' (the interrupt's stamp is not later than the earliest pending wakeup - it can be only when a stimulus arrives at the very instant a tick is due with speed > 1 or a callback lies in the past; counterexample kept as #guard). PARTIAL: interrupts arriving mid-tick are outside the model (validated on the real code: checked for being served). The model answers dispatches first-in first-out; other orders are C08's subject. Tie to the code: every generated nesting (depth <= 3, siblings, system-in-system, pass-through expose, no inputs / no expose) and its flattening are BOTH run on the real code under two buses, must give identical per-device observations, and both must agree with the Lean model; the Lean and Python flattenings are compared; the model itself is run nested and flattened. FOR ANY ANSWER ORDER AT EVERY NESTING LEVEL (every scheduler level answers its pending dispatches in ANY order, a system component's answer is any such execution of its inner level; Core/SimAny; none of these corollaries assumes that the first-in first-out model succeeds - that follows from the existence of the execution) (Props/AnyTransfer): ANY any-order run of a valid nested configuration and ANY any-order run of its flattening (callback histories; same oracle, initial time, speed, bounds) have the same simulation and real tick times and the same per-device observations (any_order_nesting_transparent_run, _initial, _fuel), and the flattening has a run whenever the nested configuration has one (any_order_flatten_run_exists)."
LEVEL_NOTE = 'Trusts: Lean kernel; hand-written nested model and flattening (tied by trace validation and by comparing the two flattenings); interrupts beyond the theorem are validated by sampling.'
ASSUMPTIONS = ["valid configurations (Static.Valid): unique names, every level's wiring well-formed, one source per input, acyclic; nothing wired into `external` or out of `expose`; no component named ''", 'theorem with interrupts: stimuli name devices, are InterruptSafe (quiet or periodic) and timely; mid-tick interrupts are validated only']


def run(tier, seed, drv):
    res = Result()
    rng = random.Random(seed)
    scns = SC.corpus_scenarios() + [dict(s, n_ticks=3) for s in shapes(rng)]
    for _ in range(40 if tier == "quick" else 400):
        scns.append(S.gen_nested(rng, depth=rng.randrange(1, 4), callbacks=True, max_n=7 if tier == "quick" else 9))
    # interrupts on devices that never request a callback ("quiet") or re-request one at every
    # update (periodic), arriving between ticks and in the middle of a tick (processing cost)
    from .c07 import dev
    P = 100_000_000
    for off in (7, 30_000_007, 100_000_007, 100_000_000 + 25_000_000, 160_000_000, 230_000_000):
        scns.append({"components": [{"name": "O", "kind": "sys", "inputs": {}, "expose": {}, "components": [
            {"name": "S", "kind": "sys", "inputs": {}, "expose": {}, "components": [
                dev("A", cb={"kind": "period", "p": P}, cost=10_000_000), dev("B", {"i": ["A", "o"]}, cost=10_000_000), dev("C", cost=5_000_000)]}]}],
            "n_ticks": 4, "stims": [{"real": off, "comp": "C"}]})
        scns.append({"components": [dev("src", cb={"kind": "period", "p": P}, cost=10_000_000),
                                    {"name": "sys", "kind": "sys", "inputs": {"x": ["src", "o"]}, "expose": {"y": ["in1", "o"]},
                                     "components": [dev("in1", {"i": ["external", "x"]}, cost=10_000_000), dev("quiet", cost=5_000_000)]},
                                    dev("sink", {"i": ["sys", "y"]}, cost=10_000_000)],
                     "n_ticks": 4, "stims": [{"real": off, "comp": "quiet"}]})
        # ... and on PERIODIC devices inside systems: the interrupted device still holds its earlier callback
        # when it re-requests a later one (the re-request must replace it, as it does in the flat wiring)
        scns.append({"components": [{"name": "O", "kind": "sys", "inputs": {}, "expose": {"y": ["S", "y"]}, "components": [
            {"name": "S", "kind": "sys", "inputs": {}, "expose": {"y": ["A", "o"]}, "components": [
                dev("A", cb={"kind": "period", "p": P}), dev("C")]}]}, dev("B", {"i": ["O", "y"]})],
            "n_ticks": 5, "stims": [{"real": off, "comp": "A"}]})
        scns.append({"components": [dev("src", cb={"kind": "period", "p": 3 * P}),
                                    {"name": "sys", "kind": "sys", "inputs": {"x": ["src", "o"]}, "expose": {"y": ["per", "o"]},
                                     "components": [dev("in1", {"i": ["external", "x"]}), dev("per", cb={"kind": "period", "p": P})]},
                                    dev("sink", {"i": ["sys", "y"]})],
                     "n_ticks": 5, "stims": [{"real": off, "comp": "per"}, {"real": off + 2 * P + 1_000_003, "comp": "per"}]})
    # a second inner interrupt a few loop iterations after the first, i.e. while the inner tick caused by the
    # first is running: it must reach the master (served within the bound), at depth 1 and 2
    for k in (range(1, 28) if tier == "quick" else range(1, 45)):
        scns.append({"components": [{"name": "O", "kind": "sys", "inputs": {}, "expose": {"y": ["S", "y"]}, "components": [
            {"name": "S", "kind": "sys", "inputs": {}, "expose": {"y": ["A", "o"]}, "components": [
                dev("A", cb={"kind": "period", "p": P}), dev("C"), dev("D")]}]}, dev("B", {"i": ["O", "y"]})],
            "n_ticks": 8, "noop_ticks_possible": True,
            "stims": [{"real": 30_000_007, "comp": "C"}, {"real": 30_000_007, "yields": k, "comp": "D"}, {"real": 230_000_000, "comp": "C"}]})
    for i, scn in enumerate(scns):
        if not S.systems(scn):
            continue
        flat = S.flatten(scn)
        SC.stats_into(res, scn)
        for b in ("sync", "held"):
            sd = rng.randrange(1 << 30)
            has_cost = any(d["beh"].get("cost") for d in S.devices(scn))
            if has_cost and b == "held":
                continue
            rn = run_scenario(scn, bus=b, seed=sd)
            rf = run_scenario(flat, bus=b, seed=sd)
            res.case(SC.scn_key(scn) + b, nontrivial=len(rn["trace"].of("update")) > len(S.devices(scn)),
                     sample={"nested": scn, "flat": flat} if i < 1 and b == "sync" else None)
            case = {"scenario": scn, "bus": b, "held_seed": sd}
            ok = True
            for r_, nm in ((rn, "nested"), (rf, "flat")):
                if r_["result"][0] != "ok":
                    res.violate(V("run-did-not-complete", f"{nm}: {r_['result']}", site="run"), case)
                    ok = False
            if not ok:
                continue
            if b == "sync" and not has_cost and not scn.get("stims"):
                # the model run on the nested configuration and on ITS OWN flattening (the objects of the
                # transparency theorem), and the Lean flattening against the harness's
                tid_ = monitors.master_tid(rn)
                nt = max(0, len([e for e in rn["trace"].of("t-done") if e["tid"] == tid_]) - 1)
                req = model.sim_request(scn, rn["trace"], n_ticks=nt)
                rep_n, rep_f = drv.eval([req, dict(req, flatten=True)])
                pyconns = sorted(f"{s_[0]}:{s_[1]}>{d['name']}:{q}" for d in flat["components"] for q, s_ in d["inputs"].items())
                if rep_f.get("flat_conns") != pyconns:
                    res.diverge(f"flattening: Lean {rep_f.get('flat_conns')} harness {pyconns}", case)
                if model.model_observations(rep_n) != model.model_observations(rep_f) or rep_n.get("err") or rep_f.get("err"):
                    res.diverge(f"model: nested and flattened runs differ ({rep_n.get('err')}, {rep_f.get('err')})", case)
                res.count("model-nested-vs-flat")
            SC.check_run(scn, rn, drv, res, monitors_on=("inputs_latest", "callbacks", "tick_times", "system_output") + (("interrupts",) if scn.get("stims") else ()),
                         corr=("ticker",) if has_cost else ("inputs", "ticks", "ticker"), case_extra=case)
            SC.check_run(flat, rf, drv, res, monitors_on=(), corr=() if has_cost else ("inputs", "ticks"), case_extra={"scenario": flat, "bus": b})
            # an interrupt that arrives while a tick is in progress may be served by that very tick in one
            # configuration and by a tick of its own in the other (the devices are updated in a different
            # order inside the tick): transparency is claimed for stimuli applied between ticks
            midtick = any(monitors.phase_of(r_["trace"], monitors.master_tid(r_), e) != "between-ticks"
                          for r_ in (rn, rf) for e in r_["trace"].of("raise") if e.get("ok"))
            if midtick:
                res.count("mid-tick-interrupt (served-check only)")
                continue
            oa, ob = model.observations(rn["trace"]), model.observations(rf["trace"])
            if scn.get("noop_ticks_possible"):
                # the two runs stop after the same NUMBER of master ticks, and one of them may contain ticks in which
                # no device is updated: compare up to the simulation time both have passed
                def last(r):
                    t_ = monitors.master_tid(r)
                    ts = [e["time"] for e in r["trace"].of("t-done") if e["tid"] == t_]
                    return ts[-1] if ts else -1
                h = min(last(rn), last(rf))
                oa = {d: [o for o in v if o[0] < h] for d, v in oa.items()}
                ob = {d: [o for o in v if o[0] < h] for d, v in ob.items()}
            for d in sorted(set(oa) | set(ob)):
                if oa.get(d, []) != ob.get(d, []):
                    x, y = oa.get(d, []), ob.get(d, [])
                    k = next((i for i in range(min(len(x), len(y))) if x[i] != y[i]), min(len(x), len(y)))
                    res.violate(V("nesting-not-transparent", f"device {d} observation #{k}: nested {x[k] if k < len(x) else None} flat {y[k] if k < len(y) else None}",
                                  site="observations", comp=d, depth=S.depth_map(scn).get(d)), case)
                    break
    res.rule = ("hand-written shapes (unfed inner device, system without inputs, depth 3, pass-through expose) + corpus + generated nestings (convex slices "
                "of random DAGs grouped into systems, system-in-system wrappers, depth <= 3, callbacks inside systems); each nested configuration and "
                "its mechanical flattening are run on the real code under the synchronous and a delaying bus; per-device observation sequences must be "
                "equal to each other and to the Lean whole-simulation model; non-trivial = updates beyond the initial tick")
    return res


def replay(payload, drv):
    c = payload["case"]
    scn = c["scenario"]
    flat = S.flatten(scn)
    rn = run_scenario(scn, bus=c.get("bus", "sync"), seed=c.get("held_seed", 0))
    rf = run_scenario(flat, bus=c.get("bus", "sync"), seed=c.get("held_seed", 0))
    res = Result()
    compare_obs(rn, rf, "nested vs flat", scn, res, {})
    SC.check_run(scn, rn, drv, res, monitors_on=("inputs_latest", "callbacks", "tick_times"), corr=("sim", "ticker"))
    return {"violations": [v["record"] for v in res.violations], "divergences": res.divergences[:3]}
