"""C11 — a failing component stops the whole simulation cleanly (fail-stop)."""
import asyncio
import copy
import random

import monitors
import scenario as S
from buses import HeldBus, SeededChooser, SyncBus, Trace
from sim import run_scenario
from vloop import run_virtual

from .base import Result, V
from . import simcommon as SC
from .c07 import dev

MODULES = ["TickitModel.Props.C11", 'TickitModel.Props.C11Stop']
THEOREMS = ["identity_preserved", "reaches_master", "all_on_path_stopped", "no_report_for_unknown", "no_tick_after_error", "run_returns",
            'stop_invariant', 'error_set_when_handler_finished', 'no_new_tick_after_error', 'no_step_into_tick_after_error', 'loop_exits_at_top', 'release_only_after_error', 'never_released_with_error_clear', 'all_stops_sent', 'reports_are_the_failures', 'sys_steps_bounded', 'measure_decreases', 'maximal_execution_returns', 'fair_run_returns', 'some_execution_returns', 'fair_schedule_exists', 'returned_is_stable', 'first_failure_bound', 'stopOnce_hangs', 'stopOnce_waits_forever', 'stopOnce_releases_before_error', 'stopOnce_hangs_in_every_system', 'parked_needs_wakeup']
ANCHORS = ["src/tickit/core/components/component.py", "src/tickit/core/management/schedulers/base.py",
           "src/tickit/core/management/schedulers/master.py", "src/tickit/core/management/schedulers/nested.py",
           "src/tickit/core/components/system_component.py", "src/tickit/core/components/device_component.py",
           "src/tickit/core/simulation.py"]
TECHNIQUE = "Lean 4 theorems over a statement-level transition system of the stop protocol (any number of failures per tick, any interleaving of the exception handlers: safety invariants + a decreasing measure => the run call returns under every fair schedule) with trace acceptance of the real scheduler's histories; Lean 4 theorems over the exception-path model (identity preserved through any nesting depth, error reaches the master, every component on the path is stopped, no tick after the error flag) + fault enumeration on the real code (every component x n-th update, device and adapter hooks, delayed delivery) with completion of the run under the virtual clock"
LEVEL_TEXT = ("Theorems over a model of the exception path for configuration trees of any depth: the ComponentException received at every level up to "
              "the master carries the original component and error; it reaches the master whenever the failing device exists; every component "
              "managed by every scheduler on the path is sent StopComponent and every such scheduler raises its error flag; no tick starts after "
              "the master's flag is up. THE STOP PROTOCOL AT STATEMENT LEVEL (Core/StopProtocol, Props/C11Stop): the master's run loop (waiting / sleeping / inside a tick / exited), the error and "
              "finished events, one exception handler coroutine per reported failure advancing statement by statement (StopComponent fan-out, error.set(), finished.set()), stop "
              "messages in flight, with ANY number of components failing in a tick and ANY interleaving of the handlers at every await: once a handler has finished error is set; no "
              "tick starts after error is set; finished is released by a handler only after that handler's error.set() (never_released_with_error_clear); every component has been "
              "sent StopComponent by then (all_stops_sent); the reports are exactly the failures with their identities; an explicit measure decreases with every scheduler/bus step, "
              "so every maximal execution is finite and ends with the run loop exited and all components stopped, and under every weakly fair schedule the run call returns "
              "(maximal_execution_returns, fair_run_returns, first_failure_bound: at most 1 + m(2n+4) steps after the first failure); the seeded 'stop only once' variant provably "
              "parks the run loop for ever (stopOnce_hangs, stopOnce_hangs_in_every_system). Tie: statement-level histories of the real MasterScheduler under TickitSimulation.run() "
              "(1-3 failures, initial and later ticks, randomly delayed producer) must be strict executions of the model and agree on 'returned'. PARTIAL: only the master level is "
              "statement-level (a nested failure enters as the failure of its top-level component; the path below is the tree model); task completion inside asyncio (cancellation of "
              "adapter tasks) is established by fault enumeration on the real code: every (component, n-th update <= 3) failure point "
              "in flat and nested configurations (depth <= 2), device hook or adapter hook, in the initial tick or later, with other updates in "
              "flight, under the synchronous and a delaying bus; the run must finish within a step budget, report the original identity at the "
              "master, stop every top-level component and start no further tick; the model's report is compared with the messages seen.")
LEVEL_ADDENDUM = 'Session 8: fault enumeration includes system simulations that carry an adapter whose io serves until cancelled.'
LEVEL_NOTE = "Trusts: Lean kernel; hand-written exception-path model (tied by comparing predicted exception identity / stopped sets with bus messages); asyncio cancellation semantics are exercised, not modelled."
ASSUMPTIONS = ["the failure is an Exception raised by Device.update or an adapter's after_update"]


def tree(comps):
    return [{"dev": c["name"]} if c["kind"] == "dev" else {"sys": c["name"], "children": tree(c["components"])} for c in comps]


def model_report(comps, target):
    """python rendering of Core/FailStop.failIn (the Lean function is checked against this
    through the driver op `failstop`)"""
    def find(cs):
        for c in cs:
            if c["kind"] == "dev":
                if c["name"] == target:
                    return {"stopped": [], "errored": []}
            else:
                r = fail_in(c["name"], c["components"])
                if r:
                    return r
        return None

    def fail_in(level, cs):
        r = find(cs)
        if r is None:
            return None
        return {"stopped": r["stopped"] + [c["name"] for c in cs], "errored": r["errored"] + [level]}
    return fail_in("", comps)


def configs(rng, tier):
    P = 4_000_000
    out = [
        {"components": [dev("a", cb={"kind": "period", "p": P}), dev("b", {"i": ["a", "o"]}), dev("c", {"i": ["a", "o"]}), dev("d", {"i": ["b", "o"], "j": ["c", "o"]})]},
        {"components": [dev("src", cb={"kind": "period", "p": P}),
                        # (a system simulation with an adapter of its own whose io serves until it is cancelled)
                        {"name": "sys", "kind": "sys", "sys_adapter": True, "inputs": {"x": ["src", "o"]}, "expose": {"y": ["in1", "o"]},
                         "components": [dev("in1", {"i": ["external", "x"]}), dev("in2", cb={"kind": "period", "p": P})]},
                        dev("sink", {"i": ["sys", "y"]})]},
        {"components": [{"name": "o1", "kind": "sys", "inputs": {}, "expose": {"y": ["o2", "y"]}, "components": [
            {"name": "o2", "kind": "sys", "sys_adapter": True, "inputs": {}, "expose": {"y": ["deep", "o"]}, "components": [dev("deep", cb={"kind": "period", "p": P}), dev("deepq")]},
            dev("mid", {"i": ["o2", "y"]})]}, dev("top", {"i": ["o1", "y"]}), dev("other", cb={"kind": "period", "p": P})]},
    ]
    # nothing ever asks for a callback: after the initial tick the master waits for a wakeup that never comes,
    # so a failure that is reported only after the component has already answered the tick must still end the run
    out.append({"components": [dev("qs"), dev("qk", {"i": ["qs", "o"]})]})
    out.append({"components": [dev("qa"), {"name": "qsys", "kind": "sys", "inputs": {"x": ["qa", "o"]}, "expose": {"y": ["qi", "o"]},
                                           "components": [dev("qi", {"i": ["external", "x"]}), dev("qj")]}, dev("qz", {"i": ["qsys", "y"]})]})
    # at the TOP level "external" and "expose" are ordinary component names (only inside a system simulation are they taken)
    out.append({"components": [dev("external", cb={"kind": "period", "p": P}), dev("expose", {"i": ["external", "o"]}), dev("plain", {"i": ["expose", "o"]})]})
    # devices that ask to be called back AT ONCE (call_at == the tick's time): when a failure is reported in such a tick, a wakeup
    # that is already due is left behind - it must not be served
    out.append({"components": [dev("za", cb={"kind": "list", "delays": [0, 0, 0, 0, None]}), dev("zb", {"i": ["za", "o"]}), dev("zc", cb={"kind": "list", "delays": [0, P, 0, None]}),
                               {"name": "zsys", "kind": "sys", "inputs": {"x": ["za", "o"]}, "expose": {}, "components": [dev("zi", {"i": ["external", "x"]}, cb={"kind": "list", "delays": [0, 0, None]})]}]})
    # independent devices (no wire between them), nothing asks for a callback
    out.append({"components": [dev("ia"), dev("ib"), dev("ic", {"i": ["ia", "o"]}), dev("id", {"i": ["ib", "o"]})]})
    if tier == "thorough":
        for _ in range(8):
            out.append(S.gen_nested(rng, depth=2, max_n=6))
    return out


def run_with_simulation(scn, bus, seed, budget=6000):
    """run through TickitSimulation.run() (the real run call) and report whether it returned"""
    from tickit.core.management.event_router import InverseWiring
    from tickit.core.management.schedulers.master import MasterScheduler
    from tickit.core.simulation import TickitSimulation
    from tickit.core.state_interfaces import state_interface
    from tickit.core.typedefs import ComponentPort
    import sim as simmod

    trace = Trace()
    ctx = {"trace": trace, "raisers": {}, "components": {}, "loop": None, "adapter_wait": True}
    info = {}

    async def main(loop):
        ctx["loop"] = loop
        b = SyncBus(trace, loop) if bus == "sync" else HeldBus(trace, SeededChooser(seed), loop)
        if bus != "sync":
            b.start()
        Consumer, Producer = b.classes()
        name = f"harness-{id(b)}"
        state_interface.consumers[name] = (Consumer, False)
        state_interface.producers[name] = (Producer, False)
        try:
            inv = InverseWiring({n: {q: ComponentPort(*s) for q, s in ins.items()} for n, ins in simmod.top_inverse(scn).items()})
            sched = MasterScheduler(inv, Consumer, Producer, initial_time=scn.get("t0", 0))
            info["scheduler"] = sched
            comps = {c["name"]: simmod.build_component(c, ctx) for c in scn["components"]}
            simulation = TickitSimulation(name, sched, comps)
            await simulation.run()
            info["returned"] = True
            info["sched_error"] = sched.error.is_set()
        finally:
            state_interface.consumers.pop(name, None)
            state_interface.producers.pop(name, None)
        return True

    with simmod.instrument_tickers(ctx):
        res, loop = run_virtual(main, max_steps=budget)
    return {"trace": trace, "result": res, "steps": loop.step, "info": info, "ctx": ctx}


def analyse(scn, run, target, n, hook, res, case, rep=None):
    tr = run["trace"]
    if run["result"][0] != "ok" or not run["info"].get("returned"):
        why = run["result"][0]
        if why == "error":
            why = f"raised {type(run['result'][1]).__name__}: {run['result'][1]}"[:160]
        res.violate(V("run-did-not-return", f"after {target} failed at its update #{n} ({hook}) TickitSimulation.run did not return ({why}, {run['steps']} loop steps)",
                      site="TickitSimulation.run", hook=hook, depth=S.depth_map(scn).get(target)), case)
        return
    if not run["info"].get("sched_error"):
        res.violate(V("error-flag-not-set", f"run returned but the master's error flag is not set after {target} failed", site="MasterScheduler"), case)
    tid = monitors.master_tid(run)
    # identity at the master: the ComponentException delivered on a top-level component's output topic
    tops = {c["name"] for c in scn["components"]}
    excs = [e for e in tr.of("produce") if e["msg"]["m"] == "ComponentException"]
    at_master = [e for e in excs if any(e["topic"] == f"tickit-{t}-out" for t in tops)]
    if not at_master:
        res.violate(V("exception-not-reported-to-master", f"no ComponentException reached a top-level output topic after {target} failed", site="bus"), case)
    else:
        m = at_master[0]["msg"]
        if rep.get("source") is not None and (m["source"] != rep["source"]):
            res.diverge(f"fail-stop model: master saw source {m['source']}, model {rep['source']}", case)
        if m["source"] != target or "probe" not in m["error"]:
            res.violate(V("identity-lost", f"master saw ComponentException(source={m['source']}, error={m['error']}) for failure of {target}", site="bus"), case)
    # model: who must be stopped / which schedulers errored
    if rep is None:
        rep = model_report(scn["components"], target)
    stops = {e["topic"][len("tickit-"):-len("-in")] for e in tr.of("produce") if e["msg"]["m"] == "StopComponent"}
    missing = [c for c in rep["stopped"] if c not in stops]
    if missing:
        res.violate(V("not-told-to-stop", f"components {missing} on the failure path were not sent StopComponent", site="bus"), case)
    extra = sorted(stops - set(rep["stopped"]) - {S.EXTERNAL, S.EXPOSE})
    if extra:
        res.diverge(f"fail-stop model: StopComponent also sent to {extra} (model predicts {rep['stopped']})", case)
    # no further tick after the master handled the exception
    if at_master:
        later = [e for e in tr.of("t-call") if e["tid"] == tid and e["n"] > at_master[0]["n"] + 40]
        if later:
            res.violate(V("ticked-after-failure", f"master started tick @{later[0]['time']} after the failure was reported", site="MasterScheduler"), case)
    res.traces_validated += 1


def run(tier, seed, drv):
    res = Result()
    rng = random.Random(seed)
    for ci, scn in enumerate(configs(rng, tier)):
        devs = [d["name"] for d in S.devices(scn)]
        for target in devs:
            for n in range(0, 3 if tier == "quick" else 4):
                # hooks: the device's update, an adapter's after_update, and - for every other target - what the SHIPPED EPICS adapter
                # calls from its after_update: the getter linked to a record, the record's setter
                for hook in ("device", "adapter") + (("epics-getter", "epics-set") if (devs.index(target) + n) % 2 == 0 and n < 2 else ()):
                    for b in ("sync", "held"):
                        s2 = copy.deepcopy(scn)
                        for d in S.devices(s2):
                            if d["name"] == target:
                                if hook.startswith("epics"):
                                    d["beh"].update(epics=True, epics_fail_at=n, epics_fail_where=hook.split("-")[1])
                                else:
                                    d["beh"]["fail_at" if hook == "device" else "adapter_fail_at"] = n
                        sd = rng.randrange(1 << 30)
                        run_ = run_with_simulation(s2, b, sd)
                        case = {"scenario": s2, "bus": b, "held_seed": sd, "target": target, "n": n, "hook": hook}
                        failed = any(e["msg"]["m"] == "ComponentException" for e in run_["trace"].of("produce"))
                        res.case(f"{ci}:{target}:{n}:{hook}:{b}", nontrivial=failed, sample=case if len(res.samples) < 2 and n > 0 else None)
                        res.count(f"depth={S.depth_map(scn).get(target)}")
                        res.count("initial-tick" if n == 0 else "later")
                        res.count("hook=" + hook)
                        if not failed:
                            raised = [e for e in run_["trace"].of("probe-raised") if e["comp"] == target]
                            if raised:
                                res.violate(V("failure-not-reported", f"the {raised[0]['hook']} hook of {target} raised at its update #{raised[0]['idx']} and no ComponentException was ever produced "
                                              f"(the run {'returned' if run_['result'][0] == 'ok' and run_['result'][1] else 'did not return'})", site="exception-path", hook=hook,
                                              depth=S.depth_map(scn).get(target)), case)
                            else:
                                res.count("failure-point-not-reached")
                            continue
                        rep = drv.eval([{"op": "failstop", "tree": tree(s2["components"]), "target": target, "error": "probe"}])[0]
                        pyrep = model_report(s2["components"], target)
                        if rep is None or sorted(pyrep["stopped"]) != rep["stopped"] or pyrep["errored"] != rep["errored"]:
                            res.diverge(f"fail-stop model driver/python rendering differ: {rep} vs {pyrep}", case)
                        analyse(s2, run_, target, n, "adapter" if hook.startswith("epics") else hook, res, case, rep=dict(pyrep, source=(rep or {}).get("source")))
    # TWO components failing in the same tick (their n-th updates): the scheduler receives two reports for one tick;
    # the run must still return, with the error flag set, reporting one of the two, and never tick again
    import itertools
    for ci, scn in enumerate(configs(rng, "quick")):
        devs = [d["name"] for d in S.devices(scn)]
        rank = S.device_rank(scn) or {}
        pairs = list(itertools.combinations(devs, 2))
        rng.shuffle(pairs)
        # pairs of the same rank first: neither is downstream of the other, so both really are updated in one tick
        pairs.sort(key=lambda p_: rank.get(p_[0]) != rank.get(p_[1]))
        for (t1, t2) in pairs[: (3 if tier == "quick" else 10)]:
            for n in (0, 1):
                for b in ("sync", "held"):
                    s2 = copy.deepcopy(scn)
                    for d in S.devices(s2):
                        if d["name"] in (t1, t2):
                            d["beh"]["fail_at"] = n
                    sd = rng.randrange(1 << 30)
                    run_ = run_with_simulation(s2, b, sd)
                    case = {"scenario": s2, "bus": b, "held_seed": sd, "targets": [t1, t2], "n": n, "hook": "device", "double": True}
                    excs = [e for e in run_["trace"].of("produce") if e["msg"]["m"] == "ComponentException"]
                    both = {e["msg"]["source"] for e in excs} >= {t1, t2}
                    res.case(f"double:{ci}:{t1}:{t2}:{n}:{b}", nontrivial=bool(excs))
                    res.count("double-failure-both-reported" if both else ("double-failure-one-reported" if excs else "failure-point-not-reached"))
                    if not excs:
                        continue
                    if run_["result"][0] != "ok" or not run_["info"].get("returned"):
                        res.violate(V("run-did-not-return", f"after {t1} and {t2} failed at their update #{n} TickitSimulation.run did not return ({run_['result'][0]}, {run_['steps']} loop steps)",
                                      site="TickitSimulation.run", hook="device", double=True), case)
                        continue
                    if not run_["info"].get("sched_error"):
                        res.violate(V("error-flag-not-set", f"run returned but the master's error flag is not set after {t1} and {t2} failed", site="MasterScheduler"), case)
                    tops = {c["name"] for c in s2["components"]}
                    at_master = [e for e in excs if any(e["topic"] == f"tickit-{t}-out" for t in tops)]
                    if not at_master:
                        res.violate(V("exception-not-reported-to-master", f"no ComponentException reached a top-level output topic after {t1} and {t2} failed", site="bus"), case)
                    elif at_master[0]["msg"]["source"] not in (t1, t2) or "probe" not in at_master[0]["msg"]["error"]:
                        res.violate(V("identity-lost", f"master saw {at_master[0]['msg']} for failures of {t1} and {t2}", site="bus"), case)
                    if at_master:
                        tid = monitors.master_tid(run_)
                        later = [e for e in run_["trace"].of("t-call") if e["tid"] == tid and e["n"] > at_master[-1]["n"] + 40]
                        if later:
                            res.violate(V("ticked-after-failure", f"master started tick @{later[0]['time']} after the failures of {t1} and {t2} were reported", site="MasterScheduler", double=True), case)
                    res.traces_validated += 1
    # statement-level histories of the stop protocol (which statement of which exception handler ran when, every
    # StopComponent produced and delivered, moves of the run loop) of the real MasterScheduler under TickitSimulation.run()
    # with a randomly delaying producer, 1-3 failures in initial and later ticks: each must be a strict execution of the
    # Lean model (Core/StopProtocol) whose theorems (Props/C11Stop) say that the run returns
    try:
        import c11_stop_trace
        hs = c11_stop_trace.histories(3 if tier == "quick" else 24, seed0=seed * 100)
        reps = drv.eval([{"op": "stopproto", "comps": h["comps"], "stopOnce": False, "actions": h["actions"]} for h in hs])
        for h, rep in zip(hs, reps):
            case = {"stop_history": h}
            nf = sum(1 for a in h["actions"] if a[0] == "fail")
            res.case(f"stop-history:{h['spec']}:{h['seed']}", nontrivial=nf > 0)
            res.count(f"stop-history-failures={nf}")
            res.traces_validated += 1
            if not h["returned"]:
                res.violate(V("run-did-not-return", f"stop-protocol history (spec {h['spec']}, seed {h['seed']}, {nf} failures): TickitSimulation.run() had not returned after "
                              f"{c11_stop_trace.TIMEOUT} s; last actions {h['actions'][-6:]}", site="TickitSimulation.run", double=nf > 1), case)
            if not (rep or {}).get("accepted"):
                res.diverge(f"stop protocol model does not accept the history at action #{(rep or {}).get('at')} "
                            f"{h['actions'][(rep or {}).get('at', 0)] if isinstance((rep or {}).get('at'), int) and (rep or {}).get('at') < len(h['actions']) else None} ({(rep or {}).get('why')})", case)
            elif bool(rep.get("returned")) != bool(h["returned"]):
                res.diverge(f"stop protocol model: returned={rep.get('returned')} (parked={rep.get('parked')}), real run returned={h['returned']}", case)
    except Exception as e:   # noqa: BLE001
        import traceback
        # the trace source hooks private attributes of the scheduler (events, ticker methods); if they are not there any
        # more the statement-level tie is lost for this run, which is recorded but is no finding about the property
        res.notes.append(f"stop-protocol histories not recorded ({type(e).__name__}: {e}): the statement-level tie of Core/StopProtocol was NOT exercised in this run")
    # late starts: the failing component comes up after the scheduler's first Input (replayed on
    # subscription); everything must still be stopped and every task must complete
    from sim import run_scenario
    for ci, scn in enumerate(configs(rng, "quick")):
        tops = [c["name"] for c in scn["components"]]
        for target in [d["name"] for d in S.devices(scn)]:
            for delays in ({t: 2 for t in tops}, {"": 3}, {tops[0]: 3}):
                for hook in ("device", "adapter"):
                    s2 = dict(copy.deepcopy(scn), start_delays=delays, n_ticks=50, max_steps=6000)
                    for d in S.devices(s2):
                        if d["name"] == target:
                            d["beh"]["fail_at" if hook == "device" else "adapter_fail_at"] = 0
                    run_ = run_scenario(s2, bus="sync", stop_when=lambda trace, info: False)
                    case = {"scenario": s2, "bus": "sync", "target": target, "n": 0, "hook": hook, "late_start": True}
                    failed = any(e["msg"]["m"] == "ComponentException" for e in run_["trace"].of("produce"))
                    res.case(f"late:{ci}:{target}:{sorted(delays.items())}:{hook}", nontrivial=failed)
                    res.count("late-start")
                    if not failed:
                        continue
                    pend = [t for t in run_["info"].get("tasks_done", []) if not t[1]]
                    if run_["info"].get("stop") != "tasks-done" or pend:
                        res.violate(V("run-did-not-return", f"after {target} failed in the initial tick with start delays {delays} ({hook}) these tasks never completed: {[t[0] for t in pend]} (stop reason {run_['info'].get('stop')})",
                                      site="late-start", hook=hook, depth=S.depth_map(scn).get(target)), case)
    res.rule = ("3 configurations (flat diamond; system with two inner devices between source and sink; depth-2 nesting with exposed chain) [+ generated "
                "nestings in the thorough tier]; every device x n-th update (0..2 / 0..3) x {Device.update raises, adapter after_update raises} x "
                "{synchronous bus, seeded delaying bus}; pairs of devices failing in the same tick; the simulation is run through the real TickitSimulation.run() under the virtual clock with a "
                "step budget; non-trivial = the failure point was reached")
    return res


def replay(payload, drv):
    c = payload["case"]
    res = Result()
    if c.get("stop_history"):
        import c11_stop_trace
        h = c["stop_history"]
        import asyncio as _a
        names, log, ok = _a.run(c11_stop_trace.run_one(h["seed"], c11_stop_trace.SPECS[h["spec"]]))
        rep = drv.eval([{"op": "stopproto", "comps": [str(n) for n in names], "stopOnce": False, "actions": log}])[0]
        return {"returned": ok, "model": rep, "violations": [] if ok else [V("run-did-not-return", "stop-protocol history", site="TickitSimulation.run")]}
    if c.get("late_start"):
        from sim import run_scenario
        run_ = run_scenario(c["scenario"], bus="sync", stop_when=lambda trace, info: False)
        pend = [t for t in run_["info"].get("tasks_done", []) if not t[1]]
        return {"stop": run_["info"].get("stop"), "pending": pend,
                "violations": [V("run-did-not-return", str(pend))] if (pend or run_["info"].get("stop") != "tasks-done") else []}
    run_ = run_with_simulation(c["scenario"], c.get("bus", "sync"), c.get("held_seed", 0))
    if c.get("double"):
        ok = run_["result"][0] == "ok" and run_["info"].get("returned") and run_["info"].get("sched_error")
        return {"returned": run_["info"].get("returned"), "sched_error": run_["info"].get("sched_error"),
                "violations": [] if ok else [V("run-did-not-return", f"{run_['result'][0]} after {c['targets']} failed", site="TickitSimulation.run")]}
    failed = any(e["msg"]["m"] == "ComponentException" for e in run_["trace"].of("produce"))
    if not failed:
        raised = [e for e in run_["trace"].of("probe-raised") if e["comp"] == c["target"]]
        return {"failed": False, "raised": raised[:1],
                "violations": [V("failure-not-reported", f"the {raised[0]['hook']} hook of {c['target']} raised and no ComponentException was produced", site="exception-path")] if raised else []}
    pyrep = model_report(c["scenario"]["components"], c["target"])
    analyse(c["scenario"], run_, c["target"], c["n"], "adapter" if str(c["hook"]).startswith("epics") else c["hook"], res, c, rep=dict(pyrep, source=None))
    return {"violations": [v["record"] for v in res.violations], "divergences": res.divergences[:3]}
