"""C16 — wiring representations and routing agree: differential run of Wiring /
InverseWiring / EventRouter against the Lean model + direct monitor."""
import itertools
import random

from .base import Result, V

MODULES = ["TickitModel.Props.C16"]
THEOREMS = ["conn_fromInverse", "keys_fromInverse", "wf_fromInverse", "conn_fromWiring", "keys_fromWiring",
            "wf_fromWiring", "inverse_roundtrip", "inverse_roundtrip_components", "wiring_roundtrip",
            "wiring_roundtrip_components", "route_exact", "route_nonempty", "route_wf", "mem_components_iff",
            "mem_children_iff", "mem_ups_iff", "ups_isSome_iff", "mem_dependants_iff", "dependants_nodup"]
ANCHORS = ["src/tickit/core/management/event_router.py", "src/tickit/core/typedefs.py"]
TECHNIQUE = "Lean 4 theorems (round-trips preserve the connection relation; route = wired inputs; BFS dependants = reflexive-transitive reachability, by invariant + fuel-sufficiency) + exhaustive/seeded differential run of the public router API against the model"
LEVEL_TEXT = ("Full-strength theorems over the router model for all well-formed wirings with one source per input port: both "
              "conversions and both round trips preserve the set of connections and the component set; route returns exactly the "
              "wired input ports; dependants = reachability (unbounded, by induction on the BFS with a proved fuel bound); trees are "
              "converse. The model is tied to event_router.py by a differential run over every public entry point (exhaustive for "
              "2 components x 2 ports quick / 3 x 2 thorough, seeded up to 10 components).")
LEVEL_NOTE = "Trusts: Lean kernel; hand-written router model (tied by differential run); Python dict/set semantics (sets compared as sorted lists)."
ASSUMPTIONS = ["each input port has at most one source (the property's quantifier)", "component and port names are strings"]


# output values: the router moves VALUES it knows nothing about - small ints, and None / False / "" / 0.0 / an empty tuple
# (falsy values are values; `None` is what a device reports when it has nothing to show).  Requests carry codes.
VALS = [0, 1, 2, 3, 4, None, False, "", 0.0, ()]


def vcode(v):
    return next((i for i, x in enumerate(VALS) if type(x) is type(v) and x == v), -1)


def real_api(inv, routes, extra_roots):
    from tickit.core.management.event_router import EventRouter, InverseWiring, Wiring
    from tickit.core.typedefs import ComponentPort
    iw = InverseWiring({c: {q: ComponentPort(*s) for q, s in ports.items()} for c, ports in inv.items()})
    w = Wiring.from_inverse_wiring(iw)
    iw2 = InverseWiring.from_wiring(w)
    w2 = Wiring.from_inverse_wiring(iw2)
    er = EventRouter(iw)

    def conns(wd):
        return sorted(f"{a}:{p}>{b}:{q}" for a, ports in wd.items() for p, ins in ports.items() for b, q in ins)

    def inv_conns(iwd):
        return sorted(f"{s.component}:{s.port}>{b}:{q}" for b, ports in iwd.items() for q, s in ports.items())

    # the input-to-output wiring built from component configurations (name + inputs), handed over as a list and as a
    # ONE-SHOT iterable (the parameter is an Iterable): both must give the connections of `inv`, unconnected components kept
    class _Cfg:
        def __init__(self, name, inputs):
            self.name, self.inputs = name, inputs
    cfgs = [_Cfg(c, {q: ComponentPort(*s_) for q, s_ in ports.items()}) for c, ports in inv.items()]
    from_cfg = {"list": InverseWiring.from_component_configs(cfgs), "generator": InverseWiring.from_component_configs(c for c in cfgs),
                "iterator": InverseWiring.from_component_configs(iter(cfgs))}
    comps = sorted(er.components)
    out = {
        "conns": conns(w), "keys": sorted(w.keys()),
        "inv_conns": inv_conns(iw2), "inv_keys": sorted(iw2.keys()),
        "rt_conns": conns(w2), "rt_keys": sorted(w2.keys()),
        "components": comps,
        "inputs": sorted(er.input_components), "outputs": sorted(er.output_components),
        "isolated": sorted(er.isolated_components),
        "tree": sorted([c, sorted(v)] for c, v in er.component_tree.items()),
        "inverse_tree": sorted([c, sorted(v)] for c, v in er.inverse_component_tree.items()),
        "dependants": [[c, sorted(er.dependants(c))] for c in sorted(set(comps) | set(extra_roots))],
        "routes": [sorted([b, sorted([q, vcode(v)] for q, v in ch.items())] for b, ch in er.route(r["src"], dict((p, VALS[v]) for p, v in r["changes"])).items()) for r in routes],
    }
    cfg_shape = []
    for how, iwc in from_cfg.items():
        if inv_conns(iwc) != inv_conns(iw) or sorted(iwc.keys()) != sorted(iw.keys()):
            cfg_shape.append([f"from_component_configs({how})", "inverse wiring", f"{inv_conns(iwc)} / {sorted(iwc.keys())} vs {inv_conns(iw)} / {sorted(iw.keys())}"[:300]])
            break
    # the same connections handed over as a Wiring in other, equally valid shapes must give the same router:
    # (a) the Wiring derived from the inverse wiring, (b) only sources as keys (sinks appear as wire targets only),
    # (c) with additional declared-but-unwired output ports (empty sets) on components that also have a wired port,
    # (d) a second router built on a Wiring object that an earlier router has already routed through
    def api(r):
        cs = sorted(r.components)
        return {"components": cs, "inputs": sorted(r.input_components), "outputs": sorted(r.output_components),
                "tree": sorted([c, sorted(v)] for c, v in r.component_tree.items() if v),
                "dependants": [[c, sorted(r.dependants(c))] for c in sorted(set(comps) | set(extra_roots))],
                "routes": [sorted([b, sorted([q, vcode(v)] for q, v in ch.items())] for b, ch in r.route(x["src"], dict((p, VALS[v]) for p, v in x["changes"])).items()) for x in routes]}
    base = dict(api(er))

    def wiring_dict(only_sources, empty_ports):
        d = {}
        for b_, ports in inv.items():
            if not only_sources:
                d.setdefault(b_, {})
            for q, s_ in ports.items():
                d.setdefault(s_[0], {}).setdefault(s_[1], set()).add(ComponentPort(b_, q))
        if empty_ports:
            for a_ in list(d):
                if any(d[a_].values()):
                    d[a_]["unwired-port"] = set()
        return d
    variants = {"wiring": lambda: EventRouter(w),
                "sources-only": lambda: EventRouter(Wiring(wiring_dict(True, False))),
                "empty-ports": lambda: EventRouter(Wiring(wiring_dict(False, True))),
                }
    shape = []
    for nm, mk_ in variants.items():
        try:
            got = api(mk_())
        except Exception as e:
            shape.append([nm, "raised", f"{type(e).__name__}:{e}"])
            continue
        # (which components count as "output components" depends on the declared ports, wired or not: not compared;
        #  in the sources-only form components without any wire are not mentioned at all, so `components` is not compared there)
        for k_ in ("inputs", "tree", "dependants", "routes") + (("components",) if nm != "sources-only" else ()):
            if got[k_] != base[k_]:
                shape.append([nm, k_, f"{got[k_]} vs {base[k_]}"[:300]])
                break
    try:
        shared = Wiring(wiring_dict(False, False))
        r1 = EventRouter(shared)
        api(r1)                      # routes through it (may touch unwired ports)
        got = api(EventRouter(shared))
        for k_ in ("components", "inputs", "tree", "dependants", "routes"):
            if got[k_] != base[k_]:
                shape.append(["second-router-on-routed-wiring", k_, f"{got[k_]} vs {base[k_]}"[:300]])
                break
    except Exception as e:
        shape.append(["second-router-on-routed-wiring", "raised", f"{type(e).__name__}:{e}"])
    # (e) a wiring that is inverted, EDITED IN PLACE (as NestedScheduler.add_exposing_wiring adds the wires of its `expose`
    #     pseudo-component to the inverse wiring it is given) and converted back: the conversions describe the object as it is
    #     NOW - every wire that is there at the moment of the conversion, whatever was converted before
    try:
        w_e = Wiring(wiring_dict(False, False))
        iw_e = InverseWiring.from_wiring(w_e)
        before = set(conns(Wiring.from_inverse_wiring(iw_e)))
        src_c, src_p = next(((a_, p_) for a_, ports in wiring_dict(False, False).items() for p_ in ports), ("zz_src", "o"))
        iw_e["zz_new"]["p"] = ComponentPort(src_c, src_p)
        after = set(conns(Wiring.from_inverse_wiring(iw_e)))
        want = before | {f"{src_c}:{src_p}>zz_new:p"}
        if after != want:
            shape.append(["inverted-edited-converted", "conns", f"{sorted(after)} vs {sorted(want)}"[:300]])
        else:
            got_r = EventRouter(iw_e).route(src_c, {src_p: 1})
            if "zz_new" not in {str(k_) for k_ in got_r}:
                shape.append(["inverted-edited-converted", "routes", f"route({src_c}.{src_p}) -> {sorted(map(str, got_r))} lacks zz_new"])
        # ... and the other way round: converted to a Wiring, a wire added there in place, inverted again
        w_f = Wiring.from_inverse_wiring(InverseWiring.from_wiring(Wiring(wiring_dict(False, False))))
        w_f["zz_src2"]["o"].add(ComponentPort("zz_new2", "q"))
        inv_after = set(inv_conns(InverseWiring.from_wiring(w_f)))
        if "zz_src2:o>zz_new2:q" not in inv_after or not before <= inv_after:
            shape.append(["converted-edited-inverted", "conns", f"{sorted(inv_after)} lacks the added wire or an old one"[:300]])
    except Exception as e:
        shape.append(["inverted-edited-converted", "raised", f"{type(e).__name__}:{e}"])
    out["shape"] = shape + cfg_shape
    return out


def monitor(inv, real, routes):
    vs = []
    for nm, k, d in real.get("shape", []):
        vs.append(V("router-depends-on-wiring-shape", f"router built from the {nm} form of the same connections: {k}: {d}", site=k))
    declared = sorted(f"{s[0]}:{s[1]}>{b}:{q}" for b, ports in inv.items() for q, s in ports.items())
    for k in ("conns", "inv_conns", "rt_conns"):
        if real[k] != declared:
            lost = sorted(set(declared) - set(real[k]))
            inv_ = sorted(set(real[k]) - set(declared))
            vs.append(V("roundtrip-connections", f"{k}: lost {lost} invented {inv_}", site=k))
    comps = set(inv) | {s[0] for ports in inv.values() for s in ports.values()}
    if set(real["components"]) != comps:
        vs.append(V("components", f"components {real['components']} expected {sorted(comps)}", site="components"))
    if not set(inv) <= set(real["inv_keys"]):
        vs.append(V("unconnected-component-lost", f"keys {real['inv_keys']} do not contain {sorted(inv)}", site="from_wiring"))
    ch = {}
    for b, ports in inv.items():
        for q, s in ports.items():
            ch.setdefault(s[0], set()).add(b)
    for c, deps in real["dependants"]:
        seen, todo = set(), [c]
        while todo:
            x = todo.pop()
            if x not in seen:
                seen.add(x)
                todo.extend(ch.get(x, ()))
        if sorted(seen) != deps:
            vs.append(V("dependants", f"dependants({c}) = {deps}, reachable = {sorted(seen)}", site="dependants"))
    for r, got in zip(routes, real["routes"]):
        exp = {}
        for p, v in r["changes"]:
            for b, ports in inv.items():
                for q, s in ports.items():
                    if tuple(s) == (r["src"], p):
                        exp.setdefault(b, {})[q] = v
        expl = sorted([b, sorted([q, v] for q, v in m.items())] for b, m in exp.items())
        if got != expl:
            vs.append(V("route", f"route({r['src']}, {r['changes']}) = {got}, wired = {expl}", site="route"))
    return vs


def mk_case(inv, rng):
    comps = sorted(set(inv) | {s[0] for ports in inv.values() for s in ports.values()})
    outs = sorted({(s[0], s[1]) for ports in inv.values() for s in ports.values()})
    routes = []
    for c in comps[:4]:
        ps = [p for (a, p) in outs if a == c] + ["zz"]
        k = rng.randrange(1, len(ps) + 1)
        routes.append({"src": c, "changes": [[p, rng.randrange(len(VALS))] for p in rng.sample(ps, k)]})
    return {"inv": inv, "routes": routes, "extra_roots": ["ghost"]}


def to_request(case):
    return {"op": "router", "inverse": [[c, [[q, list(s)] for q, s in ports.items()]] for c, ports in case["inv"].items()],
            "routes": case["routes"], "extra_roots": case["extra_roots"]}


def exhaustive(ncomp, nport, rng):
    comps = [f"c{i}" for i in range(ncomp)]
    srcs = [None] + [(c, f"o{p}") for c in comps for p in range(nport)]
    slots = [(c, f"i{p}") for c in comps for p in range(nport)]
    for combo in itertools.product(srcs, repeat=len(slots)):
        inv = {c: {} for c in comps}
        for (c, q), s in zip(slots, combo):
            if s is not None:
                inv[c][q] = s
        yield mk_case(inv, rng)


def random_case(rng, n):
    comps = [f"k{i}" for i in range(n)]
    keys = [c for c in comps if rng.random() < 0.8]
    inv = {c: {} for c in keys}
    for c in keys:
        for q in range(rng.randrange(0, 4)):
            if rng.random() < 0.6:
                inv[c][rng.choice(("i", "in", f"i{q}"))] = (rng.choice(comps), rng.choice(("o", "out", "o2")))
    return mk_case(inv, rng)


def confusable_case(rng, n):
    """component and port names that contain the separator of the `component:port` string form, so that different
    (component, port) pairs have the same joined name: ("P:Q", "R") / ("P", "Q:R")"""
    comps = rng.sample(["P", "P:Q", "Q", "Q:R", "P:Q:R", "R", ":", "P:"], n)
    inports = ["R", "Q:R", ":R", "i"]
    outports = ["o", "o:o", "Q:o", ":"]
    inv = {c: {} for c in comps if rng.random() < 0.9}
    src = (rng.choice(comps), rng.choice(outports))
    for c in inv:
        for q in rng.sample(inports, rng.randrange(0, 4)):
            # often the SAME output feeds several confusable (component, port) pairs
            inv[c][q] = src if rng.random() < 0.6 else (rng.choice(comps), rng.choice(outports))
    return mk_case(inv, rng)


def run(tier, seed, drv):
    res = Result()
    rng = random.Random(seed)
    cases = list(exhaustive(2, 2, rng))
    n_exh = len(cases)
    if tier == "thorough":
        cases += list(exhaustive(3, 2, rng))
        n_exh = len(cases)
    for _ in range(400 if tier == "quick" else 4000):
        cases.append(random_case(rng, rng.randrange(1, 11)))
    for _ in range(200 if tier == "quick" else 2000):
        cases.append(confusable_case(rng, rng.randrange(2, 6)))
    res.exhaustive = True
    B = 5000
    for i in range(0, len(cases), B):
        chunk = cases[i:i + B]
        replies = drv.eval([to_request(c) for c in chunk])
        for c, rep in zip(chunk, replies):
            real = real_api(c["inv"], c["routes"], c["extra_roots"])
            nconn = sum(len(p) for p in c["inv"].values())
            res.case(str(c["inv"]), nontrivial=nconn > 0, sample={"inverse_wiring": {k: {q: list(s) for q, s in v.items()} for k, v in c["inv"].items()}, "model_dependants": rep.get("dependants")})
            res.count(f"conns={min(nconn, 6)}")
            for k in (x for x in real if x != "shape"):
                if real[k] != rep.get(k):
                    res.diverge(f"router.{k}: impl {real[k]} model {rep.get(k)}", {"inv": {a: {q: list(s) for q, s in v.items()} for a, v in c["inv"].items()}, "routes": c["routes"], "extra_roots": c["extra_roots"]})
                    break
            for v in monitor(c["inv"], real, c["routes"]):
                res.violate(v, {"inv": {a: {q: list(s) for q, s in vv.items()} for a, vv in c["inv"].items()}, "routes": c["routes"], "extra_roots": c["extra_roots"]})
    res.rule = (f"every inverse wiring over {'3' if tier == 'thorough' else '2'} components x 2 input ports x 2 output ports with at most one source per "
                f"input port ({n_exh} wirings incl. cycles and self-loops) plus seeded wirings up to 10 components, shared port names, component and port names containing the ':' of the component:port string form, "
                "sources that are not keys; for each: conversions both ways, round trips, component sets, both trees, dependants of every "
                "component and of an unknown one, route of random change sets incl. an unwired port; non-trivial = at least one connection")
    return res


def replay(payload, drv):
    c = payload["case"]
    inv = {a: {q: tuple(s) for q, s in v.items()} for a, v in c["inv"].items()}
    real = real_api(inv, c["routes"], c["extra_roots"])
    rep = drv.eval([to_request({"inv": inv, "routes": c["routes"], "extra_roots": c["extra_roots"]})])[0]
    return {"impl": real, "model": rep, "violations": monitor(inv, real, c["routes"])}
