"""C03 — devices see exactly the latest upstream values along the declared wiring."""
from . import simprop
import scenario as S

MODULES = ['TickitModel.Props.C03', 'TickitModel.Props.C03Nested', 'TickitModel.Props.FlatInt', 'TickitModel.Props.C03NestedInt', 'TickitModel.Props.C08NestedAnyRun', 'TickitModel.Props.C08NestedInterRun']
THEOREMS = ['synced_init', 'synced_tick', 'inputs_latest', 'synced_run', 'flat_sim_is_flatRun', 'nested_refines_flatRun', 'nested_inputs_synced', 'synced_runI', 'inputs_latest_tickI', 'inputs_latest_runI', 'flatRun_is_flatRunI', 'flat_sim_is_flatRunI', 'nested_refines_flatRunI', 'nested_inputs_synced_int', 'any_order_run_refines_flatRun', 'any_order_run_inputs_synced',
            'interleaved_run_refines_flatRun']
ANCHORS = ["src/tickit/core/management/event_router.py", "src/tickit/core/management/ticker.py",
           "src/tickit/core/components/device_component.py", "src/tickit/core/management/schedulers/nested.py",
           "src/tickit/core/components/system_component.py"]
TECHNIQUE = "Lean 4 theorems (invariant 'component inputs = latest reported upstream values' over all multi-tick histories and answer orders of flat simulations) + whole-simulation trace validation incl. nested boundaries against the model"
LEVEL_TEXT = "Theorems over the flat multi-tick model (any wiring with one source per port, any devices, any number of ticks, any answer order in each tick): the invariant that every wired input holds the latest value ever reported on its source is preserved by every tick, and every observation made in a tick has exactly the wired ports, each with the latest reported value including values produced earlier in the same tick. THROUGH SYSTEM BOUNDARIES: the nested whole-simulation model (any depth) is proved to refine that flat system over the resolved device-level wiring (C09 transparency + 'a flat whole-simulation run is a FlatRun'), so every observation of every device at any depth is explained by a Synced flat run: external and exposed ports deliver exactly the latest values of the resolved sources, in both directions, within the same tick. WITH INTERRUPTS (Props/FlatInt: the flat system extended by external stimuli between ticks, any script of ticks and interrupts): the invariant holds after every such history and every observation was made with the latest reported values (synced_runI, inputs_latest_runI). And through system boundaries WITH interrupts (Props/C03NestedInt): a run of the whole-simulation model with stimuli on a flat configuration is a FlatRunI whose script has exactly the handled stimuli at their positions with the model's stamps, and a nested run with timely stimuli on interrupt-safe devices has, device by device, the observations of a Synced FlatRunI over the resolved wiring (nested_refines_flatRunI, nested_inputs_synced_int). (For callback histories the restriction to first-in first-out answers inside nested schedulers is removed: every run in which every level answers its pending dispatches in ANY order has, device by device, the observations of a Synced FlatRun over the resolved wiring - any_order_run_refines_flatRun. Untimely or mid-tick stimuli inside systems are validated.) Tie to the code: per-device observation sequences of generated flat and nested simulations (depth <= 3, shared port names, several wires from one source, pass-through ports) under two buses must equal those of the Lean model, and a direct monitor checks inputs == latest upstream values through the resolved wiring."
LEVEL_ADDENDUM = "Session 8: system inputs exposed straight through (expose <- external) with no inner listener, also through two levels (generator + corpus); scenarios at other time scales with nearly simultaneous wakeups; one generated scenario in four from a configuration FILE through tickit's own loading path, possibly divided over several simulations."
LEVEL_NOTE = 'Trusts: Lean kernel; hand-written models (tied by whole-simulation trace validation on every run).'
ASSUMPTIONS = ["each input port has one source", "acyclic wiring", "valid configuration names (unique, not 'external'/'expose')"]
MON = ("inputs_latest", "device_order")
CORR = ('inputs',)


def iobox_scenarios():
    """tickit's own IoBox devices wired into each other (values are LISTS that travel by reference): one upstream box feeds
    two others; adapters write to each of them at different times; then each is updated again"""
    MS = 1_000_000
    box = lambda n, ins=None: {"name": n, "kind": "dev", "inputs": ins or {}, "beh": {"iobox": True, "outs": [], "cb": {"kind": "none"}}}   # noqa: E731
    out = []
    for order in (("a", "b", "c"), ("a", "c", "b"), ("b", "a", "c")):
        stims, t = [], 0
        for rnd in range(2):
            for k, who in enumerate(order):
                t += MS
                stims.append({"real": t + 111, "comp": who, "write": [10 * rnd + k, 100 * rnd + k]})
            for who in ("c", "b", "a"):
                t += MS
                stims.append({"real": t + 111, "comp": who})
        out.append({"components": [box("a"), box("b", {"updates": ["a", "updates"]}), box("c", {"updates": ["a", "updates"]}),
                                   {"name": "s", "kind": "sys", "inputs": {"u": ["a", "updates"]}, "expose": {}, "components": [box("d", {"updates": ["external", "u"]})]}],
                    "t0": 0, "speed": [1, 1], "n_ticks": 1 + len(stims), "stims": stims})
    return out


def many_diamonds(k=12):
    """k independent diamonds src_i -> l_i, r_i -> join_i whose branches become due alone, at distinct times, after the
    all-roots initial tick.  Which branch a reachability crawl meets first depends on the iteration order of SETS of
    component names (the interpreter's per-process string hashing), so one diamond shows a given order only with some
    probability; k of them with different names make the shape practically certain to occur."""
    MS = 1_000_000
    d = lambda n, ins=None, cb=None, mod=5: {"name": n, "kind": "dev", "inputs": ins or {},   # noqa: E731
                                             "beh": {"outs": [{"port": "o", "kind": "counter", "v": 0, "mod": mod, "step": 1}], "cb": cb or {"kind": "none"}}}
    comps = []
    for i in range(k):
        tag = ["", "q", "Zz", "x_", "m"][i % 5] + str(i)
        comps += [d(f"{tag}src"),
                  d(f"{tag}l", {"i": [f"{tag}src", "o"]}, {"kind": "list", "delays": [(2 * i + 1) * MS, None]}, 3),
                  d(f"{tag}r", {"i": [f"{tag}src", "o"]}, {"kind": "list", "delays": [(2 * i + 2) * MS, None]}, 4),
                  {"name": f"{tag}join", "kind": "dev", "inputs": {"a": [f"{tag}l", "o"], "b": [f"{tag}r", "o"]},
                   "beh": {"outs": [{"port": "o", "kind": "sum", "v": 0, "mod": 7}], "cb": {"kind": "none"}}}]
    return {"components": comps, "t0": 0, "speed": [1, 1], "n_ticks": 2 * k + 1}


def relay_scenarios():
    """pass-through devices that return the very mapping they were given as their outputs, between a changing source
    and sinks, flat and inside a system"""
    MS = 1_000_000
    d = lambda n, ins=None, cb=None, **beh: {"name": n, "kind": "dev", "inputs": ins or {},   # noqa: E731
                                             "beh": dict({"outs": [{"port": "o", "kind": "counter", "v": 0, "mod": 7, "step": 1}], "cb": cb or {"kind": "none"}}, **beh)}
    flat = {"components": [d("ramp", cb={"kind": "period", "p": MS}), d("relay", {"in": ["ramp", "o"]}, relay=True, outs=[{"port": "in", "kind": "const", "v": 0}]),
                           d("relay2", {"x": ["relay", "in"], "y": ["ramp", "o"]}, relay=True, outs=[{"port": "x", "kind": "const", "v": 0}, {"port": "y", "kind": "const", "v": 0}]),
                           d("sink", {"a": ["relay", "in"], "b": ["relay2", "x"], "c": ["relay2", "y"]})], "t0": 0, "speed": [1, 1], "n_ticks": 6}
    import random as _r
    nested = S.group_into_system(_r.Random(0), {k: (v if k != "components" else [dict(c) for c in v]) for k, v in flat.items()}, ["relay", "relay2"], "rsys")
    return [flat] + ([nested] if nested is not None else [])


def run(tier, seed, drv):
    from sim import run_scenario
    from . import simcommon as SC
    res = simprop.generic_run(tier, seed, drv, monitors_on=MON, corr=CORR)
    scn = many_diamonds(12 if tier == "quick" else 24)
    for b in ("sync", "held"):
        run_ = run_scenario(scn, bus=b, seed=seed)
        res.case("many-diamonds" + b, nontrivial=True)
        res.count("many-diamonds")
        SC.check_run(scn, run_, drv, res, monitors_on=MON, corr=CORR, case_extra={"bus": b, "held_seed": seed})
    for scn in relay_scenarios():
        for b in ("sync", "held", "internal"):
            run_ = run_scenario(scn, bus=b, seed=seed)
            res.case(SC.scn_key(scn) + b, nontrivial=True)
            res.count("relay-devices")
            SC.check_run(scn, run_, drv, res, monitors_on=MON, corr=CORR, case_extra={"bus": b, "held_seed": seed})
    for scn in iobox_scenarios():
        for b in ("sync", "held"):
            run_ = run_scenario(scn, bus=b, seed=seed)
            res.case(SC.scn_key(scn) + b, nontrivial=True)
            res.count("iobox-chain")
            SC.check_run(scn, run_, drv, res, monitors_on=MON, corr=(), case_extra={"bus": b, "held_seed": seed})   # list values are outside the value domain of the model driver: monitors only
    return res


def replay(payload, drv):
    return simprop.generic_replay(payload, drv, monitors_on=MON, corr=CORR)
