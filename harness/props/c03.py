"""C03 — devices see exactly the latest upstream values along the declared wiring."""
from . import simprop

MODULES = ['TickitModel.Props.C03', 'TickitModel.Props.C03Nested', 'TickitModel.Props.FlatInt', 'TickitModel.Props.C03NestedInt']
THEOREMS = ['synced_init', 'synced_tick', 'inputs_latest', 'synced_run', 'flat_sim_is_flatRun', 'nested_refines_flatRun', 'nested_inputs_synced', 'synced_runI', 'inputs_latest_tickI', 'inputs_latest_runI', 'flatRun_is_flatRunI', 'flat_sim_is_flatRunI', 'nested_refines_flatRunI', 'nested_inputs_synced_int']
ANCHORS = ["src/tickit/core/management/event_router.py", "src/tickit/core/management/ticker.py",
           "src/tickit/core/components/device_component.py", "src/tickit/core/management/schedulers/nested.py",
           "src/tickit/core/components/system_component.py"]
TECHNIQUE = "Lean 4 theorems (invariant 'component inputs = latest reported upstream values' over all multi-tick histories and answer orders of flat simulations) + whole-simulation trace validation incl. nested boundaries against the model"
LEVEL_TEXT = "Theorems over the flat multi-tick model (any wiring with one source per port, any devices, any number of ticks, any answer order in each tick): the invariant that every wired input holds the latest value ever reported on its source is preserved by every tick, and every observation made in a tick has exactly the wired ports, each with the latest reported value including values produced earlier in the same tick. THROUGH SYSTEM BOUNDARIES: the nested whole-simulation model (any depth) is proved to refine that flat system over the resolved device-level wiring (C09 transparency + 'a flat whole-simulation run is a FlatRun'), so every observation of every device at any depth is explained by a Synced flat run: external and exposed ports deliver exactly the latest values of the resolved sources, in both directions, within the same tick. WITH INTERRUPTS (Props/FlatInt: the flat system extended by external stimuli between ticks, any script of ticks and interrupts): the invariant holds after every such history and every observation was made with the latest reported values (synced_runI, inputs_latest_runI). And through system boundaries WITH interrupts (Props/C03NestedInt): a run of the whole-simulation model with stimuli on a flat configuration is a FlatRunI whose script has exactly the handled stimuli at their positions with the model's stamps, and a nested run with timely stimuli on interrupt-safe devices has, device by device, the observations of a Synced FlatRunI over the resolved wiring (nested_refines_flatRunI, nested_inputs_synced_int). (The nested model answers dispatches first-in first-out; untimely or mid-tick stimuli inside systems are validated.) Tie to the code: per-device observation sequences of generated flat and nested simulations (depth <= 3, shared port names, several wires from one source, pass-through ports) under two buses must equal those of the Lean model, and a direct monitor checks inputs == latest upstream values through the resolved wiring."
LEVEL_NOTE = 'Trusts: Lean kernel; hand-written models (tied by whole-simulation trace validation on every run).'
ASSUMPTIONS = ["each input port has one source", "acyclic wiring", "valid configuration names (unique, not 'external'/'expose')"]
MON = ("inputs_latest", "device_order")
CORR = ('inputs',)


def run(tier, seed, drv):
    return simprop.generic_run(tier, seed, drv, monitors_on=MON, corr=CORR)


def replay(payload, drv):
    return simprop.generic_replay(payload, drv, monitors_on=MON, corr=CORR)
