"""C03 — devices see exactly the latest upstream values along the declared wiring."""
from . import simprop

MODULES = ["TickitModel.Props.C03"]
THEOREMS = ["synced_init", "synced_tick", "inputs_latest", "synced_run"]
ANCHORS = ["src/tickit/core/management/event_router.py", "src/tickit/core/management/ticker.py",
           "src/tickit/core/components/device_component.py", "src/tickit/core/management/schedulers/nested.py",
           "src/tickit/core/components/system_component.py"]
TECHNIQUE = "Lean 4 theorems (invariant 'component inputs = latest reported upstream values' over all multi-tick histories and answer orders of flat simulations) + whole-simulation trace validation incl. nested boundaries against the model"
LEVEL_TEXT = ("Theorems over the flat multi-tick model (any wiring with one source per port, any devices, any number of ticks, any answer order in "
              "each tick): the invariant that every wired input holds the latest value ever reported on its source is preserved by every tick, and "
              "every observation made in a tick has exactly the wired ports, each with the latest reported value including values produced earlier in "
              "the same tick. PARTIAL: crossing system-simulation boundaries is not yet a theorem; it is covered by trace validation: the per-device "
              "observation sequences of generated nested simulations (depth <= 3, external inputs, exposed and pass-through ports) must equal those "
              "of the Lean whole-simulation model, and a direct monitor checks inputs == latest upstream values through the resolved wiring.")
LEVEL_NOTE = "Trusts: Lean kernel; hand-written models; for nesting the correspondence (not a proof) carries the claim."
ASSUMPTIONS = ["each input port has one source", "acyclic wiring", "valid configuration names (unique, not 'external'/'expose')"]
MON = ("inputs_latest", "device_order")
CORR = ("sim",)


def run(tier, seed, drv):
    return simprop.generic_run(tier, seed, drv, monitors_on=MON, corr=CORR)


def replay(payload, drv):
    return simprop.generic_replay(payload, drv, monitors_on=MON, corr=CORR)
