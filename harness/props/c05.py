"""C05 — the initial tick updates every device at every depth exactly once."""
import random

import scenario as S
from sim import run_scenario

from .base import Result, V
from . import simcommon as SC

MODULES = ['TickitModel.Props.C05', 'TickitModel.Props.AnyTransfer', 'TickitModel.Props.C17Partition']
THEOREMS = ['two_part_division', 'division_hosts_once', 'initial_tick_complete', 'initial_tick_marks_systems', 'tickLevel_once',
            'any_order_initial_tick_complete', 'any_order_tick_one_time']
ANCHORS = ["src/tickit/core/management/schedulers/master.py", "src/tickit/core/management/schedulers/nested.py",
           "src/tickit/core/components/system_component.py", "src/tickit/core/management/ticker.py"]
TECHNIQUE = 'Lean 4 theorems over the whole-simulation model with nested schedulers at any depth (loop invariant for the level tick + induction on nesting depth: every device updated exactly once at t0) + trace validation of real initial ticks over hand-written and generated nestings'
LEVEL_TEXT = "Full-strength theorems over the executable whole-simulation model (master + nested schedulers at unbounded depth, devices as oracles): if the initial tick completes, every device at every depth - fed from outside its system or not - has been updated exactly once, at the initial time, nothing else was updated, and every nested scheduler has done its own initial tick; a tick of any level updates each device below it at most once, all at the tick's time. Dependency order and 'initial outputs reach everything wired, also across exposed ports, in the same tick' are carried by C01/C03 theorems for one level and by trace validation across levels. Tie to the code: the model's initial tick is compared observation by observation with the real initial tick of 4 shapes named by the property and of generated nestings (depth <= 3) under the synchronous and a delaying bus, with direct monitors (once, at t0, before any other tick, in dependency order, inputs = upstream initial outputs). FOR ANY ANSWER ORDER AT EVERY NESTING LEVEL (every scheduler level answers its pending dispatches in ANY order, a system component's answer is any such execution of its inner level; Core/SimAny; none of these corollaries assumes that the first-in first-out model succeeds - that follows from the existence of the execution) (Props/AnyTransfer): in every execution of the initial tick of a valid configuration every device at every depth is observed exactly once, at the initial time, nothing else is updated and every system scheduler has done its first tick (any_order_initial_tick_complete); every observation a tick appends carries that tick's time (any_order_tick_one_time)."
LEVEL_ADDENDUM = "Session 8: a configuration FILE of shipped devices (and one generated scenario in three) is built by tickit's own build_simulation undivided and DIVIDED over 2-7 simulations that share the in-process state interface (scheduler here, components there, components_to_run; three start orders): every device at every depth is updated once at the initial time with the same inputs wherever it is hosted."
LEVEL_NOTE = 'Trusts: Lean kernel; hand-written whole-simulation model (tied by trace validation on every run); the model answers pending dispatches first-in-first-out (other orders: C01/C08).'
ASSUMPTIONS = ["valid configurations: unique names different from 'external'/'expose', wires name existing components, acyclic at every level"]


def shapes(rng):
    """hand-written shapes the property names explicitly + generated nestings"""
    dev = lambda n, ins=None, outs=("o",), cb=None: {"name": n, "kind": "dev", "inputs": ins or {},
                                                     "beh": {"outs": [{"port": p, "kind": "counter", "mod": 3, "v": 1} for p in outs], "cb": cb or {"kind": "none"}}}
    out = []
    # inner device not fed from outside; exposed to an outer sink (examples/configs/nested.yaml shape)
    out.append({"components": [
        dev("src"),
        {"name": "sys", "kind": "sys", "inputs": {"x": ["src", "o"]}, "expose": {"y": ["free", "o"], "z": ["fed", "o"]},
         "components": [dev("fed", {"i": ["external", "x"]}), dev("free")]},
        dev("sink", {"a": ["sys", "y"], "b": ["sys", "z"]})], "t0": 0, "n_ticks": 1})
    # system with no external inputs at all
    out.append({"components": [
        {"name": "sys", "kind": "sys", "inputs": {}, "expose": {"y": ["a", "o"]}, "components": [dev("a"), dev("b", {"i": ["a", "o"]})]},
        dev("sink", {"i": ["sys", "y"]})], "t0": 5, "n_ticks": 1})
    # no expose, no inputs, depth 3
    out.append({"components": [
        {"name": "s1", "kind": "sys", "inputs": {}, "expose": {}, "components": [
            {"name": "s2", "kind": "sys", "inputs": {}, "expose": {}, "components": [
                {"name": "s3", "kind": "sys", "inputs": {}, "expose": {}, "components": [dev("deep")]}, dev("mid")]}]},
        dev("top")], "t0": 123, "n_ticks": 1})
    # pass-through expose
    out.append({"components": [
        dev("src"),
        {"name": "sys", "kind": "sys", "inputs": {"x": ["src", "o"]}, "expose": {"y": ["external", "x"]}, "components": [dev("inner")]},
        dev("sink", {"i": ["sys", "y"]})], "t0": 0, "n_ticks": 1})
    return out


def run(tier, seed, drv):
    res = Result()
    rng = random.Random(seed)
    scns = SC.corpus_scenarios() + shapes(rng)
    for scn in SC.scenario_family(rng, tier, count=40 if tier == "quick" else 400, callbacks=True):
        scn = dict(scn, n_ticks=1, t0=rng.choice((0, 7, 1_000_000, -5)))
        scns.append(scn)
    for i, scn in enumerate(scns):
        scn = dict(scn, n_ticks=min(scn.get("n_ticks", 1), 2))
        SC.stats_into(res, scn)
        for b in ("sync", "held"):
            run_ = run_scenario(scn, bus=b, seed=rng.randrange(1 << 30))
            res.case(SC.scn_key(scn) + b, nontrivial=len(S.devices(scn)) > 1, sample={"scenario": scn, "bus": b} if i < 2 and b == "sync" else None)
            SC.check_run(scn, run_, drv, res, monitors_on=("initial_tick", "device_order", "inputs_latest"), corr=("sim",), case_extra={"bus": b})
        if i % 3 == 1:
            # ... and from a configuration FILE through build_simulation, as one simulation or divided over several on one bus
            fs = SC.as_config_file(scn, rng, split=(i % 8 < 4))
            b = rng.choice(("sync", "held", "internal"))
            sd = rng.randrange(1 << 30)
            run_ = run_scenario(fs, bus=b, seed=sd)
            res.case(SC.scn_key(fs) + f"file:{b}", nontrivial=len(S.devices(fs)) > 1)
            res.count("from-config-file" + ("-divided" if len(fs["from_file"]) > 1 else ""))
            SC.check_run(fs, run_, drv, res, monitors_on=("initial_tick", "device_order", "inputs_latest"), corr=("sim",), case_extra={"bus": b, "held_seed": sd})
    # the same shapes with a master scheduler that comes up late while a component that is already running has
    # raised an interrupt (replayed to the scheduler when it subscribes): the initial tick must still update every
    # device at every depth once, in dependency order, before anything else happens
    import copy
    for si, scn in enumerate(shapes(rng)):
        quiet = [d["name"] for d in S.devices(scn) if not d["inputs"]]
        for who in quiet:
            for late, at in ((3, 1), (4, 2), (6, 4)):
                s2 = dict(copy.deepcopy(scn), start_delays={"": late}, stims=[{"step": 1 + at, "comp": who}], n_ticks=2)
                for b in ("sync", "internal"):
                    run_ = run_scenario(s2, bus=b)
                    raised = [e for e in run_["trace"].of("raise") if e.get("ok")]
                    res.case(f"late-master:{si}:{who}:{late}:{at}:{b}", nontrivial=bool(raised))
                    res.count("late-master-early-interrupt" if raised else "late-master-early-interrupt-not-raised")
                    SC.check_run(s2, run_, drv, res, monitors_on=("initial_tick", "device_order", "inputs_latest"), corr=("ticker",), case_extra={"bus": b})
    # ... and with the scheduler up first and the components (system simulations included) joining one after another, so
    # that the initial Input of a late one is already waiting on its topic when it subscribes
    for si, scn in enumerate(shapes(rng)):
        tops = [c["name"] for c in scn["components"]]
        vecs = [{t: 2 + 2 * i for i, t in enumerate(tops)}, {t: 2 + 2 * (len(tops) - i) for i, t in enumerate(tops)}]
        vecs += [{c["name"]: k} for c in scn["components"] if c["kind"] == "sys" for k in (2, 5)]
        for delays in vecs:
            s2 = dict(copy.deepcopy(scn), start_delays=delays, n_ticks=1)
            for b in ("sync", "internal", "kafka"):
                run_ = run_scenario(s2, bus=b, seed=seed)
                res.case(f"late-components:{si}:{sorted(delays.items())}:{b}", nontrivial=True)
                res.count("late-components")
                SC.check_run(s2, run_, drv, res, monitors_on=("initial_tick", "device_order", "inputs_latest"), corr=("ticker",), case_extra={"bus": b})
    partition_part(res, seed)
    res.rule = ("4 hand-written shapes named by the property (unfed inner device exposed outward; system without external inputs; depth 3 without "
                "inputs/expose; pass-through expose) + corpus + generated flat/nested configurations (depth <= 3), each under the synchronous and a "
                "delaying bus, initial times 0/7/1e6/-5; the initial tick is compared with the Lean whole-simulation model and monitored directly "
                "(every device once, at t0, in dependency order, inputs = latest upstream outputs); the 4 shapes also with a late master scheduler and an interrupt of an input-less device (at any depth) raised before it is up, and with the scheduler first and the components (systems included) joining late one after another; a configuration file of shipped devices built by build_simulation, undivided and divided over 2-7 simulations on one bus (6 partitions x 3 start orders). non-trivial = more than one device")
    return res


def partition_part(res, seed):
    """a configuration FILE (shipped Source / Sink devices, a system simulation with a fed and an unfed inner device, a
    pass-through port and a second level) built by tickit's own `build_simulation`, undivided and DIVIDED over several
    simulations that share the in-process state interface (scheduler here, components there; `components_to_run`): the
    initial tick must update every device at every depth once, at the initial time, with its upstream's initial output -
    wherever the component is hosted and in whatever order the parts come up"""
    import dist_sim as D
    ent = D.entries_basic()
    devs = D.all_device_names(ent)
    ref = None
    for pi, parts in enumerate(D.partitions(ent)):
        for gaps in ([0] * len(parts), [3 * i for i in range(len(parts))], [3 * (len(parts) - i) for i in range(len(parts))]):
            if pi == 0 and any(gaps):
                continue
            r = D.run_partition(ent, parts, start_gaps=gaps)
            pd = D.per_device(r["log"])
            case = {"partition": parts, "gaps": gaps, "entries": "basic"}
            res.case(f"partition:{pi}:{gaps}", nontrivial=len(parts) > 1)
            res.count("partitioned-build")
            for e in r["errors"]:
                res.violate(V("exception-escaped", e[:200], site="build_simulation/run"), case)
            for d in devs:
                ups = pd.get(d, [])
                if len(ups) != 1 or ups[0][0] != 0:
                    res.violate(V("initial-tick-incomplete", f"device {d} updated {[(t, i) for t, i in ups]} in the initial tick of the configuration "
                                  f"divided as {r['built']} (start gaps {gaps}); expected exactly one update at time 0", site="partitioned", device=d), case)
            if ref is None:
                ref = pd
            elif pd != ref and not [1 for d in devs if len(pd.get(d, [])) != 1]:
                diff = {d: (pd.get(d), ref.get(d)) for d in devs if pd.get(d) != ref.get(d)}
                res.violate(V("initial-inputs-differ", f"divided as {r['built']} the initial tick gives {diff} (second: undivided run)", site="partitioned"), case)


def replay(payload, drv):
    c = payload["case"]
    if c.get("partition"):
        import dist_sim as D
        ent = D.entries_basic()
        r = D.run_partition(ent, c["partition"], start_gaps=c.get("gaps"))
        pd = D.per_device(r["log"])
        bad = [d for d in D.all_device_names(ent) if len(pd.get(d, [])) != 1]
        ref = D.per_device(D.run_partition(ent, D.partitions(ent)[0])["log"])
        return {"observed": {k: v for k, v in pd.items()}, "built": r["built"],
                "violations": ([V("initial-tick-incomplete", f"{bad}")] if bad else []) + ([V("initial-inputs-differ", "")] if not bad and pd != ref else [])}
    res = Result()
    run_ = run_scenario(c["scenario"], bus=c.get("bus", "sync"), seed=payload.get("seed", 0))
    SC.check_run(c["scenario"], run_, drv, res, monitors_on=("initial_tick", "device_order", "inputs_latest"), corr=("sim",))
    return {"violations": [v["record"] for v in res.violations], "divergences": res.divergences[:3]}
