"""Generic simulation-based check body used by several properties."""
import random

import model
import monitors
import scenario as S
from sim import run_scenario

from .base import Result, V
from . import simcommon as SC


def generic_run(tier, seed, drv, *, monitors_on, corr, nested=True, flat=True, callbacks=True, buses=("sync", "held", "held"),
                count_q=30, count_t=300, tweak=None, with_real=False, extra=None, rule=""):
    res = Result()
    rng = random.Random(seed)
    scns = SC.corpus_scenarios() + SC.scenario_family(rng, tier, nested=nested, flat=flat, callbacks=callbacks,
                                                      count=count_q if tier == "quick" else count_t)
    for i, scn in enumerate(scns):
        if tweak:
            scn = tweak(scn, rng)
        SC.stats_into(res, scn)
        # every third scenario also on tickit's own in-memory state interface (the real InternalStateServer)
        # ... and every fourth on tickit's own KAFKA state interface (its consumer loop and YAML (de)serialisation) over an
        # in-process broker with the contract semantics (aiokafka itself is replaced)
        for j, b in enumerate(tuple(buses) + (("internal",) if i % 3 == 0 else ()) + (("kafka",) if i % 4 == 1 else ())):
            sd = rng.randrange(1 << 30)
            run = run_scenario(scn, bus=b, seed=sd)
            nupd = len(run["trace"].of("update"))
            res.case(SC.scn_key(scn) + f"{b}{j}", nontrivial=nupd > len(S.devices(scn)),
                     sample={"scenario": scn, "bus": b, "updates": nupd} if i < 2 and j == 0 else None)
            res.count("bus=" + b)
            res.count("skips", sum(1 for e in run["trace"].of("t-dispatch") if e["dk"] == "skip"))
            res.count("inputs", sum(1 for e in run["trace"].of("t-dispatch") if e["dk"] == "input"))
            SC.check_run(scn, run, drv, res, monitors_on=monitors_on, corr=corr, case_extra={"bus": b, "held_seed": sd}, with_real=with_real)
            if extra:
                extra(scn, run, res, rng)
        if i % 4 == 2 and "start_delays" not in scn:
            # ... and through tickit's own loading path: configuration FILE -> read_configs -> build_simulation (one
            # simulation or divided over several on one bus) -> TickitSimulation.run()
            fs = SC.as_config_file(scn, rng, split=(i % 8 < 4))
            b = rng.choice(("sync", "held", "internal"))
            sd = rng.randrange(1 << 30)
            run = run_scenario(fs, bus=b, seed=sd)
            res.case(SC.scn_key(fs) + f"file:{b}", nontrivial=len(run["trace"].of("update")) > len(S.devices(fs)))
            res.count("from-config-file" + ("-divided" if len(fs["from_file"]) > 1 else ""))
            SC.check_run(fs, run, drv, res, monitors_on=monitors_on, corr=corr, case_extra={"bus": b, "held_seed": sd}, with_real=False)
    res.rule = rule or ("corpus + generated flat and nested simulations (DAG slices grouped into systems, depth <= 3, shared port names, fan-in/out, "
                        "periodic / one-shot / re-planned callbacks, repeating and omitted output values), each run on the real code under the "
                        "synchronous bus and seeded delaying-bus schedules; traces validated against the Lean model; non-trivial = at least one "
                        "device update beyond the initial tick")
    return res


def generic_replay(payload, drv, *, monitors_on, corr, with_real=False):
    c = payload["case"]
    res = Result()
    run = run_scenario(c["scenario"], bus=c.get("bus", "sync"), seed=c.get("held_seed", payload.get("seed", 0)))
    SC.check_run(c["scenario"], run, drv, res, monitors_on=monitors_on, corr=corr, with_real=with_real)
    return {"violations": [v["record"] for v in res.violations], "divergences": res.divergences[:3]}
