"""C08 — results do not depend on message timing (schedule independence)."""
import random

import model
import monitors
import scenario as S
from sim import run_scenario

from .base import Result, V
from . import simcommon as SC

MODULES = ['TickitModel.Props.C08', 'TickitModel.Props.C02', 'TickitModel.Props.C03Nested', 'TickitModel.Props.FlatInt', 'TickitModel.Props.C03NestedInt', 'TickitModel.Props.C08NestedAny', 'TickitModel.Props.C08NestedAnyRun', 'TickitModel.Props.C08NestedAnyEx', 'TickitModel.Props.C08NestedInter', 'TickitModel.Props.C08NestedInterRun', 'TickitModel.Props.C08NestedInterEx2', 'TickitModel.Props.C08Msg', 'TickitModel.Props.C08MsgRun']
THEOREMS = ['tickRun_deterministic', 'schedule_independent', 'tick_deterministic', 'nested_schedule_independent', 'schedule_independentI', 'nested_schedule_independent_int',
            'fifo_is_any', 'any_order_frame', 'nested_any_order_deterministic', 'any_order_same_start', 'any_order_agrees_with_fifo', 'any_order_same_observations', 'any_order_fifo_exists',
            'fifo_run_is_any', 'any_order_run_deterministic', 'any_order_run_agrees_with_fifo', 'any_order_run_inputs_synced', 'any_order_run_has_fifo', 'any_order_run_refines_flatRun',
            'atomic_is_interleaved', 'fifo_is_interleaved', 'interleaved_has_atomic', 'interleaved_equiv_atomic', 'interleaved_agrees_with_every_atomic', 'interleaved_deterministic', 'interleaved_agrees_with_fifo', 'interleaved_fifo_exists', 'interleaved_same_observations', 'interleaved_frame', 'any_run_is_interleaved', 'interleaved_run_has_atomic_run', 'interleaved_run_deterministic', 'interleaved_run_agrees_with_fifo', 'interleaved_run_refines_flatRun',
            'msg_step_refines', 'msg_tick_refines', 'msg_abs_is_abstraction', 'msg_trace_transfer', 'msg_no_failure', 'msg_react_at_most_once', 'msg_react_after_upstreams', 'msg_complete_all_consumed', 'msg_observations_exact', 'msg_tick_deterministic', 'msg_bus_contract', 'msgTopic_name_injective', 'msg_run_refines_flatRun', 'msg_run_schedule_independent', 'msg_run_tick_is_msg_tick']
ANCHORS = ["src/tickit/core/management/ticker.py", "src/tickit/core/management/schedulers/base.py",
           "src/tickit/core/state_interfaces/state_interface.py", "src/tickit/core/state_interfaces/internal.py",
           "src/tickit/core/state_interfaces/kafka.py", "src/tickit/core/components/component.py"]
TECHNIQUE = "Lean 4 theorems (every answer order of every tick yields the same dispatches; by induction over ticks the same per-device observation sequences - uniqueness of the tick equations on acyclic wirings) + exhaustive/seeded enumeration of delivery orders of the real code on a delaying conforming bus, validated against the model"
LEVEL_TEXT = ("Theorems over the flat multi-tick model: two complete runs of one tick with any two answer orders give every component the same dispatch "
              "(strong induction on the acyclicity rank), and by induction over the tick sequence two runs of the same simulation have the same tick "
              "times and the same per-device (time, inputs) sequences, for deterministic devices; the same holds for histories WITH external stimuli applied between ticks (schedule_independentI: same script of ticks and stamped interrupts => same tick times, observations and wakeups, whatever the answer orders). For nested simulations the whole-simulation model (first-in first-out inside nested schedulers) is proved to have exactly the observations of "
              "EVERY flat run over the resolved wiring, whatever its answer orders (nested_schedule_independent; with timely external stimuli: nested_schedule_independent_int); ARBITRARY ANSWER ORDERS AT EVERY LEVEL OF NESTING (Core/SimAny, Props/C08NestedAny, C08NestedAnyRun): TickLevelAny is the nested tick in which every scheduler level answers ANY pending dispatch next and a system component's answer is any such execution of its inner level; on a valid configuration two executions of the same tick from equivalent states - whatever the answer orders at this level and inside every system component at every depth - end in equivalent states (same device inputs / last outputs / wakeups as mappings, same per-device observation sequences) with the same exposed output changes (nested_any_order_deterministic), the first-in first-out model is one of the executions (fifo_is_any) and completes every tick that has any execution (any_order_fifo_exists), whole runs incl. external stimuli do the same ticks and observations (any_order_run_deterministic), and every any-order run has the observations of a Synced FlatRun over the resolved wiring (any_order_run_refines_flatRun). FULLY INTERLEAVED (Core/SimInter, Props/C08NestedInter, C08NestedInterRun): a small-step semantics in which the inner ticks of sibling system components - at every depth - are open at the same time and their steps interleave arbitrarily (open / answer / close per active level); every atomic execution is an interleaved one (atomic_is_interleaved), every complete interleaved execution has an atomic execution with the same exposed outputs and the same device state, counts, scheduler state and per-device observations under every key (interleaved_has_atomic, by a forward simulation with a virtual state per active level and disjoint footprints), hence determinism, agreement with the first-in first-out model and its existence, the same observations in all interleaved executions, and whole runs over interleaved ticks refine a Synced FlatRun (interleaved_deterministic, interleaved_fifo_exists, interleaved_same_observations, interleaved_run_refines_flatRun). Not proved: that every reachable interleaved configuration can be completed (liveness of the interleaved semantics itself). MESSAGE LEVEL (Core/MsgFlat, MsgFlatRun; Props/C08Msg, C08MsgRun): one scheduler level over the contract bus with MESSAGES in flight - per-topic append-only logs, one cursor per consumer and topic, replay from the first offset, the scheduler and every component starting at any moment and in any order, any interleaving of deliveries (a component consuming its Input and producing its Output; the scheduler consuming an Output or its own Skip and producing the newly possible dispatches): every message-level step is a stutter or exactly one step of the answer-level tick system (msg_step_refines, msg_tick_refines, msg_abs_is_abstraction), so everything proved of the answer-level traces holds of every message-level history (msg_trace_transfer): at most one reaction per component and tick, only after its in-tick upstreams were consumed, with exactly the prescribed inputs, whatever the interleaving and the start delays (msg_react_at_most_once, msg_react_after_upstreams, msg_observations_exact, msg_tick_deterministic); over many ticks every message-level run refines a FlatRun with the same tick times and observations, so two runs with different interleavings and start patterns make the same observations (msg_run_refines_flatRun, msg_run_schedule_independent). Not at message level: interrupts, nested schedulers, real time. The message-level model is a TRACE ACCEPTOR on every run of a flat scenario without stimuli under the delaying bus and under tickit's own Kafka interface: who subscribed when, which message was delivered to whom in which order and when each tick began must be an execution of Core/MsgFlatRun with the same device updates. Tie to the code: every generated simulation is run on the real classes under the "
              "synchronous bus and under a broker-like bus (per-topic FIFO, one pump per consumer) whose delivery order is enumerated exhaustively by "
              "DFS on small configurations (<= 5 components) and sampled on larger flat and nested ones; all per-device observation sequences must "
              "coincide with each other and with the Lean model's.")
LEVEL_ADDENDUM = 'Session 8: one schedule in three of the callback-driven scenarios runs with message latency IN REAL TIME (up to 0.7 ms per loop iteration, more than some requested callback delays); the fake aiokafka refuses iteration / send before start() has completed.'
LEVEL_NOTE = "Trusts: Lean kernel; hand-written models; the HeldBus harness class as a faithful rendering of the state-interface contract (Kafka itself is not run)."
ASSUMPTIONS = ["devices are deterministic functions of (their history, time, inputs)", "stimuli are applied between ticks", "per-topic FIFO delivery"]


def compare_obs(a, b, what, scn, res, extra):
    oa, ob = model.observations(a["trace"]), model.observations(b["trace"])
    if scn.get("noop_ticks_possible"):
        # a schedule may contain additional ticks in which no device is updated; the runs stop after the same
        # NUMBER of master ticks, so compare up to the simulation time both have passed
        def last(r):
            tid = monitors.master_tid(r)
            ts = [e["time"] for e in r["trace"].of("t-done") if e["tid"] == tid]
            return ts[-1] if ts else -1
        h = min(last(a), last(b))
        oa = {d: [o for o in v if o[0] < h] for d, v in oa.items()}
        ob = {d: [o for o in v if o[0] < h] for d, v in ob.items()}
    for d in sorted(set(oa) | set(ob)):
        if oa.get(d, []) != ob.get(d, []):
            x, y = oa.get(d, []), ob.get(d, [])
            k = next((i for i in range(min(len(x), len(y))) if x[i] != y[i]), min(len(x), len(y)))
            res.violate(V("schedule-dependent", f"{what}: device {d} observation #{k}: {x[k] if k < len(x) else None} vs {y[k] if k < len(y) else None}",
                          site="observations", comp=d), {"scenario": scn, **extra})
            return False
    return True


def run(tier, seed, drv):
    res = Result()
    rng = random.Random(seed)
    # (a) exhaustive delivery orders on small wirings
    small = []
    for _ in range(6 if tier == "quick" else 40):
        scn = S.gen_flat(rng, n=rng.randrange(2, 5 if tier == "quick" else 6), callbacks=True)
        scn["n_ticks"] = 2
        small.append(scn)
    limit = 60 if tier == "quick" else 600
    for scn in small:
        base = run_scenario(scn, bus="sync")
        SC.check_run(scn, base, drv, res, monitors_on=(), corr=("inputs", "ticks"), case_extra={"bus": "sync"})
        n = 0
        for prefix, run_ in SC.dfs_orders(scn, limit):
            n += 1
            res.case(SC.scn_key(scn) + str(prefix), nontrivial=True, sample={"scenario": scn, "choice_prefix": prefix} if n == 2 and len(res.samples) < 2 else None)
            res.count("dfs-orders")
            if run_["result"][0] != "ok":
                res.violate(V("run-did-not-complete", str(run_["result"]), site="run"), {"scenario": scn, "prefix": prefix})
                continue
            compare_obs(base, run_, f"sync vs delivery order {prefix}", scn, res, {"prefix": prefix})
            if n % 5 == 1:
                SC.msg_level_accept(scn, run_, drv, res, {"scenario": scn, "prefix": prefix})
        res.count("exhausted" if n < limit else "dfs-cut-at-limit")
    # (b) sampled schedules on larger flat and nested simulations
    scns = SC.corpus_scenarios() + SC.scenario_family(rng, tier, count=24 if tier == "quick" else 250)
    # external stimuli applied between ticks: interrupts on inner and outer devices of nested simulations
    from .c07 import dev
    P = 10_000_000
    for k in range(6 if tier == "quick" else 40):
        times = sorted(rng.sample(range(1, 40), 3))
        scns.append({"components": [dev("SRC", cb={"kind": "period", "p": 2 * P}),
                                    {"name": "SYS", "kind": "sys", "inputs": {"x": ["SRC", "o"]}, "expose": {"y": ["Y", "o"]},
                                     "components": [dev("X", {"i": ["external", "x"]}), dev("Y", {"i": ["X", "o"]}), dev("Z")]},
                                    dev("SINK", {"i": ["SYS", "y"]})],
                     "n_ticks": 6, "stims": [{"real": t * 1_000_000 + 333, "comp": rng.choice(["X", "Y", "Z", "SINK"])} for t in times]})
    # two interrupts at the same instant on two UNWIRED devices inside one system: depending on the delivery
    # order the system is interrupted twice and the second tick finds nothing left to do (it must still
    # complete); every device is updated once at that instant whatever the order
    for k in range(4 if tier == "quick" else 24):
        t1 = rng.randrange(1, 18) * 1_000_000 + 333
        scns.append({"components": [dev("SRC", cb={"kind": "period", "p": 2 * P}),
                                    {"name": "SYS", "kind": "sys", "inputs": {"x": ["SRC", "o"]}, "expose": {"y": ["Y", "o"]},
                                     "components": [dev("X", {"i": ["external", "x"]}), dev("Y", {"i": ["X", "o"]}), dev("Z"), dev("W")]},
                                    dev("SINK", {"i": ["SYS", "y"]})],
                     "n_ticks": 7, "noop_ticks_possible": True,
                     "stims": [{"real": t1, "comp": "Z"}, {"real": t1, "comp": "W"}, {"real": t1 + 25_000_000, "comp": rng.choice(["Z", "W"])}]})
    # a stimulus for a device that is DOWNSTREAM of a periodic device, applied at the very instant of that device's callback:
    # whether the Interrupt reaches the scheduler before the tick starts, while the downstream device is still waiting for its
    # upstream in that tick, or after it, is a matter of delivery order at one instant; the device must observe the same.
    # The upstream's output never changes (the downstream device is passed over by the upstream's ticks).
    cs = dev("AC", cb={"kind": "period", "p": P})
    cs["beh"]["outs"] = [{"port": "o", "kind": "const", "v": 5}]
    for k in (1, 2, 3):
        scns.append({"components": [cs, dev("XD", {"i": ["AC", "o"]}), dev("XE", {"i": ["XD", "o"]})], "n_ticks": 6, "noop_ticks_possible": True,
                     "stims": [{"real": k * P, "comp": "XD"}, {"real": (k + 1) * P, "yields": 1, "comp": "XE"}]})
    for i, scn in enumerate(scns):
        SC.stats_into(res, scn)
        base = run_scenario(scn, bus="sync")
        SC.check_run(scn, base, drv, res, monitors_on=(), corr=("inputs", "ticks"), case_extra={"bus": "sync"})
        if not scn.get("stims") and "start_delays" not in scn and i % 2 == 0:
            # latency in COMING UP: one component (a device or a whole system simulation) joins a few loop iterations after the
            # others, on tickit's own in-memory interface (its initial Input is replayed to it when it subscribes) and on the
            # delaying bus; the devices observe what they observe when all start together
            tops = [c["name"] for c in scn["components"]]
            syss = [c["name"] for c in scn["components"] if c["kind"] == "sys"]
            who = rng.choice(syss) if syss and rng.random() < 0.7 else rng.choice(tops)
            for lb in ("internal", "held"):
                sd = rng.randrange(1 << 30)
                s_late = dict(scn, start_delays={who: rng.choice((1, 2, 4))})
                run_ = run_scenario(s_late, bus=lb, seed=sd)
                res.case(SC.scn_key(scn) + f"late:{who}:{lb}", nontrivial=True)
                res.count("late-component-start")
                if run_["result"][0] != "ok" or monitors.run_failures(run_):
                    res.violate(V("run-did-not-complete", f"with {who} coming up late on the {lb} bus: {run_['result']} {monitors.run_failures(run_)[:1]}", site="run"),
                                {"scenario": s_late, "bus": lb, "held_seed": sd})
                else:
                    compare_obs(base, run_, f"all together vs {who} coming up late ({lb})", scn, res, {"scenario": s_late, "bus": lb, "held_seed": sd})
        for j in range((6 if scn.get("stims") else 3) if tier == "quick" else (12 if scn.get("stims") else 6)):
            sd = rng.randrange(1 << 30)
            # one schedule in three runs on tickit's own Kafka state interface (consumer loop, YAML round trip of every
            # message) over an in-process broker with the contract semantics
            hb = "kafka" if j % 3 == 2 else "held"
            # one schedule in three of the callback-driven scenarios with latency IN REAL TIME: every loop iteration (hence every
            # hop of a message) takes up to 0.7 ms, more than some of the callback delays the devices ask for (0, 1 ms ...);
            # without external stimuli what the devices observe does not depend on it
            slow = [sd, 0, 1_000, 50_000, 700_000] if (j % 3 == 1 and not scn.get("stims") and scn.get("speed", [1, 1]) == [1, 1]) else None
            run_ = run_scenario(dict(scn, step_cost_ns=slow) if slow else scn, bus=hb, seed=sd)
            res.case(SC.scn_key(scn) + str(sd), nontrivial=len(run_["trace"].of("update")) > len(S.devices(scn)))
            res.count("sampled-orders" + ("-kafka-interface" if hb == "kafka" else "") + ("-real-time-latency" if slow else ""))
            if run_["result"][0] != "ok":
                res.violate(V("run-did-not-complete", str(run_["result"]), site="run"), {"scenario": scn, "bus": hb, "seed": sd, "step_cost_ns": slow})
                continue
            if slow:
                compare_obs(base, run_, f"sync vs {hb} seed {sd} with real-time latency", scn, res, {"bus": hb, "held_seed": sd, "step_cost_ns": slow})
                continue
            if compare_obs(base, run_, f"sync vs {hb} seed {sd}", scn, res, {"bus": hb, "held_seed": sd}):
                SC.check_run(scn, run_, drv, res, monitors_on=(), corr=("inputs", "ticks"), case_extra={"bus": hb, "held_seed": sd})
                SC.msg_level_accept(scn, run_, drv, res, {"scenario": scn, "bus": hb, "held_seed": sd})
    res.rule = (f"(a) flat wirings of 2-{4 if tier == 'quick' else 5} components, 2 ticks: every delivery order of the delaying bus enumerated by stateless DFS "
                f"(cut at {limit} orders per wiring); (b) generated flat/nested simulations + corpus under the synchronous bus and 3-6 seeded delaying "
                "schedules; per-device (time, inputs) sequences compared pairwise and with the Lean model; distinct = (scenario, schedule)")
    return res


def replay(payload, drv):
    c = payload["case"]
    scn = c["scenario"]
    res = Result()
    base = run_scenario(scn, bus="sync")
    if "prefix" in c:
        from buses import PrefixChooser
        other = run_scenario(scn, bus="held", chooser=PrefixChooser(c["prefix"]))
    else:
        other = run_scenario(dict(scn, step_cost_ns=c["step_cost_ns"]) if c.get("step_cost_ns") else scn,
                             bus=c.get("bus", "held") if c.get("bus") in ("held", "kafka") else "held", seed=c.get("held_seed", 0))
    compare_obs(base, other, "replay", scn, res, {})
    return {"violations": [v["record"] for v in res.violations]}
