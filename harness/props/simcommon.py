"""Shared driver for the simulation-based property checks: run generated scenarios on the
real code under several buses/schedules, validate the traces against the Lean model
(whole-simulation run + per-ticker acceptor) and apply property monitors."""
import copy
import random

import model
import monitors
import scenario as S
from buses import PrefixChooser
from sim import run_scenario

from .base import Result, V


def scn_key(scn):
    import json
    return json.dumps(scn, sort_keys=True)


def healthy(run, allow_error=False):
    """infrastructure-level sanity of a run: it ended for the expected reason"""
    return run["result"][0] == "ok"


def check_run(scn, run, drv, res, *, monitors_on=(), corr=("sim", "ticker"), case_extra=None, expect_failures=False,
              with_real=False, with_costs=False):
    """correspondence + monitors for one run. Returns number of findings."""
    case = {"scenario": scn, **(case_extra or {})}
    n = 0
    if run["result"][0] != "ok":
        res.violate(V("run-did-not-complete", f"harness run result {run['result'][0]} (steps {run['steps']})", site="run"), case)
        return 1
    fails = monitors.run_failures(run)
    if fails and not expect_failures:
        name, exc = fails[0]
        res.violate(V("exception-escaped", f"{name}: {exc}", site=exc.split("(")[0][:60]), case)
        n += 1
    tid_ = monitors.master_tid(run)
    open_tick = (len([e for e in run["trace"].of("t-call") if e["tid"] == tid_]) >
                 len([e for e in run["trace"].of("t-done") if e["tid"] == tid_])) or tid_ is None
    if run["info"].get("stop") == "stalled" and open_tick and not expect_failures:
        res.violate(V("simulation-stalled", "a tick is in progress but nothing is runnable and no timer is pending", site="stall"), case)
        n += 1
    reqs = []
    want_sim = any(c in corr for c in ("sim", "ticks", "inputs"))
    if want_sim:
        rq = model.sim_request(scn, run["trace"], n_ticks=max(0, len([e for e in run["trace"].of("t-done") if e["tid"] == monitors.master_tid(run)]) - 1),
                               extra={"start_real": run["info"]["start_real"]})
        if with_costs:
            # the master loop WITH processing costs (Core/SimCost, Props/C12Cost): the real time each master tick took
            mt = monitors.master_tid(run)
            calls = [e for e in run["trace"].of("t-call") if e["tid"] == mt]
            dones = [e for e in run["trace"].of("t-done") if e["tid"] == mt]
            rq["costs"] = [d["real"] - c["real"] for c, d in zip(calls, dones)] + [0, 0, 0]
        reqs.append(rq)
    treqs, texp = [], []
    if "ticker" in corr:
        treqs, texp, _ = model.ticker_requests(run["trace"])
    mreq = [model.master_loop_request(run)] if "mloop" in corr else []
    replies = drv.eval(reqs + treqs + mreq)
    if mreq:
        mrep = replies[-1]
        replies = replies[:-1]
        if not (mrep or {}).get("accepted", False):
            i = (mrep or {}).get("at")
            evs = mreq[0]["events"]
            res.diverge(f"master run loop (flag protocol model): observed event #{i} {evs[i] if isinstance(i, int) and i < len(evs) else None} "
                        f"after {evs[max(0, (i or 0) - 3):i] if isinstance(i, int) else None} is not possible in the model (model states: {(mrep or {}).get('pcs')})"[:600], case)
        res.traces_validated += 1
    if want_sim:
        rep = replies[0]
        tid = monitors.master_tid(run)
        ds = []
        if "sim" in corr:
            ds = model.compare_sim(scn, run, rep, run["info"]["start_real"]) + model.compare_ticks(run, rep, tid, run["info"]["start_real"], with_real=with_real)
        else:
            # projections: a property's correspondence only covers the aspect its theorems speak about
            if "ticks" in corr and not rep.get("err"):
                ds += model.compare_ticks(run, rep, tid, run["info"]["start_real"], with_real=with_real)
            if "inputs" in corr:
                ds += model.compare_inputs_aligned(run, rep)
        for d in ds:
            res.diverge("whole-simulation: " + d, case)
        res.traces_validated += 1
    if "ticker" in corr:
        for rp, ex in zip(replies[len(reqs):], texp):
            for d in model.compare_ticker(rp, ex):
                res.diverge("ticker acceptor: " + d, case)
            res.traces_validated += 1
    for name in monitors_on:
        for v in monitors.ALL_SIM_MONITORS[name](scn, run):
            res.violate(v, case)
            n += 1
    return n


def scenario_family(rng, tier, *, nested=True, flat=True, callbacks=True, depth=3, count=None, stims=0.3):
    count = count or (40 if tier == "quick" else 400)
    out = []
    rs = random.Random(rng.randrange(1 << 30))   # own stream: the scenarios themselves are as before
    for i in range(count):
        if nested and (not flat or i % 2):
            scn = S.gen_nested(rng, depth=rng.randrange(1, depth + 1), callbacks=callbacks, max_n=7 if tier == "quick" else 9)
        else:
            scn = S.gen_flat(rng, callbacks=callbacks, max_n=7 if tier == "quick" else 12)
        if callbacks and rs.random() < stims and "stims" not in scn:
            # external stimuli between ticks (distinct instants that are no tick instants): interrupts of devices
            # at any depth, periodic, one-shot or quiet ones
            names = [d["name"] for d in S.devices(scn)]
            times = rs.sample(range(1, 14), rs.randrange(1, 4))
            scn["stims"] = sorted([{"real": k * 900_000 + 111, "comp": rs.choice(names)} for k in times], key=lambda x: x["real"])
        if callbacks and rs.random() < 0.2 and scn.get("speed", [1, 1]) == [1, 1]:
            # the same shapes at the scale of seconds / minutes / hours of simulated time with wakeups a few ns apart
            scn = S.rescale_times(scn, rs.choice((1_000, 60_000, 3_600_000)), rs)
        if rs.random() < 0.3:
            scn = S.permute_names(scn, rs)   # the same topology under another order of the names
        if rs.random() < 0.15:
            scn = S.tricky_rename(scn, rs)   # confusable component names (case, punctuation, affixes of topic names)
        out.append(scn)
    return out


def as_config_file(scn, rng, split=False):
    """the same scenario taken through tickit's own loading path (sim.run_scenario `from_file`): written to a YAML
    configuration file, read, wired and built by read_configs / InverseWiring.from_component_configs / build_simulation and
    started through TickitSimulation.run() - as one simulation or DIVIDED over several that share the bus (scheduler here,
    components there, in any start order).  Initial time 0 and speed 1 (what build_simulation gives)."""
    import copy
    s2 = copy.deepcopy(scn)
    s2["t0"] = 0
    s2["speed"] = [1, 1]
    tops = [c["name"] for c in s2["components"]]
    r = 0.9 if split else rng.random()     # split: the scheduler's simulation hosts SOME of the components, another one the rest
    if r < 0.3 or len(tops) < 2:
        parts = [{"scheduler": True, "components": None}]
    elif r < 0.5:
        parts = [{"scheduler": True, "components": "none"}, {"scheduler": False, "components": None}]
    else:
        if split and rng.random() < 0.7:
            # every other component in configuration order: wires cross the division in both directions (a component hosted
            # here is fed by one hosted there which is fed by one hosted here)
            a, b = tops[0::2], tops[1::2]
        else:
            rng2 = list(tops)
            rng.shuffle(rng2)
            k = rng.randrange(1, len(rng2))
            a, b = sorted(rng2[:k], key=tops.index), sorted(rng2[k:], key=tops.index)
        parts = [{"scheduler": True, "components": a}, {"scheduler": False, "components": b}]
        if rng.random() < 0.5:
            parts.reverse()
    s2["from_file"] = parts
    if len(parts) > 1 and rng.random() < 0.6:
        s2["start_delays"] = {f"#part{k}": rng.choice((0, 1, 3)) for k in range(len(parts))}
    return s2


def corpus_scenarios():
    """hand-kept minimised scenarios (past failures / documented shapes); run first"""
    import json
    import os
    from common import VERIF
    d = os.path.join(VERIF, "corpus")
    out = []
    if os.path.isdir(d):
        for fn in sorted(os.listdir(d)):
            if fn.endswith(".json"):
                out.append(json.load(open(os.path.join(d, fn))))
    return out


def stats_into(res, scn):
    st = S.scenario_stats(scn)
    res.count(f"devices={st['devices']}")
    res.count(f"depth={st['depth']}")
    res.count(f"systems={min(st['systems'], 3)}")
    res.count(f"time_scale={scn.get('time_scale', 1)}")


def dfs_orders(scn, limit, run_kwargs=None):
    """enumerate delivery orders of the HeldBus by stateless DFS over choice prefixes"""
    stack = [[]]
    n = 0
    while stack and n < limit:
        prefix = stack.pop()
        ch = PrefixChooser(prefix)
        run = run_scenario(scn, bus="held", chooser=ch, **(run_kwargs or {}))
        n += 1
        yield prefix, run
        # children: at each choice point beyond the prefix, the other alternatives
        for k in range(len(prefix), len(ch.choices)):
            i, m = ch.choices[k]
            for alt in range(1, m):
                stack.append([c[0] for c in ch.choices[:k]] + [alt])


def msg_level_accept(scn, run, drv, res, case):
    """message-level trace acceptance (Core/MsgFlatRun, Props/C08Msg / C08MsgRun): the order in which participants
    subscribed and messages were delivered in this real run must be an execution of the message-level model, with the
    same device updates.  Flat runs without stimuli under a bus that logs deliveries per topic; returns True if checked."""
    try:
        from tickit.utils.topic_naming import input_topic, output_topic
        rq = model.msg_run_request(scn, run, input_topic, output_topic)
    except Exception as e:   # noqa: BLE001
        res.notes.append(f"message-level acceptor not applicable: {type(e).__name__}: {e}")
        return False
    if rq is None:
        return False
    rep = drv.eval([rq])[0]
    res.traces_validated += 1
    res.count("message-level-histories")
    res.count("message-level-actions", len(rq["actions"]))
    for d in model.compare_msg_run(run, rep):
        at = (rep or {}).get("at")
        ctx = rq["actions"][max(0, at - 3):at + 1] if isinstance(at, int) else None
        res.diverge(d + (f" around {ctx}" if ctx else ""), case)
    return True
