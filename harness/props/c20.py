"""C20 — IoBox behaves as a memory: differential run of the real IoBoxDevice against the
Lean model + direct monitor of the property."""
import itertools
import random

from .base import Result, V

MODULES = ["TickitModel.Props.C20"]
THEOREMS = ["read_write", "read_update", "update_output", "read_never_written", "chained_equal", "chained_fst"]
TITLE = "IoBox behaves as a memory"
TECHNIQUE = "Lean 4 theorems (refinement of the IoBox model to an address->value memory, all operation sequences) + exhaustive/seeded differential run of IoBoxDevice against the model"
LEVEL_TEXT = ("Full-strength theorems over the IoBox model (writes invisible until update; after update every address holds the most "
              "recent write, inputs first then adapter writes in issue order; never-written read fails; output = applied writes in order; "
              "chained box identical for every history). The model is tied to iobox.py by an exhaustive differential run "
              "(all operation sequences up to length 4/5 over 2x2) plus seeded sequences, so a change to the code that breaks "
              "the memory semantics diverges from the model and is reported with the failing operation sequence.")
LEVEL_NOTE = "Trusts: Lean kernel; the hand-written IoBox model (tied by the differential run only); Python dict semantics. Addresses/values are ints in the run (the theorems are generic in both types)."
ASSUMPTIONS = ["IoBoxDevice is driven through write/read/update only", "addresses are hashable values compared by equality"]
ANCHORS = ["src/tickit/devices/iobox.py"]


def run_real(ops):
    from tickit.devices.iobox import IoBoxDevice
    from tickit.core.typedefs import SimTime
    box, chained, late = IoBoxDevice(), IoBoxDevice(), IoBoxDevice()
    outs = []
    held = []   # (index, the output object exactly as update() returned it, what it read at that moment)
    py = lambda v: None if v == NONE_VAL else v        # noqa: E731  values as the real device sees them
    back = lambda v: NONE_VAL if v is None else v      # noqa: E731
    for op in ops:
        if op["o"] == "write":
            box.write(op["a"], py(op["v"]))
            outs.append(None)
        elif op["o"] == "read":
            try:
                outs.append(back(box.read(op["a"])))
            except (KeyError, ValueError):
                outs.append("KeyError")
        elif op["o"] == "update":
            inputs = {"updates": [(x[0], py(x[1])) for x in op["ins"]]} if op.get("with_port", True) else {}
            given = list(inputs.get("updates", []))
            upd = box.update(SimTime(0), inputs)
            if list(inputs.get("updates", [])) != given:
                # the list on the input port is the upstream component's output object (values travel by reference)
                box._verif_mutated = (len(outs), given, list(inputs.get("updates", [])))
            o = [[x[0], back(x[1])] for x in upd.outputs.get("updates", [])]
            outs.append(o)
            held.append((len(outs) - 1, upd.outputs, o))
            chained.update(SimTime(0), {"updates": [(x[0], py(x[1])) for x in o]})
    # a consumer that holds on to the outputs (as DeviceComponent.last_outputs does, by reference) and a second
    # box that is fed from the held outputs only after the whole history
    rewritten = []
    for i, obj, snap in held:
        now = [[x[0], back(x[1])] for x in obj.get("updates", [])]
        if now != snap:
            rewritten.append((i, snap, now))
        late.update(SimTime(0), {"updates": [(x[0], py(x[1])) for x in now]})
    box._verif_rewritten = rewritten
    box._verif_late = late
    return outs, dict(box._memory) if hasattr(box, "_memory") else None, (box, chained)


def monitor(ops, outs, boxes):
    """the property, stated directly: memory semantics + chained equality"""
    vs = []
    mem, pend = {}, []
    for op, out in zip(ops, outs):
        if op["o"] == "write":
            pend.append((op["a"], op["v"]))
        elif op["o"] == "read":
            exp = mem.get(op["a"], "KeyError")
            if out != exp:
                vs.append(V("read-wrong", f"read({op['a']}) = {out}, memory semantics say {exp}", site="IoBoxDevice.read"))
        else:
            applied = [tuple(x) for x in op["ins"]] + pend
            pend = []
            for a, v in applied:
                mem[a] = v
            if [tuple(x) for x in out] != applied:
                vs.append(V("update-output-order", f"update output {out}, applied-in-order is {applied}",
                            site="IoBoxDevice.update", multi_write_same_addr=len({a for a, _ in applied}) < len(applied)))
    box, chained = boxes
    for i, snap, now in getattr(box, "_verif_rewritten", []):
        vs.append(V("output-rewritten-later", f"the output of update (op #{i}) read {snap} when it was returned and reads {now} "
                    "after later updates: an earlier output is an alias of later ones", site="IoBoxDevice.update"))
    if getattr(box, "_verif_mutated", None):
        i, was, now = box._verif_mutated
        vs.append(V("input-mutated", f"update (op #{i}) changed the list it was given on its input port from {was} to {now}: that list is the "
                    "upstream component's output, shared with every other consumer", site="IoBoxDevice.update"))
    late = getattr(box, "_verif_late", None)
    for a in {0, 1, 2, 3}:
        def rd(b):
            try:
                v = b.read(a)
                return NONE_VAL if v is None else v
            except (KeyError, ValueError):
                return "KeyError"
        if rd(box) != mem.get(a, "KeyError"):
            vs.append(V("memory-wrong", f"address {a} holds {rd(box)}, most recent write is {mem.get(a, 'KeyError')}",
                        site="IoBoxDevice.update", multi_write_same_addr=True))
        if rd(box) != rd(chained):
            vs.append(V("chained-differs", f"address {a}: box {rd(box)} chained box {rd(chained)}", site="IoBoxDevice.update"))
        if late is not None and rd(box) != rd(late):
            vs.append(V("chained-differs", f"address {a}: box {rd(box)}, a box fed from the held outputs after the history {rd(late)}",
                        site="IoBoxDevice.update", late=True))
    return vs


NONE_VAL = -1000003   # travels to the Lean model as this integer, to the real device as Python's None


def gen_ops(rng, n, addrs=2, vals=2):
    ops = []
    for _ in range(n):
        r = rng.random()
        if r < 0.45:
            ops.append({"o": "write", "a": rng.randrange(addrs), "v": rng.randrange(vals) if rng.random() < 0.85 else NONE_VAL})
        elif r < 0.7:
            ops.append({"o": "read", "a": rng.randrange(addrs)})
        else:
            ops.append({"o": "update", "ins": [[rng.randrange(addrs), rng.randrange(vals) if rng.random() < 0.85 else NONE_VAL] for _ in range(rng.choice((0, 0, 1, 2)))]})
    ops.append({"o": "update", "ins": []})
    return ops


def all_ops(addrs, vals):
    alpha = [{"o": "write", "a": a, "v": v} for a in range(addrs) for v in range(vals)]
    alpha += [{"o": "read", "a": a} for a in range(addrs)]
    alpha += [{"o": "update", "ins": []}]
    alpha += [{"o": "update", "ins": [[a, v]]} for a in range(addrs) for v in range(vals)]
    return alpha


def check_case(ops, drv_reply, res):
    outs, _, boxes = run_real(ops)
    model = [o for o in drv_reply]
    real = [o if o is not None else None for o in outs]
    if real != model:
        res.diverge(f"IoBox model/impl differ: impl {real} model {model}", ops)
    for v in monitor(ops, outs, boxes):
        res.violate(v, ops)


def run(tier, seed, drv):
    res = Result()
    rng = random.Random(seed)
    cases = []
    alpha = all_ops(2, 2)
    depth = 4 if tier == "quick" else 5
    for n in range(1, depth + 1):
        for combo in itertools.product(alpha, repeat=n):
            cases.append(list(combo) + [{"o": "update", "ins": []}, {"o": "read", "a": 0}, {"o": "read", "a": 1}])
    res.exhaustive = True
    n_exh = len(cases)
    for _ in range(300 if tier == "quick" else 3000):
        cases.append(gen_ops(rng, rng.randrange(3, 14), addrs=4, vals=3))
    # LONG histories: thousands of adapter writes (and input lists of thousands of entries) between two updates - every one
    # of them counts, the first as much as the last
    for k in range(3 if tier == "quick" else 12):
        n_w = rng.choice((1100, 2500, 4200))
        addrs = rng.choice((3, 50, 5000))
        c = [{"o": "write", "a": 10_000 + k, "v": 7}]
        c += [{"o": "write", "a": rng.randrange(addrs), "v": rng.randrange(3)} for _ in range(n_w)]
        c.append({"o": "update", "ins": [[rng.randrange(addrs), rng.randrange(3)] for _ in range(rng.choice((0, 3, 1500)))]})
        c += [{"o": "read", "a": 10_000 + k}, {"o": "read", "a": 0}, {"o": "read", "a": 1}]
        c += [{"o": "write", "a": rng.randrange(addrs), "v": rng.randrange(3)} for _ in range(rng.choice((1, 1025, 2049)))]
        c += [{"o": "update", "ins": []}, {"o": "read", "a": 2}, {"o": "read", "a": 10_000 + k}]
        cases.append(c)
    replies = drv.eval([{"op": "iobox", "ops": [dict(o, ins=o.get("ins", [])) for o in c]} for c in cases])
    for c, rep in zip(cases, replies):
        writes = sum(1 for o in c if o["o"] == "write")
        same = len({o["a"] for o in c if o["o"] == "write"}) < writes
        if len(c) > 200:
            res.count("long-histories")
        res.case(str(c) if len(c) <= 200 else f"long:{len(c)}:{hash(str(c))}", nontrivial=writes > 0, sample={"ops": c, "model": rep} if len(c) <= 200 else None)
        res.count("multi-write-same-addr" if same else "simple")
        check_case(c, rep, res)
    res.rule = (f"all operation sequences of length <= {depth} over write/read/update on 2 addresses x 2 values "
                f"({n_exh} sequences, each followed by update+reads) plus seeded random sequences over 4x3 and long histories (1100-4200 writes and up to 1500 input entries between two updates); "
                "non-trivial = contains at least one write; distinct by operation sequence")
    return res


def replay(payload, drv):
    ops = payload["case"]
    outs, _, boxes = run_real(ops)
    rep = drv.eval([{"op": "iobox", "ops": ops}])[0]
    return {"impl": outs, "model": rep, "violations": monitor(ops, outs, boxes)}
