"""Common result container for property checks."""
import json


class Result:
    def __init__(self):
        self.evaluations = 0
        self.nontrivial = set()
        self.samples = []
        self.divergences = []   # model vs implementation disagreements: {"what", "case"}
        self.violations = []    # monitor findings on the real code: {"record", "case"}
        self.traces_validated = 0
        self.exhaustive = False
        self.rule = ""
        self.dist = {}
        self.notes = []

    def case(self, key, nontrivial=True, sample=None):
        self.evaluations += 1
        if nontrivial:
            self.nontrivial.add(key if isinstance(key, (str, int, tuple)) else json.dumps(key, sort_keys=True, default=str))
        if sample is not None and len(self.samples) < 3:
            self.samples.append(sample)

    def count(self, k, n=1):
        self.dist[k] = self.dist.get(k, 0) + n

    def diverge(self, what, case):
        if len(self.divergences) < 50:
            self.divergences.append({"what": what, "case": case})

    def violate(self, record, case):
        if len(self.violations) < 200:
            self.violations.append({"record": record, "case": case})


def V(kind, detail, site=None, **features):
    return {"kind": kind, "site": site, "features": features, "detail": detail}
