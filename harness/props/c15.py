"""C15 — the in-memory bus: per topic, in order, exactly once, with replay; topic naming."""
import asyncio
import itertools
import random

from .base import Result, V

MODULES = ["TickitModel.Props.C15", "TickitModel.Props.C15Registry"]
THEOREMS = ["Registry.get_after_add_both", "Registry.add_other_name", "Registry.get_none_iff", "Registry.mem_interfaces", "Registry.run_mem_interfaces", "Registry.add_neither", "bus_exactly_once_in_order", "produced_is_logged", "reaction_is_logged", "log_no_handlers", "resubscribe_duplicates", "topic_injective", "topic_in_ne_out"]
ANCHORS = ["src/tickit/core/state_interfaces/internal.py", "src/tickit/utils/topic_naming.py", "src/tickit/utils/singleton.py"]
TECHNIQUE = "Lean 4 theorems (invariant over all subscribe/produce histories with re-entrant stratified handlers; topic-name injectivity over constants regenerated from the code) + exhaustive/seeded differential run of InternalStateServer against the model"
LEVEL_TEXT = ("Full-strength theorem over the bus model: for every history of subscribe/produce operations with handlers that publish "
              "re-entrantly to other topics (of higher rank than the topic of the value they react to - possibly topics their own consumer subscribes to) and every (consumer, topic) subscribed once, each consumer has received exactly "
              "the topic's log, in order, once, and nothing from other topics; necessity of the subscribe-once hypothesis is proved by a "
              "counterexample theorem; with enough fuel for the re-entrancy depth nothing is dropped (every produced value and every handler reaction is in its topic's log). Topic injectivity is proved over Gen/Constants.lean, which is re-extracted from topic_naming.py on "
              "every run, so colliding affixes break the proof. The model is tied to internal.py by differential operation sequences "
              "(exhaustive up to 4/5 operations over 2 topics x 2 consumers, with and without re-entrant handlers, plus seeded longer ones).")
LEVEL_ADDENDUM = 'Session 8: reactions publish BURSTS (1-3 values, to the same and to different topics); the registry of state interfaces (state_interface.add / interfaces / get_interface) is modelled (Core/Registry) and proved (Props/C15Registry: the pair registered last under a name is returned, KeyError iff a side is missing, listed iff both sides present - and external when asked -, other names untouched, for every history) and compared with the real module on generated registration histories.'
LEVEL_NOTE = "Trusts: Lean kernel; hand-written bus model; asyncio inline-await semantics; Python set iteration order is abstracted (only per (consumer, topic) sequences are compared)."
ASSUMPTIONS = ["a handler reacting to a value that arrived on topic T publishes only to topics of higher rank than T (the reading of 'other topics'); it may publish to topics its own consumer subscribes to",
               "a (consumer, topic) pair is subscribed once", "handlers do not subscribe"]


def reset_server():
    from buses import reset_internal_bus
    reset_internal_bus()


class EmptyPayload(dict):
    """a payload that is an EMPTY container (falsy, like `Changes(Map())`, `{}` or `()`), carrying its identity"""

    def __init__(self, T, v):
        super().__init__()
        self.T, self.v = T, v


def wrap(T, v):
    # every third message carries an empty (falsy) payload
    return EmptyPayload(T, v) if v % 3 == 0 else (T, v)


def unwrap(x):
    return (x.T, x.v) if isinstance(x, EmptyPayload) else x


async def run_real_async(ops, handlers, n_cons, short_lived=False):
    """short_lived: every produce goes through a fresh producer object that is dropped afterwards and a
    consumer object only exists from its first subscription on (as when participants come and go) - the
    message store must not depend on who happens to hold a producer or consumer"""
    from tickit.core.state_interfaces.internal import InternalStateConsumer, InternalStateProducer
    reset_server()
    recv = [[] for _ in range(n_cons)]
    produced = {}
    prod = None if short_lived else InternalStateProducer()
    script = {(k, v): pubs for k, v, pubs in handlers}

    async def produce(T, v):
        if short_lived:
            await InternalStateProducer().produce(T, wrap(T, v))   # dropped at once (reference counting)
        else:
            await prod.produce(T, wrap(T, v))

    def mk(k):
        async def cb(value):
            value = unwrap(value)
            recv[k].append(value)
            for T, v2 in script.get((k, value[1]), []):
                produced.setdefault(T, []).append(v2)
                await produce(T, v2)
        return cb

    cons = {} if short_lived else {k: InternalStateConsumer(mk(k)) for k in range(n_cons)}
    for op in ops:
        if op["o"] == "sub":
            if op["k"] not in cons:
                cons[op["k"]] = InternalStateConsumer(mk(op["k"]))
            # the protocol takes any Iterable[str]: lists, sets, tuples and ONE-SHOT iterables (generators, map objects)
            tl = list(op["topics"])
            shape = (len(tl) + sum(len(t) for t in tl) + op["k"]) % 4
            await cons[op["k"]].subscribe(tl if shape == 0 else (tuple(tl) if shape == 1 else (iter(tl) if shape == 2 else (t for t in tl))))
        else:
            produced.setdefault(op["T"], []).append(op["v"])
            await produce(op["T"], op["v"])
    reset_server()
    return recv, produced


def per_topic(seq):
    out = {}
    for T, v in seq:
        out.setdefault(T, []).append(v)
    return out


def within_hypotheses(ops, handlers, rank):
    """subscribe-once, and every handler reaction to a value that arrived on topic T
    publishes only to topics of higher rank than T (values identify their topic here)"""
    subs = {}
    origin = {}
    for op in ops:
        if op["o"] == "sub":
            for T in op["topics"]:
                if T in subs.setdefault(op["k"], []):
                    return False
                subs[op["k"]].append(T)
        else:
            origin[op["v"]] = op["T"]
    for k, v, pubs in handlers:
        for T2, v2 in pubs:
            origin[v2] = T2
    for k, v, pubs in handlers:
        T = origin.get(v)
        if T is None:
            continue
        for T2, _ in pubs:
            if not rank[T] < rank[T2]:
                return False
    return True


def monitor(ops, recv, produced, n_cons):
    vs = []
    subs = {}
    for op in ops:
        if op["o"] == "sub":
            for T in op["topics"]:
                subs.setdefault(op["k"], set()).add(T)
    for k in range(n_cons):
        got = per_topic(recv[k])
        for T in set(got) | subs.get(k, set()):
            if T not in subs.get(k, set()):
                vs.append(V("received-unsubscribed-topic", f"consumer {k} got {got[T]} from {T} without subscribing", site="InternalStateServer"))
            elif got.get(T, []) != produced.get(T, []):
                vs.append(V("not-exactly-once-in-order", f"consumer {k} topic {T}: received {got.get(T, [])}, produced {produced.get(T, [])}", site="InternalStateServer"))
    return vs


def registry_part(res, drv, rng, n):
    """the registry of state interfaces (state_interface.add / interfaces / get_interface) against Core/Registry
    (Props/C15Registry): generated classes that have a `produce` and / or a `subscribe` method or neither, registered under
    a few names (re-registrations included) with either externality; the module's tables are saved and restored"""
    import warnings
    from tickit.core.state_interfaces import state_interface as SI
    saved = (dict(SI.consumers), dict(SI.producers))
    reqs, reals, cases = [], [], []
    try:
        for _ in range(n):
            SI.consumers.clear()
            SI.producers.clear()
            adds, classes = [], {}
            names = ["bus", "Bus", "bus ", "internal", "k"]
            for i in range(rng.randrange(0, 9)):
                prod, sub = rng.choice(((True, False), (False, True), (True, True), (False, False), (False, True), (True, False)))
                ns = {}
                if prod:
                    async def produce(self, topic, value):
                        pass
                    ns["produce"] = produce
                if sub:
                    async def subscribe(self, topics):
                        pass
                    ns["subscribe"] = subscribe
                cls = type(f"Gen{i}", (), ns)
                classes[i] = cls
                a = {"name": rng.choice(names), "ext": rng.random() < 0.5, "id": i, "produce": prod, "subscribe": sub}
                adds.append(a)
                with warnings.catch_warnings(record=True) as w:
                    warnings.simplefilter("always")
                    back = SI.add(a["name"], a["ext"])(cls)
                    a["_warned"] = len(w)
                    a["_same"] = back is cls
            ident = {v: k for k, v in classes.items()}
            gets = []
            for q in names:
                try:
                    c, p = SI.get_interface(q)
                    gets.append([ident.get(c, -1), ident.get(p, -1)])
                except KeyError:
                    gets.append("KeyError")
            real = {"all": sorted(SI.interfaces()), "external": sorted(SI.interfaces(True)), "get": gets,
                    "warnings": sum(a.pop("_warned") for a in adds), "returned_same": all(a.pop("_same") for a in adds)}
            reqs.append({"op": "registry", "adds": adds, "queries": names})
            reals.append(real)
            cases.append({"registry": adds})
    finally:
        SI.consumers.clear()
        SI.consumers.update(saved[0])
        SI.producers.clear()
        SI.producers.update(saved[1])
    for rq, real, case, rep in zip(reqs, reals, cases, drv.eval(reqs)):
        res.case(("registry", str(rq["adds"])), nontrivial=len(rq["adds"]) > 1)
        res.count("registry-histories")
        if not real.pop("returned_same"):
            res.violate(V("registry-wrong", "the decorator did not return the class it was given", site="state_interface.add"), case)
        if real != {k: rep.get(k) for k in real}:
            res.diverge(f"state-interface registry: impl {real} model {rep}", case)
            # the property's reading: a pair is usable iff both sides were registered; what is found is what was registered last
            last = {}
            for a in rq["adds"]:
                side = "p" if a["produce"] else ("c" if a["subscribe"] else None)
                if side:
                    last[(a["name"], side)] = a
            for q, g in zip(rq["queries"], real["get"]):
                want = "KeyError" if (q, "c") not in last or (q, "p") not in last else [last[(q, "c")]["id"], last[(q, "p")]["id"]]
                if g != want:
                    res.violate(V("registry-wrong", f"get_interface({q!r}) -> {g}, registered last: {want} (history {rq['adds']})", site="state_interface.get_interface"), case)
                    break
            else:
                both = sorted({n for (n, s) in last if (n, "c") in last and (n, "p") in last})
                ext = [n for n in both if last[(n, "c")]["ext"] and last[(n, "p")]["ext"]]
                if real["all"] != both or real["external"] != ext:
                    res.violate(V("registry-wrong", f"interfaces() -> {real['all']}, interfaces(True) -> {real['external']}; registered pairs {both}, external ones {ext}", site="state_interface.interfaces"), case)


def to_request(ops, handlers, n_cons):
    return {"op": "bus", "ops": ops, "handlers": [[k, v, pubs] for k, v, pubs in handlers], "fuel": 12, "n_consumers": n_cons}


def gen_case(rng, n_ops, topics, n_cons, reentrant=True, force_ok=True):
    rank = {T: i for i, T in enumerate(topics)}
    ops, subs, val = [], {}, 0
    handlers = []
    for _ in range(n_ops):
        if rng.random() < 0.45:
            k = rng.randrange(n_cons)
            avail = [T for T in topics if T not in subs.get(k, [])] if force_ok else topics
            if not avail:
                continue
            ts = rng.sample(avail, rng.randrange(1, len(avail) + 1))
            subs.setdefault(k, []).extend(ts)
            ops.append({"o": "sub", "k": k, "topics": ts})
        else:
            val += 1
            ops.append({"o": "pub", "T": rng.choice(topics), "v": val})
    if reentrant:
        # handlers: consumer k reacting to value v (which arrived on topic origin[v]) publishes to
        # topics of higher rank than that topic - possibly one it subscribes to itself
        origin = {op["v"]: op["T"] for op in ops if op["o"] == "pub"}
        nxt = 100
        for level in range(2):
            for k in range(n_cons):
                for v, T in list(origin.items()):
                    if T not in subs.get(k, []) or any(h[0] == k and h[1] == v for h in handlers):
                        continue
                    higher = [T2 for T2 in topics if rank[T2] > rank[T]] if force_ok else topics
                    if higher and rng.random() < (0.5 if level == 0 else 0.3):
                        # one reaction may publish a BURST: several values, to the same and to different topics
                        # (a scheduler answers one Output with several Inputs; a relay forwards a batch)
                        pubs = []
                        for _b in range(rng.choice((1, 1, 2, 3))):
                            nxt += 1
                            T2 = pubs[-1][0] if pubs and rng.random() < 0.6 else rng.choice(higher)
                            pubs.append([T2, nxt])
                            origin[nxt] = T2
                        handlers.append([k, v, pubs])
    return ops, handlers, rank


def exhaustive_cases(depth):
    topics = ["a", "b"]
    alpha = [("sub", k, ts) for k in range(2) for ts in (["a"], ["b"], ["a", "b"])] + [("pub", T) for T in topics]
    for n in range(1, depth + 1):
        for combo in itertools.product(alpha, repeat=n):
            ops, v = [], 0
            for x in combo:
                if x[0] == "sub":
                    ops.append({"o": "sub", "k": x[1], "topics": list(x[2])})
                else:
                    v += 1
                    ops.append({"o": "pub", "T": x[1], "v": v})
            yield ops


def run(tier, seed, drv):
    res = Result()
    rng = random.Random(seed)
    cases = []
    depth = 4 if tier == "quick" else 5
    rank2 = {"a": 0, "b": 1}
    for ops in exhaustive_cases(depth):
        cases.append((ops, [], rank2, 2))
        # consumer 0 forwards everything it gets on a (values 1..depth) to b
        cases.append((ops, [[0, v, [["b", 100 + v]]] for v in range(1, depth + 1)], rank2, 2))
        # ... and forwards each as a burst of two values to b
        if len(ops) <= 3:
            cases.append((ops, [[0, v, [["b", 100 + v], ["b", 200 + v]]] for v in range(1, depth + 1)], rank2, 2))
    n_exh = len(cases)
    for i in range(300 if tier == "quick" else 3000):
        topics = ["t0", "t1", "t2"][:rng.randrange(2, 4)]
        n_cons = rng.randrange(1, 4)
        ops, handlers, rank = gen_case(rng, rng.randrange(2, 12), topics, n_cons, reentrant=True, force_ok=rng.random() < 0.85)
        cases.append((ops, handlers, rank, n_cons))
    # LONG logs: thousands of messages on a topic before a consumer joins (replay of all of them, in order), then more
    for n_msgs in ((1500,) if tier == "quick" else (1500, 5000)):
        ops = [{"o": "sub", "k": 0, "topics": ["t0"]}] + [{"o": "pub", "T": "t0" if i % 3 else "t1", "v": 1000 + i} for i in range(n_msgs)]
        ops += [{"o": "sub", "k": 1, "topics": ["t1", "t0"]}] + [{"o": "pub", "T": "t1", "v": 900_000 + i} for i in range(20)] + [{"o": "sub", "k": 0, "topics": ["t1"]}]
        cases.append((ops, [], {"t0": 0, "t1": 1}, 2))
    res.exhaustive = True
    loop = asyncio.new_event_loop()
    replies = drv.eval([to_request(o, h, n) for o, h, r, n in cases])
    for ci, ((ops, handlers, rank, n_cons), rep) in enumerate(zip(cases, replies)):
        ok = within_hypotheses(ops, handlers, rank)
        short = ci % 2 == 1    # every other history with producers / consumers that come and go
        try:
            recv, produced = loop.run_until_complete(run_real_async(ops, handlers, n_cons, short_lived=short))
            err = None
        except Exception as e:  # e.g. set changed size during iteration
            recv, produced, err = None, None, f"{type(e).__name__}:{e}"
        res.case(str((ops, handlers)) if len(ops) < 100 else f"long:{len(ops)}", nontrivial=any(o["o"] == "pub" for o in ops) and any(o["o"] == "sub" for o in ops),
                 sample={"ops": ops, "handlers": handlers, "model_recv": rep.get("recv")} if len(ops) < 100 else None)
        res.count("within-hypotheses" if ok else "outside-hypotheses")
        res.count("reentrant" if handlers else "plain")
        case = {"ops": ops, "handlers": handlers, "n_cons": n_cons, "rank": rank, "short_lived": short}
        res.count("short-lived-objects" if short else "long-lived-objects")
        if err is not None:
            if ok:
                res.violate(V("bus-raised", err, site="InternalStateServer"), case)
            continue
        if ok:
            # when handlers of DIFFERENT consumers publish re-entrantly, the order of their
            # publications depends on the iteration order of the real bus's subscriber *set*;
            # the model iterates in subscription order.  Then compare as multisets (the order
            # clause of the property is checked by the monitor against the impl's own log).
            ambiguous = len({k for k, v, pubs in handlers}) >= 2
            canon = (lambda l: sorted(l)) if ambiguous else (lambda l: l)
            real_pt = [{T: canon(l) for T, l in per_topic(r).items()} for r in recv]
            model_pt = [{T: canon(l) for T, l in per_topic(r).items()} for r in rep["recv"]]
            if real_pt != model_pt:
                res.diverge(f"bus deliveries differ: impl {real_pt} model {model_pt}", case)
            logs = {T: canon(l) for T, l in rep["logs"] if l}
            if {T: canon(l) for T, l in produced.items() if l} != logs:
                res.diverge(f"bus logs differ: impl {produced} model {logs}", case)
            res.count("order-ambiguous" if ambiguous else "order-determined")
            for v in monitor(ops, recv, produced, n_cons):
                res.violate(v, case)
    loop.close()
    registry_part(res, drv, random.Random(seed + 5), 150 if tier == "quick" else 2000)
    # topic naming: behavioural spot check of injectivity on generated names (the theorem is over Gen/Constants)
    from tickit.utils.topic_naming import input_topic, output_topic
    names = ["a", "b", "a-in", "a-out", "x-out-in", "tickit-a", "in", "out", "-", "a-", "é", " ", "a ", " a", "a\n", "\ta", "A", "a b", "  "] + [f"n{i}" for i in range(20)]
    seen = {}
    for n in names:
        for kind, f in (("in", input_topic), ("out", output_topic)):
            try:
                t = f(n)
            except Exception as e:
                res.violate(V("topic-rejected", f"{kind}put topic of the non-empty name {n!r} raised {type(e).__name__}", site="topic_naming"), {"names": [n]})
                continue
            res.case(("topic", n, kind))
            if t in seen and seen[t] != (n, kind):
                res.violate(V("topic-collision", f"{seen[t]} and {(n, kind)} share topic {t!r}", site="topic_naming"), {"names": [seen[t][0], n]})
            seen[t] = (n, kind)
    res.rule = (f"all operation sequences of length <= {depth} over subscribe(k,[a]|[b]|[a,b]) / produce(a|b) with 2 consumers, each without handlers and "
                f"with consumer 0 forwarding a->b re-entrantly - one value, and (length <= 3) a burst of two values per reaction - ({n_exh} cases), plus seeded histories over <=3 topics x <=3 consumers with two-level "
                "re-entrant handlers whose reactions publish bursts of 1-3 values to the same / different topics (15% deliberately outside the hypotheses: re-subscription / non-stratified - run for robustness, not compared); "
                "plus input/output topics of 32 names checked pairwise distinct; non-trivial = at least one subscribe and one produce")
    return res


def replay(payload, drv):
    c = payload["case"]
    if "registry" in c:
        r2 = Result()
        registry_part(r2, drv, random.Random(payload.get("seed", 0) + 5), 150)
        return {"violations": [v["record"] for v in r2.violations], "divergences": r2.divergences[:2]}
    if "names" in c:
        from tickit.utils.topic_naming import input_topic, output_topic
        ts = [(n, input_topic(n), output_topic(n)) for n in c["names"]]
        return {"topics": ts, "violations": [V("topic-collision", str(ts))] if len({t for _, a, b in ts for t in (a, b)}) < 2 * len(ts) else []}
    loop = asyncio.new_event_loop()
    recv, produced = loop.run_until_complete(run_real_async(c["ops"], c["handlers"], c["n_cons"], short_lived=c.get("short_lived", False)))
    loop.close()
    rep = drv.eval([to_request(c["ops"], c["handlers"], c["n_cons"])])[0]
    return {"impl": recv, "model": rep, "violations": monitor(c["ops"], recv, produced, c["n_cons"])}
