"""C04 — ticks are serialised, carry one time each, and time never runs backwards."""
from . import simprop

MODULES = ["TickitModel.Props.C04", "TickitModel.Props.C01", "TickitModel.Props.C01Live", "TickitModel.Props.C04Mono", "TickitModel.Props.C05", "TickitModel.Props.FlatInt", 'TickitModel.Props.AnyTransfer', 'TickitModel.Props.AnyTransferStim']
THEOREMS = ["one_time_per_tick", "tick_complete", "wake_not_before", "time_monotone", "tick_time_provenance",
            "within_extent", "finished_iff", "resolved_iff_answered", "tickRun_exists",
            "master_wake_not_before", "master_time_monotone", "master_startTick_monotone", "master_times_sorted", "master_past_callback_decreases",
            "system_callAt_not_past", "nested_tick_callAt_not_past", "answer_callAt_not_past", "sim_wake_not_before", "sim_time_monotone", "tickLevel_once", "time_monotoneI", "wake_not_beforeI", "time_not_monotone_untimely",
            'any_order_wake_not_before', 'any_order_time_monotone', 'any_order_system_callAt_not_past', 'any_order_nested_tick_callAt_not_past', 'any_order_answer_callAt_not_past', 'any_order_tick_one_time', 'any_order_run_has_fifo_stims', 'any_order_wake_not_before_stims', 'any_order_time_monotone_stims']
ANCHORS = ["src/tickit/core/management/ticker.py", "src/tickit/core/management/schedulers/master.py",
           "src/tickit/core/management/schedulers/nested.py", "src/tickit/core/components/system_component.py"]
TECHNIQUE = "Lean 4 theorems (a tick finishes only when every member of its extent answered, all dispatches carry the tick time, tick times non-decreasing when no callback is in the past) + trace validation of real runs incl. nested ticks inside outer ticks"
LEVEL_TEXT = ("Theorems: in every run of a tick, `finished` is raised exactly when every member of the extent has answered, each was dispatched once, all "
              "with the tick's time (ticker model, all answer orders); over flat multi-tick histories every pending wakeup is at or after the last tick "
              "time, so successive tick times never decrease provided no device asks for a callback in the past. Interrupts at ANY point (Props/C04Mono): in the master bookkeeping transition system, where interrupts may arrive before, during and after ticks and a tick can only start when none is running, for every history whose interrupt stamps and callback requests are not in the past the ticker time never decreases (master_time_monotone, master_times_sorted; a checked history with a past callback shows the hypothesis is needed). Through nesting (whole-simulation model, any depth, callbacks and interrupt stimuli): every observation of a tick at any depth carries the tick's time (tickLevel_once: the inner tick lies inside the outer dispatch, at the same time); a system component never answers with a callback before the tick time, because every inner wakeup that is due is served (system_callAt_not_past, nested_tick_callAt_not_past); hence the tick times of every run of the whole-simulation model are non-decreasing provided no device asks to be called back in the past in that run (sim_time_monotone). Validated rather than proved: that the real asyncio schedule serialises ticks the way the transition system does (monitor on Ticker entry/exit over all generated runs, races between sleep expiry and interrupts with per-iteration real-time cost, callbacks overdue when an interrupt arrives). FOR ANY ANSWER ORDER AT EVERY NESTING LEVEL (every scheduler level answers its pending dispatches in ANY order, a system component's answer is any such execution of its inner level; Core/SimAny; none of these corollaries assumes that the first-in first-out model succeeds - that follows from the existence of the execution) (Props/AnyTransfer, AnyTransferStim): tick times of every any-order run never decrease, also with external stimuli (any_order_time_monotone, any_order_time_monotone_stims), no wakeup lies before the tick that recorded it, a system never answers with a callback in the past, and every observation of a tick carries that tick's one time.")
LEVEL_NOTE = "Trusts: Lean kernel; hand-written models; nesting and interrupt timing carried by trace validation."
ASSUMPTIONS = ["no device asks to be called back in the past (for monotonicity)"]
MON = ("ticker", "tick_times", "device_order")
CORR = ('ticker', 'ticks')


def race_scenarios(rng, tier):
    """interrupts that arrive within a few loop iterations of a sleeping callback's expiry (real time
    passes while the loop iterates: `step_cost_ns`), interrupts raised before a late master's first
    tick followed by later interrupts of the same component, interrupts mid-tick"""
    from .c07 import dev
    P = 1_000_000
    out = []
    # the callback tick of `a` is due at (end of initial tick) + P; with a per-iteration cost the initial
    # tick ends a few dozen ns after the start, so sweep the arrival of b's interrupt across that window
    # iterations take a varying amount of real time (seeded): [seed, choices...]
    for sd in range(4 if tier == "quick" else 24):
        for off in range(-10, 80, 2):
            out.append({"components": [dev("a", cb={"kind": "period", "p": P}), dev("b"), dev("c", {"i": ["a", "o"]})],
                        "n_ticks": 4, "step_cost_ns": [sd + 1, 0, 1, 1, 2, 5], "stims": [{"real": P + off, "comp": "b"}]})
    for late in (2, 3, 5):
        for at in (1, 2):
            out.append({"components": [dev("x"), dev("a", cb={"kind": "period", "p": P})], "n_ticks": 5, "start_delays": {"": late}, "t0": (0 if at == 1 else 5_000_000),
                        "stims": [{"step": 1 + at, "comp": "x"}, {"real": P + P // 2, "comp": "x"}, {"real": 2 * P + P // 2, "comp": "x"}]})
    # a wakeup for exactly simulation time 0 (falsy!) held next to later ones: an immediate callback asked at the
    # initial tick, or an interrupt raised before a late scheduler is up; the other device's callbacks END, so that
    # a starved wakeup would surface as a tick in the past
    # (in which order the two answers of the initial tick arrive depends on the iteration order of a SET of names, i.e. on the
    #  process's hash seed: every shape is run under several namings so that each order occurs whatever the seed)
    for order in (0, 1):
        for (zn, an) in (("z", "a"), ("a", "z"), ("p", "q"), ("q", "p"), ("dev1", "dev2"), ("dev2", "dev1")):
            comps = [dev(zn, cb={"kind": "list", "delays": [0, None, None]}), dev(an, cb={"kind": "list", "delays": [P, P, None]})]
            out.append({"components": comps[::-1] if order else comps, "n_ticks": 5, "t0": 0})
            comps = [dev(zn), dev(an, cb={"kind": "list", "delays": [P, P, None]})]
            out.append({"components": comps[::-1] if order else comps, "n_ticks": 5, "t0": 0, "start_delays": {"": 3}, "stims": [{"step": 2, "comp": zn}]})
    # bursts: interrupts of one device a fraction of a millisecond of real time apart, with ticks of a fast periodic
    # device in between (whatever an interrupt is stamped with must not lie before a tick that already happened)
    for gap in (150_000, 400_000, 900_000):
        for n in (2, 4):
            out.append({"components": [dev("fast", cb={"kind": "period", "p": 100_000}), dev("x"), dev("y", {"i": ["x", "o"]})], "n_ticks": 14 + 3 * n,
                        "stims": [{"real": 50_111 + k * gap, "comp": "x" if k % 3 else "y"} for k in range(n)] + [{"real": 50_111 + n * gap + 37, "comp": "x"}]})
    # epoch-sized simulation times (beyond 2**53 ns, where a double has a resolution of 256 ns), slowed-down simulations
    # and interrupts within microseconds of a tick: whatever is computed for the stamp must not round below the last tick
    for t0 in (1_700_000_000_000_000_005, 1_700_000_000_000_000_123, 1_700_000_000_000_000_200, 2**53 + 12_345_677):
        for sp in ([1, 100], [1, 3], [1, 1]):
            P1 = 1_000_000
            real_p = P1 * sp[1] // sp[0]
            out.append({"components": [dev("a", cb={"kind": "period", "p": P1}), dev("x"), dev("y", {"i": ["x", "o"]})], "n_ticks": 9, "t0": t0, "speed": sp,
                        "stims": [{"real": real_p + 3_000, "comp": "x"}, {"real": real_p + 9_500, "comp": "y"}, {"real": real_p + 61_000, "comp": "x"},
                                  {"real": real_p + 140_000, "comp": "y"}, {"real": 2 * real_p + 700, "comp": "x"}, {"real": 2 * real_p + 90_000, "comp": "x"}]})
    return out


def run(tier, seed, drv):
    import random
    from sim import run_scenario
    from . import simcommon as SC
    res = simprop.generic_run(tier, seed, drv, monitors_on=MON, corr=CORR)
    for scn in race_scenarios(random.Random(seed), tier):
        run_ = run_scenario(scn, bus="sync")
        res.case(SC.scn_key(scn), nontrivial=True)
        res.count("race-scenarios")
        SC.check_run(scn, run_, drv, res, monitors_on=MON, corr=("ticker", "mloop"), case_extra={"bus": "sync"})
    # callbacks that are overdue when an interrupt arrives (real time passes while the loop iterates): a system
    # is then ticked later than several of its inner wakeups; it must serve all of them and never answer
    # with a callback in the past
    from .c06 import overdue_scenarios
    for scn in overdue_scenarios(tier):
        run_ = run_scenario(scn, bus="sync")
        res.case(SC.scn_key(scn), nontrivial=True)
        res.count("overdue-callbacks")
        SC.check_run(scn, run_, drv, res, monitors_on=MON, corr=("ticker", "mloop"), case_extra={"bus": "sync"})
    # a device FAILS inside a system simulation while slower siblings of the same inner tick have not answered yet: whatever
    # the failure does to the run, no scheduler level starts another tick before the tick in progress is over, and nothing is
    # stamped with another time
    from .c07 import dev
    P = 4_000_000
    for depth in (1, 2):
        for n_fail in (1, 2):
            inner = [dev("bad", {"i": ["external", "x"]}, cost=50_000), dev("slow1", {"i": ["external", "x"]}, cost=400_000), dev("slow2", {"i": ["slow1", "o"]}, cost=400_000),
                     dev("own", cb={"kind": "period", "p": 3 * P}, cost=50_000)]
            inner[0]["beh"]["fail_at"] = n_fail
            sysc = {"name": "fsys", "kind": "sys", "inputs": {"x": ["src", "o"]}, "expose": {"y": ["slow2", "o"]}, "components": inner}
            if depth == 2:
                sysc = {"name": "fouter", "kind": "sys", "inputs": {"x": ["src", "o"]}, "expose": {"y": ["fsys", "y"]},
                        "components": [dict(sysc, inputs={"x": ["external", "x"]})]}
            scn = {"components": [dev("src", cb={"kind": "period", "p": P}, cost=20_000), sysc, dev("after", {"i": [sysc["name"], "y"]}, cost=20_000),
                                  dev("other", cb={"kind": "period", "p": P + 1_000_000}, cost=20_000)], "n_ticks": n_fail + 4, "max_real": 60_000_000}
            for b in ("sync", "held"):
                run_ = run_scenario(scn, bus=b, seed=seed + n_fail)
                res.case(SC.scn_key(scn) + b, nontrivial=True)
                res.count("failure-inside-system")
                SC.check_run(scn, run_, drv, res, monitors_on=("ticker", "tick_times"), corr=("ticker",), case_extra={"bus": b, "held_seed": seed + n_fail}, expect_failures=True)
    return res


def replay(payload, drv):
    return simprop.generic_replay(payload, drv, monitors_on=MON, corr=CORR)
