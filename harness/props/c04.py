"""C04 — ticks are serialised, carry one time each, and time never runs backwards."""
from . import simprop

MODULES = ["TickitModel.Props.C04", "TickitModel.Props.C01"]
THEOREMS = ["one_time_per_tick", "tick_complete", "wake_not_before", "time_monotone", "tick_time_provenance",
            "within_extent", "finished_iff", "resolved_iff_answered"]
ANCHORS = ["src/tickit/core/management/ticker.py", "src/tickit/core/management/schedulers/master.py",
           "src/tickit/core/management/schedulers/nested.py", "src/tickit/core/components/system_component.py"]
TECHNIQUE = "Lean 4 theorems (a tick finishes only when every member of its extent answered, all dispatches carry the tick time, tick times non-decreasing when no callback is in the past) + trace validation of real runs incl. nested ticks inside outer ticks"
LEVEL_TEXT = ("Theorems: in every run of a tick, `finished` is raised exactly when every member of the extent has answered, each was dispatched once, all "
              "with the tick's time (ticker model, all answer orders); over flat multi-tick histories every pending wakeup is at or after the last tick "
              "time, so successive tick times never decrease provided no device asks for a callback in the past. PARTIAL: 'inner tick wholly inside the "
              "outer tick at the same time' and serialisation under interrupts arriving mid-tick are validated on traces of the real code (monitor + "
              "model comparison), not proved.")
LEVEL_NOTE = "Trusts: Lean kernel; hand-written models; nesting and interrupt timing carried by trace validation."
ASSUMPTIONS = ["no device asks to be called back in the past (for monotonicity)"]
MON = ("ticker", "tick_times", "device_order")
CORR = ("ticker", "sim")


def run(tier, seed, drv):
    return simprop.generic_run(tier, seed, drv, monitors_on=MON, corr=CORR)


def replay(payload, drv):
    return simprop.generic_replay(payload, drv, monitors_on=MON, corr=CORR)
