"""C17 — configuration files build exactly the simulation they describe."""
import itertools
import json
import random
import subprocess
import sys
import os
from concurrent.futures import ThreadPoolExecutor

from .base import Result, V

MODULES = ['TickitModel.Props.C17', 'TickitModel.Props.C17Codec', 'TickitModel.Props.C16', "TickitModel.Props.C17Partition"]
THEOREMS = ["select_subset", "two_part_division", "division_hosts_once", 'dispatch_by_tag', 'dispatch_none_iff', 'dispatch_perm_invariant', 'dispatch_ignores_others', 'select_exact', 'select_unknown', 'select_all', 'wiring_from_configs_exact', 'keys_from_configs', 'conn_fromInverse', 'config_roundtrip', 'unknown_tag_rejected', 'decode_depends_on_tag_only']
ANCHORS = ["src/tickit/utils/configuration/tagged_union.py", "src/tickit/utils/configuration/loading.py", "src/tickit/core/components/component.py",
           "src/tickit/core/management/event_router.py", "src/tickit/core/simulation.py", "src/tickit/core/components/system_component.py"]
TECHNIQUE = "Lean 4 theorems over the tag-dispatch/selection/wiring-from-configs model (class chosen by tag only, independent of registry order and of look-alike classes; unknown tag rejected; exact selection; wiring = declared inputs) + differential run of read_configs/build_simulation in fresh interpreters over generated classes, import orders and nested entries"
LEVEL_TEXT = ("PARTIAL. Proved (model): the class chosen for an entry is the registered class whose tag equals the entry's type, for every registry order "
              "and regardless of other classes with the same field signature; an unknown tag is rejected; a requested subset yields exactly those "
              "components, an unknown name an error; the inverse wiring built from configs has exactly the declared connections; encoding a well-formed entry tree (asdict) and decoding it by tag gives back the same tree at any nesting depth, unknown tags are rejected, and decoding depends on the tag's class only. pydantic's "
              "discriminated-union machinery and PyYAML are parameters of the model, so the weight lies on the correspondence: config classes are "
              "generated at run time (several with identical field signatures, in one or several modules), imported in every order (<= 3 classes "
              "quick, 4 thorough) in fresh interpreters, entries nested to depth 3 with arbitrary wiring, loaded through the real read_configs / "
              "build_simulation, dumped with asdict+yaml and re-read; class, field values, round-trip equality, selected components and scheduler "
              "wiring are compared with the model and with the property directly.")
LEVEL_ADDENDUM = 'Session 8: string field values that look like environment-variable references (the worker runs with such a variable set), format placeholders, YAML keywords / numbers / tags / anchors / comments load verbatim; malformed entries (missing / ill-typed fields) must be rejected.'
LEVEL_NOTE = "Trusts: Lean kernel; the abstract dispatch model; pydantic v1 and PyYAML (not modelled); each case runs in a fresh Python process."
ASSUMPTIONS = ["config classes are pydantic dataclasses deriving from ComponentConfig, directly or through other config classes", "type tags are module.QualName"]
WORKER = os.path.join(os.path.dirname(os.path.dirname(os.path.abspath(__file__))), "c17_worker.py")


def call_worker(spec):
    p = subprocess.run(["/venv/bin/python", WORKER], input=json.dumps(spec), capture_output=True, text=True, timeout=120,
                       env=dict(os.environ, C17VAR="expanded-from-the-environment"))
    try:
        return json.loads(p.stdout.strip().splitlines()[-1])
    except Exception:
        return {"errors": [p.stderr[-500:]]}


# string field values: whatever a string holds is DATA - text that looks like an environment variable reference (the worker
# runs with C17VAR / HOME / PATH set), a format or template placeholder, a YAML keyword, number, tag, anchor or comment
STRINGS = ["a", "b", "1", "$C17VAR", "${C17VAR}", "$HOME/x", "${PATH}", "$$", "%(x)s", "%s", "{x}", "{{x}}", "~", "~/cfg", "null", "yes", "off", "0x10",
           "1e3", "007", "", " ", " lead", "trail ", "#c", "a #c", "a: b", "- a", "!t", "*a", "&a", "[1]", "{a: 1}", "é", "\\n", "'q'", '"q"', "@x", "`x`", "a\tb"]


def merge_key_text(entries, rng):
    """the same top-level entries written the way hand-maintained configuration files are: an entry as an anchored mapping,
    a later entry of the same class as `<<: *anchor` plus the keys that differ - the merge key first, last, or as a list of
    two anchors.  YAML's rule: the entry's own keys win over merged ones, earlier mappings of a merge list over later ones.
    Returns the text, or None when no two device entries share a class (PyYAML's standard loader must agree with `entries`)."""
    import yaml
    devs = [i for i, e in enumerate(entries) if "components" not in e]
    pairs = [(i, j) for i in devs for j in devs if i < j and entries[i]["type"] == entries[j]["type"]]
    if not pairs:
        return None
    bi, ei = rng.choice(pairs)
    third = [k for k in devs if k < ei and k != bi and entries[k]["type"] == entries[bi]["type"]]
    form = rng.choice(("first", "last", "list") if third else ("first", "last"))
    out = []
    for i, e in enumerate(entries):
        body = yaml.safe_dump([e], default_flow_style=False)
        if i == bi or (form == "list" and i == third[0]):
            body = "- &anc%d\n  " % i + body[2:]
        elif i == ei:
            b = entries[bi]
            own = {k: v for k, v in e.items() if k not in b or b[k] != v}
            own_txt = yaml.safe_dump(own, default_flow_style=False) if own else ""
            own_lines = ["  " + l for l in own_txt.splitlines()]
            merge = "<<: *anc%d" % bi if form != "list" else "<<: [*anc%d, *anc%d]" % (bi, third[0])
            lines = ([merge] + [l[2:] for l in own_lines]) if form != "last" else ([l[2:] for l in own_lines] + [merge])
            body = "- " + lines[0] + "\n" + "".join("  " + l + "\n" for l in lines[1:])
        out.append(body)
    text = "".join(out)
    try:
        if yaml.load(text, Loader=yaml.Loader) != entries:
            return None
    except Exception:   # noqa: BLE001
        return None
    return text


def gen_spec(rng, n_classes, order, unknown=False):
    sig_a = [["x", "int"]]
    sig_b = [["x", "int"], ["label", "str"]]
    classes = []
    same_names = rng.random() < 0.5
    for i in range(n_classes):
        # the same class NAME may occur in both modules (gm0.K0 and gm1.K0 are different classes with different tags)
        classes.append((f"gm{i % 2}", f"K{i // 2}" if same_names else f"K{i}", sig_a if (i < max(2, n_classes - 1) and i % 2 == 0) else sig_b))
    modules = {}
    for m, c, f in classes:
        modules.setdefault(m, []).append([c, f])
    # config classes derived from another config class (two levels below ComponentConfig, and a third):
    # an entry tagged with the derived class must load as the derived class
    if rng.random() < 0.6:
        modules["gm0"].append(["D0", [["extra", "int = 0"]], "K0"])
        classes.append(("gm0", "D0", sig_a + [["extra", "int"]]))
        if rng.random() < 0.5:
            modules["gm0"].append(["E0", [["more", "str = ''"]], "D0"])
            classes.append(("gm0", "E0", sig_a + [["extra", "int"], ["more", "str"]]))
    # a class with a field that YAML's plain types cannot express exactly (a tuple): written by `yaml.dump` with a
    # python tag, by `yaml.safe_dump` as a list that pydantic converts back
    if rng.random() < 0.5:
        modules["gm0"].append(["T0", [["x", "int"], ["lim", "Tuple[int, int] = (0, 1)"]]])
        classes.append(("gm0", "T0", sig_a + [["lim", "tuple"]]))
    names = []
    # component names and ports written as plain YAML scalars that are not strings (`name: 7`, `component: 7`, `port: 2`):
    # both ends of a connection must be normalised to the same strings
    numeric = rng.random() < 0.3

    def entry(depth, prefix):
        m, c, f = rng.choice(classes)
        nm = f"{prefix}{len(names)}" if not (numeric and depth == 0) else 100 + len(names)
        names.append(nm)
        e = {"type": f"{m}.{c}", "name": nm, "inputs": {}}
        for fn, ft in f:
            e[fn] = rng.randrange(100) if ft == "int" else ([rng.randrange(5), rng.randrange(5)] if ft == "tuple" else rng.choice(STRINGS))
        return e

    def system(depth, prefix):
        nm = f"{prefix}s{len(names)}"
        names.append(nm)
        kids = [entry(depth + 1, prefix) for _ in range(rng.randrange(1, 3))]
        if depth < 3 and rng.random() < 0.5:
            kids.append(system(depth + 1, prefix))
        for k in kids[1:]:
            if rng.random() < 0.6:
                k["inputs"]["i"] = {"component": kids[0]["name"], "port": "o"}
        return {"type": "tickit.core.components.system_component.SystemSimulation", "name": nm, "inputs": {},
                "components": kids, "expose": {"y": {"component": kids[0]["name"], "port": "o"}}}

    top = [entry(0, "t") for _ in range(rng.randrange(2, 5))]
    if rng.random() < 0.8:
        # a system anywhere in the list (first, middle, last): classes that are first met inside
        # it (lazily imported through their tag) are used again by later top-level entries
        top.insert(rng.randrange(0, len(top) + 1), system(1, "n"))
    for i, e in enumerate(top):
        for j in range(i):
            if rng.random() < 0.4:
                e["inputs"][f"i{j}"] = {"component": top[j]["name"], "port": rng.choice(["o", "y", "out"] + ([2, 3] if numeric else []))}
    if not numeric and rng.random() < 0.3:
        # valid component names that contain commas or surrounding blanks (a name is any non-empty string)
        pool = ["bank,1", "bank", "1", "a, b", " x", "y ", "p,q,r", "q"]
        rng.shuffle(pool)
        ren = {e["name"]: pool[i] for i, e in enumerate(top) if i < len(pool)}
        for e in top:
            e["name"] = ren.get(e["name"], e["name"])
            for q in e["inputs"].values():
                q["component"] = ren.get(q["component"], q["component"])
    if unknown == "malformed":
        # an entry whose fields do not fit the class its tag names (required field missing / of the wrong type / a field
        # the class does not have is tolerated by pydantic dataclasses only if declared): it is rejected, not loaded as something else
        devs = [e for e in top if "components" not in e]
        e = rng.choice(devs)
        if rng.random() < 0.5:
            del e["x"]
        else:
            e["x"] = rng.choice(["not-a-number", [1, 2], {"a": 1}])
    elif unknown:
        top[rng.randrange(len(top))]["type"] = rng.choice(["gm0.Nope", "nomodule.K0", "gm0.K99"])
    tops = [str(e["name"]) for e in top]
    sels = [None, tops[:1], tops[::2], tops + ["ghost"], []]
    imp = [f"gm{i}" for i in order if f"gm{i}" in modules]
    spec = {"modules": modules, "import_first": imp, "entries": top, "selections": sels}
    if not unknown and rng.random() < 0.4:
        txt = merge_key_text(top, rng)
        if txt:
            spec["raw_yaml"] = txt
    return spec, classes


def expected_desc(e):
    d = {"class": e["type"], "name": str(e["name"]), "inputs": {k: [str(v["component"]), str(v["port"])] for k, v in e["inputs"].items()},
         "fields": {k: v for k, v in e.items() if k not in ("type", "name", "inputs", "components", "expose")}}
    if "components" in e:
        d["components"] = [expected_desc(x) for x in e["components"]]
        d["expose"] = {k: [str(v["component"]), str(v["port"])] for k, v in e["expose"].items()}
        d["fields"] = {}
    return d


def run(tier, seed, drv):
    res = Result()
    rng = random.Random(seed)
    specs = []
    ncls = 3 if tier == "quick" else 4
    orders = list(itertools.permutations(range(2))) + [(0,), (1,)]  # module import orders (full and partial)
    for n in range(2, ncls + 1):
        for order in orders + [()]:
            for rep in range(3 if tier == "quick" else 8):
                specs.append(gen_spec(rng, n, order) + (False,))
    for _ in range(4 if tier == "quick" else 20):
        specs.append(gen_spec(rng, 3, (0, 1), unknown=True) + (True,))
    for _ in range(4 if tier == "quick" else 20):
        specs.append(gen_spec(rng, 3, (0, 1), unknown="malformed") + ("malformed",))
    with ThreadPoolExecutor(max_workers=12) as ex:
        outs = list(ex.map(lambda s: call_worker(s[0]), specs))
    reqs = []
    for (spec, classes, unknown), out in zip(specs, outs):
        reg = [{"tag": f"{m}.{c}", "fields": [f[0] for f in fs]} for m, c, fs in classes] + [{"tag": "tickit.core.components.system_component.SystemSimulation", "fields": []}]
        tops = [str(e["name"]) for e in spec["entries"]]
        reqs.append({"op": "config", "registry": reg, "tags": [e["type"] for e in spec["entries"]], "available": tops, "requested": None,
                     "configs": [[str(e["name"]), [[q, [str(s["component"]), str(s["port"])]] for q, s in e["inputs"].items()]] for e in spec["entries"]]})
    reps = drv.eval(reqs)
    for (spec, classes, unknown), out, rq, rep in zip(specs, outs, reqs, reps):
        case = {"spec": spec}
        res.case(json.dumps(spec, sort_keys=True), nontrivial=True, sample={"entries": spec["entries"][:2], "import_first": spec["import_first"]} if len(res.samples) < 2 else None)
        res.count("unknown-tag" if unknown else "valid")
        if spec.get("raw_yaml"):
            res.count("written-with-anchors-and-merge-keys")
        res.count("import_order=" + ",".join(spec["import_first"]))
        if out.get("errors"):
            res.violate(V("worker-error", out["errors"][0][-300:], site="worker"), case)
            continue
        if unknown == "malformed":
            res.count("malformed-entry")
            if "load_error" not in out:
                res.violate(V("malformed-entry-accepted", f"an entry whose fields do not fit its class was loaded: {out.get('loaded')}", site="read_configs"), case)
            continue
        if unknown:
            if "load_error" not in out:
                res.violate(V("unknown-tag-accepted", f"entries with an unknown type tag were loaded: {[d['class'] for d in out.get('loaded', [])]}", site="read_configs"), case)
            if None in rep["dispatch"]:
                pass
            else:
                res.diverge("model accepted an unknown tag", case)
            continue
        if "load_error" in out:
            res.violate(V("valid-config-rejected", f"read_configs raised {out['load_error']}", site="read_configs"), case)
            continue
        if "post_load_error" in out:
            res.violate(V("wrong-class-or-fields", f"what read_configs returned cannot be used: {out['post_load_error']} (loaded {out.get('loaded')})", site="read_configs"), case)
            continue
        exp = [expected_desc(e) for e in spec["entries"]]
        if out["loaded"] != exp:
            k = next(i for i in range(len(exp)) if i >= len(out["loaded"]) or out["loaded"][i] != exp[i])
            res.violate(V("wrong-class-or-fields", f"entry #{k}: loaded {out['loaded'][k] if k < len(out['loaded']) else None} expected {exp[k]}", site="read_configs"), case)
        if [d["class"] for d in out["loaded"]] != rep["dispatch"]:
            res.diverge(f"tag dispatch: impl {[d['class'] for d in out['loaded']]} model {rep['dispatch']}", case)
        if not out.get("roundtrip_equal"):
            res.violate(V("roundtrip-not-equal", "dump + load gave a different configuration", site="roundtrip"), case)
        if not out.get("roundtrip_full_equal"):
            res.violate(V("roundtrip-not-equal", "yaml.dump + load: " + str(out.get("roundtrip_full_error", "different configuration")), site="roundtrip", dumper="yaml.dump"), case)
        tops = [str(e["name"]) for e in spec["entries"]]
        declared = sorted(f"{s['component']}:{s['port']}>{e['name']}:{q}" for e in spec["entries"] for q, s in e["inputs"].items())
        res.count("numeric-names" if any(not isinstance(e["name"], str) for e in spec["entries"]) else "string-names")
        for req, sel in zip(spec["selections"], out["selections"]):
            if req is not None and any(r not in tops for r in req):
                if "error" not in sel:
                    res.violate(V("unknown-component-accepted", f"components_to_run={req} accepted: {sel}", site="build_simulation"), case)
                continue
            if "error" in sel:
                res.violate(V("selection-rejected", f"components_to_run={req} raised {sel['error']}", site="build_simulation"), case)
                continue
            want = sorted(tops if req is None else [t for t in tops if t in req])
            if sel["components"] != want:
                res.violate(V("wrong-components", f"components_to_run={req}: built {sel['components']} expected {want}", site="build_simulation"), case)
            if sel["inv_conns"] != declared:
                res.violate(V("wrong-wiring", f"scheduler wiring {sel['inv_conns']} declared {declared}", site="build_simulation"), case)
            if sel["inv_conns"] != rep["inv_conns"] or sel["inv_keys"] != rep["inv_keys"]:
                res.diverge(f"wiring from configs: impl {sel['inv_conns']} / {sel['inv_keys']} model {rep['inv_conns']} / {rep['inv_keys']}", case)
        # the same requests through the command line
        for req, sel in zip(spec["selections"], out.get("cli_selections", [])):
            if "worker_error" in sel:
                res.notes.append("cli selections not exercised: " + sel["worker_error"])
                break
            res.count("cli-selection")
            if req is not None and any(r not in tops for r in req):
                if "error" not in sel:
                    res.violate(V("unknown-component-accepted", f"tickit components {req}: accepted: {sel}", site="cli.components"), case)
                continue
            if "error" in sel:
                res.violate(V("selection-rejected", f"tickit components {req or ''}: {sel['error']} (the configuration has {tops})", site="cli.components"), case)
                continue
            want = sorted(tops if not req else [t for t in tops if t in req])
            if sel["components"] != want or sel.get("scheduler"):
                res.violate(V("wrong-components", f"tickit components {req or ''}: simulation has {sel['components']} (scheduler: {sel.get('scheduler')}) expected {want} and no scheduler", site="cli.components"), case)
    res.rule = (f"generated config classes (2..{ncls}, most with the identical signature x:int, spread over two modules), every module import order plus "
                "lazy import by tag only, entries nested to depth 3 inside SystemSimulation with random wiring, 5 component selections each (all, one, "
                "alternate, with an unknown name, none) and entries with unknown tags; each case in a fresh interpreter through read_configs, "
                "asdict+yaml round trip and build_simulation; non-trivial = all")
    return res


def replay(payload, drv):
    out = call_worker(payload["case"]["spec"])
    exp = [expected_desc(e) for e in payload["case"]["spec"]["entries"]]
    vs = []
    if out.get("loaded") != exp and "load_error" not in out:
        vs.append(V("wrong-class-or-fields", f"{out.get('loaded')} vs {exp}"))
    return {"worker": out, "violations": vs}
