"""C18 — adapter messages reach exactly the matching command; interrupt iff declared."""
import asyncio
import itertools
import random
import re

from .base import Result, V

MODULES = ["TickitModel.Props.C18", "TickitModel.Props.C18Regex", "TickitModel.Props.C18Http"]
THEOREMS = ["handle_first_match", "handle_unknown_iff", "parse_undecodable", "parse_bytes", "parse_text", "pyStrip_spec",
            "tcpChunk_matched", "tcpChunk_unknown", "tcpConn_append", "tcpConn_counts",
            "accepts_iff_matches", "opt_matches", "plus_matches", "lit_matches",
            "Http.firstMatch_spec", "Http.firstMatch_none_iff", "Http.resolveFirst_createRouteDefinitions", "Http.httpRequest_matched", "Http.httpRequest_unmatched",
            "Http.httpRequest_counts", "Http.httpRequest_interrupt_iff", "Http.httpRequest_interrupt_between", "Http.httpRequest_unmatched_quiet", "Http.httpRequestWith_shape",
            "Http.route_calls_own_handler", "Http.httpRequest_handler_is_matched", "Http.httpRequest_perm", "Http.overlaps_exact", "Http.httpRequestIdx_perm",
            "Http.getEndpoints_perm", "Http.getEndpoints_names_irrelevant", "Http.httpRequestIdx_matched", "Http.httpRequestIdx_unmatched", "Http.httpRequestIdx_eq_httpRequest"]
ANCHORS = ["src/tickit/adapters/tcp.py", "src/tickit/adapters/specifications/regex_command.py", "src/tickit/adapters/io/tcp_io.py",
           "src/tickit/adapters/io/http_io.py", "src/tickit/adapters/specifications/http_endpoint.py", "src/tickit/adapters/utils.py",
           "src/tickit/utils/byte_format.py"]
TECHNIQUE = "Lean 4 theorems (first matching command in registration order, undecodable bytes fall through, interrupt after handler iff declared, each non-empty reply written once in order in the byte format, unknown reply otherwise) + exhaustive/generated differential run of CommandAdapter / RegexCommand / TcpIo handle function against the model; HTTP: theorems over an endpoint-table model (effect of the matched endpoint exactly once, interrupt iff declared and between effect and reply, each route calls its own handler, nothing happens for an unmatched request - for every table and request, for any sound and complete resolver) + differential run of generated HttpAdapter subclasses through get_endpoints / HttpIo.create_route_definitions / aiohttp's router against the model"
LEVEL_TEXT = ("Theorems over the command-dispatch model for every byte string and every ordered command list: the command invoked is the first whose "
              "pattern matches the whole message after that command's declared decoding (bytes: raw; text: UTF-8 decode + strip, with Python's "
              "whitespace table; undecodable input matches no text command and falls through), invoked once with the captured groups; otherwise no "
              "handler, no interrupt and the unknown-command reply; the interrupt follows the handler iff the command is declared interrupting; every "
              "reply other than the empty marker is written once, in order, formatted. PARTIAL: pattern matching is a parameter of the dispatch model (the oracle is Python's `re`, called by the harness independently of "
              "tickit); for the fragment literals / classes / `.` / concatenation / alternation / `?*+` a derivative-based matcher is proved equal to "
              "the denotational semantics of regular expressions and is itself compared with re.fullmatch on generated patterns and strings; capture "
              "groups, pydantic and aiohttp remain parameters. Tie to the "
              "code: all byte strings of length <= 1 (quick) / <= 2 (thorough) and generated/mutated messages (invalid UTF-8, partial and over-long "
              "matches, surrounding whitespace incl. non-ASCII) against generated command sets with mixed bytes/text commands and the shipped example "
              "adapters, through CommandAdapter.handle_message and the TcpIo handle function with fake streams; HTTP (Props/C18Http, model Core/Http: endpoint tables with literal and {name} segments, the post-hoc interrupt wrapper, aiohttp's indexed resolution and registration-order resolution, 404/405, refused tables): for every table and request the trace is [effect of the matched endpoint's own handler] ++ [interrupt iff declared] ++ [reply], nothing at all for an unmatched request, and permuting non-overlapping routes changes nothing; aiohttp's resolver is a parameter (any sound and complete resolver), its concrete algorithm is modelled by httpRequestIdx and compared on every run: generated HttpAdapter subclasses (1-6 endpoints, 0-5 interrupting, overlapping templates, duplicates) go through the real get_endpoints, HttpIo.create_route_definitions and a real aiohttp Application router (no network), and the observed effect / interrupt / reply events must equal the model's.")
LEVEL_ADDENDUM = 'Session 8: every other non-interrupting command / endpoint is declared WITHOUT the interrupt argument (documented default); every third connection is greeted (on_connect replies written once, in order, first).'
LEVEL_NOTE = "Trusts: Lean kernel; hand-written dispatch model; Python's re/codecs as the pattern/decoding oracle for the harness side; Lean's String.fromUTF8? as the UTF-8 validator of the model (differences from CPython's decoder would show up as divergences)."
ASSUMPTIONS = ["commands are RegexCommand instances registered on adapter methods", "a connection's reply tasks write without blocking (fake writer)"]

UNKNOWN = "Request does not match any known command"

# (name, kind, pattern, interrupt, argtypes, replies)
COMMAND_SETS = [
    [("c0", "bytes", rb"A", False, [], [b""]),
     ("c1", "bytes", rb"(\d)", True, [int], [b"n"]),
     ("c2", "text", r"B", True, [], [b"b"]),
     ("c3", "text", r"(\w)", False, [str], [b"w", None, b"", b"w2"])],
    [("c0", "text", r"P=(\d+)", True, [int], [b"ok"]),
     ("c1", "text", r"P\?", False, [], [b"p"]),
     ("c2", "bytes", rb"\xff(.)", True, [bytes], [b"raw"]),
     ("c3", "bytes", rb"P=(\d+)", False, [int], [b"shadowed"])],
    [("c0", "bytes", rb".*", False, [], [None]),
     ("c1", "text", r".*", True, [], [b"never"])],
    [("c0", "text", r"", False, [], [b"empty"]),
     ("c1", "text", r"é+", True, [], [b"accent"]),
     ("c2", "bytes", rb"[\x80-\xff]{2}", True, [], [b"hi"])],
]


def build_adapter(cmds, log, fmt=None):
    from tickit.adapters.specifications.regex_command import RegexCommand
    from tickit.adapters.tcp import CommandAdapter
    from tickit.utils.byte_format import ByteFormat
    ns = {}
    for i, (name, kind, pat, intr, argtypes, replies) in enumerate(cmds):
        def mk(i=i, replies=replies, argtypes=argtypes, kind=kind):
            params = ", ".join(f"a{k}: T{k}" for k in range(len(argtypes)))
            src = f"async def f(self{', ' if params else ''}{params}):\n    return await _impl(self, [{', '.join('a%d' % k for k in range(len(argtypes)))}])\n"
            g = {f"T{k}": t for k, t in enumerate(argtypes)}

            async def _impl(self, args):
                log.append(("invoke", i, [a.decode("latin1") if isinstance(a, bytes) else a for a in args]))
                if len(replies) == 1:
                    return replies[0]

                async def gen():
                    for r in replies:
                        yield r
                return gen()
            g["_impl"] = _impl
            exec(src, g)
            return g["f"]
        f = mk()
        f.__name__ = name
        if not intr and i % 2 == 0:
            # declared WITHOUT the interrupt argument (the documented default: no interrupt)
            deco = RegexCommand(pat, format="utf-8") if kind == "text" else RegexCommand(pat)
        else:
            deco = RegexCommand(pat, intr, "utf-8") if kind == "text" else RegexCommand(pat, intr)
        ns[name] = deco(f)
    if fmt is not None:
        ns["_byte_format"] = ByteFormat(fmt)
    cls = type("GenAdapter", (CommandAdapter,), ns)
    return cls()


def oracle(cmds, data):
    """per command: what Python's re says on the independently converted message"""
    out = []
    for (name, kind, pat, intr, argtypes, replies) in cmds:
        if kind == "bytes":
            m = re.compile(pat).fullmatch(data)
            groups = None if m is None else [g.decode("latin1") for g in m.groups()]
        else:
            try:
                text = data.decode("utf-8").strip()
                m = re.compile(pat).fullmatch(text)
                groups = None if m is None else list(m.groups())
            except UnicodeDecodeError:
                groups = None
        out.append(groups)
    return out


def enc_reply(r):
    if r is None:
        return None
    return list(r if isinstance(r, bytes) else r.encode("utf-8"))


async def run_real(adapter, cmds, data, log):
    """handle one chunk through the TcpIo handle function (fake streams)"""
    from tickit.adapters.io.tcp_io import TcpIo
    events = log

    async def raise_interrupt():
        events.append(("interrupt",))

    class Reader:
        def __init__(self):
            self.sent = False

        async def read(self, k):
            if not self.sent:
                self.sent = True
                return data
            for _ in range(6):
                await asyncio.sleep(0)
            return b""

    class Writer:
        def write(self, b):
            events.append(("write", list(b)))

        def is_closing(self):
            return False

        async def drain(self):
            pass

        def get_extra_info(self, k):
            return ("fake", 0)

    io = TcpIo("localhost", 0)
    handle = io._generate_handle_function(adapter.on_connect, adapter.handle_message, raise_interrupt, adapter.byte_format)
    if data == b"":
        # an empty read means EOF to the server loop: call the adapter directly
        replies = await adapter.handle_message(data, raise_interrupt)
        async for r in replies:
            if r is not None:
                events.append(("write", list(adapter.byte_format.format % (r if isinstance(r, bytes) else r.encode("utf-8")))))
        return
    await handle(Reader(), Writer())


async def run_real_seq(adapter, chunks, log, intr_latency, eof_at_once=False):
    """a sequence of chunks on ONE connection through the TcpIo handle function; the client pipelines
    (the next chunk is available at once) and raising an interrupt takes `intr_latency` loop iterations,
    as it does when the real raise_interrupt awaits the state producer"""
    from tickit.adapters.io.tcp_io import TcpIo
    events = log

    async def raise_interrupt():
        for _ in range(intr_latency):
            await asyncio.sleep(0)
        events.append(("interrupt",))

    class Reader:
        def __init__(self):
            self.k = 0

        async def read(self, n):
            if self.k < len(chunks):
                self.k += 1
                return chunks[self.k - 1]
            # the client half-closes right after its last message (`echo CMD | nc host port`), or a while later
            for _ in range(0 if eof_at_once else 8 + 4 * intr_latency):
                await asyncio.sleep(0)
            return b""

    class Writer:
        def write(self, b):
            events.append(("write", list(b)))

        def is_closing(self):
            return False

        async def drain(self):
            pass

        def get_extra_info(self, k):
            return ("fake", 0)

    io = TcpIo("localhost", 0)
    handle = io._generate_handle_function(adapter.on_connect, adapter.handle_message, raise_interrupt, adapter.byte_format)
    await handle(Reader(), Writer())


def expected_events(cmds, data, fmt):
    """the property, directly"""
    orc = oracle(cmds, data)
    pre, post = (fmt or b"%b").split(b"%b")
    for i, g in enumerate(orc):
        if g is not None:
            (name, kind, pat, intr, argtypes, replies) = cmds[i]
            args = [t(x.encode("latin1")) if t is bytes else (t(x) if t is not int else int(x)) for t, x in zip(argtypes, g)]
            args = [a.decode("latin1") if isinstance(a, bytes) else a for a in args]
            ev = [("invoke", i, args)]
            if intr:
                ev.append(("interrupt",))
            for r in replies:
                if r is not None:
                    ev.append(("write", list(pre + (r if isinstance(r, bytes) else r.encode("utf-8")) + post)))
            return ev
    return [("write", list(pre + UNKNOWN.encode("utf-8") + post))]


def messages(rng, tier, cmds):
    out = [b""]
    out += [bytes([b]) for b in range(256)]
    if tier == "thorough":
        out += [bytes([a, b]) for a in range(256) for b in range(256)]
    else:
        out += [bytes([rng.randrange(256), rng.randrange(256)]) for _ in range(1500)]
    seeds = [b"A", b"B", b"7", b"P=12", b"P?", b"\xffz", "é".encode(), "éé".encode(), b"w", b" B ", b"\tP=3\r\n", " B ".encode(),
             " P?".encode(), b"\xc3", b"\xc3\xa9\xc3", b"P=", b"P=1x", b"AA", b"\x80\x81", b"\xe2\x80\xa8B", b"B\x1c"]
    out += seeds
    for _ in range(400 if tier == "quick" else 5000):
        s = bytearray(rng.choice(seeds))
        r = rng.random()
        if r < 0.3 and s:
            s[rng.randrange(len(s))] = rng.randrange(256)
        elif r < 0.6:
            s.insert(rng.randrange(len(s) + 1), rng.choice(b" \t\r\n\x0b\x0c\x1c\x85\xa0\xc2\xff0aP"))
        elif r < 0.8 and s:
            del s[rng.randrange(len(s))]
        else:
            s += rng.choice(seeds)
        out.append(bytes(s))
    return out


def gen_regex(rng, depth):
    """(python pattern, AST for the Lean matcher) in the verified fragment"""
    alphabet = "aP=9x "
    r = rng.random()
    if depth == 0 or r < 0.3:
        k = rng.random()
        if k < 0.5:
            c = rng.choice(alphabet)
            return re.escape(c), {"k": "chr", "c": ord(c)}
        if k < 0.7:
            return ".", {"k": "any"}
        lo, hi, neg = rng.choice([("0", "9", False), ("a", "c", False), ("x", "x", True), ("P", "a", False)])
        return f"[{'^' if neg else ''}{lo}-{hi}]", {"k": "cls", "r": [[ord(lo), ord(hi)]], "neg": neg}
    if r < 0.55:
        a, b = gen_regex(rng, depth - 1), gen_regex(rng, depth - 1)
        return a[0] + b[0], {"k": "seq", "a": a[1], "b": b[1]}
    if r < 0.7:
        a, b = gen_regex(rng, depth - 1), gen_regex(rng, depth - 1)
        return f"(?:{a[0]}|{b[0]})", {"k": "alt", "a": a[1], "b": b[1]}
    a = gen_regex(rng, depth - 1)
    op, k = rng.choice([("*", "star"), ("+", "plus"), ("?", "opt")])
    return f"(?:{a[0]}){op}", {"k": k, "a": a[1]}


def regex_part(rng, n, drv, res):
    """the verified Lean matcher against Python's re.fullmatch on the command-pattern fragment"""
    cases = []
    for _ in range(n):
        pat, ast = gen_regex(rng, 3)
        strs = ["", "a", "P=9", "99", "a a", "x", "\n", "P=", "aaa", "9x9"] + ["".join(rng.choice("aP=9x \n") for _ in range(rng.randrange(0, 6))) for _ in range(12)]
        cases.append((pat, ast, strs))
    reps = drv.eval([{"op": "regex", "re": ast, "inputs": [[ord(c) for c in s_] for s_ in strs]} for pat, ast, strs in cases])
    for (pat, ast, strs), rep in zip(cases, reps):
        rx = re.compile(pat)
        py = [rx.fullmatch(s_) is not None for s_ in strs]
        res.case(("regex", pat), nontrivial=any(py) and not all(py))
        res.count("regex-patterns")
        if py != rep:
            k = next(i for i in range(len(py)) if py[i] != rep[i])
            res.diverge(f"regex {pat!r} on {strs[k]!r}: re.fullmatch {py[k]} Lean matcher {rep[k]}", {"pattern": pat, "input": strs[k]})
        parse_vs_fullmatch(pat, strs, res)
    # patterns outside the verified fragment that a command table may well contain: alternatives one of which is a prefix of
    # another, lazy quantifiers, optional tails, captured groups - "matches the WHOLE message" means re.fullmatch, whatever a
    # leftmost match would have stopped at
    for pat in ("ABS|ABSOLUTE", "STOP|STOP NOW", "(a|ab)(c|bcd)?", r"(\w+?)", r"(\d+(?:\.\d+)??)", "a*?", "(?:a|aP)=?9?", r"P=(\d+?)", "x??x", "(?:9|99|999)x?", r"(\S+) (\S+?)"):
        strs = ["ABS", "ABSOLUTE", "ABSOLUT", "STOP", "STOP NOW", "ab", "abcd", "ac", "abc", "word", "w", "1", "1.5", "12.25", "", "a", "aa", "aP=9", "aP", "P=12", "P=1",
                "x", "xx", "9", "99x", "999", "a b", "ab cd", " ABS ", "ABS\n"]
        res.case(("regex", pat), nontrivial=True)
        res.count("regex-patterns-handwritten")
        parse_vs_fullmatch(pat, strs, res)


def parse_vs_fullmatch(pat, strs, res):
    """tickit's own RegexCommand.parse (bytes pattern on the raw message; text pattern on the decoded, stripped message)
    against re.fullmatch: a command matches iff its pattern matches the WHOLE message, with the groups fullmatch captures"""
    from tickit.adapters.specifications.regex_command import RegexCommand
    try:
        cb = RegexCommand(pat.encode("utf-8"))
        ct = RegexCommand(pat, format="utf-8")
    except Exception as e:   # noqa: BLE001
        res.notes.append(f"RegexCommand({pat!r}) could not be constructed: {type(e).__name__}")
        return
    rxb, rxt = re.compile(pat.encode("utf-8")), re.compile(pat)
    for s_ in strs:
        data = s_.encode("utf-8")
        for kind, cmd, m in (("bytes", cb, rxb.fullmatch(data)), ("text", ct, rxt.fullmatch(s_.strip()))):
            want = None if m is None else tuple(m.groups())
            try:
                got = cmd.parse(data)
                got = None if got is None else tuple(got)
            except Exception as e:   # noqa: BLE001
                got = f"raised {type(e).__name__}"
            if got != want:
                res.violate(V("wrong-command-match", f"{kind} command {pat!r} on message {data!r}: parse -> {got}, the whole-message match gives {want}",
                              site="RegexCommand.parse", pattern_kind=kind), {"pattern": pat, "input": s_, "parse": True})
                return



def http_model_diff(rng, n, drv, res, loop):
    from aiohttp import web
    from aiohttp.test_utils import make_mocked_request
    from tickit.adapters.http import HttpAdapter
    from tickit.adapters.io.http_io import HttpIo
    from tickit.adapters.specifications import HttpEndpoint
    segs_t = ["a", "b", "a", "{x}", "{y}", "", "{x}"]
    segs_p = ["a", "b", "c", ""]
    meths = ["GET", "PUT", "POST", "HEAD"]
    pstr = lambda segs: "/" if not segs else "/" + "/".join(segs)   # noqa: E731
    cases, reals = [], []
    for _ in range(n):
        routes = []
        for _ in range(rng.randint(1, 5)):
            t = [rng.choice(segs_t) for _ in range(rng.randint(0, 3))]
            if t and t[0] == "":
                t[0] = "a"
            routes.append((rng.choice(meths), t, rng.random() < 0.5))
        if rng.random() < 0.1:
            routes.append((rng.choice(meths), routes[-1][1], rng.random() < 0.5))
        if rng.random() < 0.7:
            # mostly tables that aiohttp accepts: one route per (method, template)
            seen_mt, uniq = set(), []
            for m, t, intr in routes:
                ms = {"GET", "HEAD"} if m in ("GET", "HEAD") else {m}
                if not any((x, tuple(t)) in seen_mt for x in ms):
                    uniq.append((m, t, intr))
                    seen_mt |= {(x, tuple(t)) for x in ms}
            routes = uniq
        reqs = []
        for _ in range(4):
            pth = [rng.choice(segs_p) for _ in range(rng.randint(0, 3))]
            if pth and pth[0] == "":
                pth[0] = "a"
            m = rng.choice(meths)
            if rng.random() < 0.85:
                rm, rt, _ = rng.choice(routes)
                pth = [(rng.choice(["a", "b", "c"]) if sg.startswith("{") else sg) for sg in rt]
                if rng.random() < 0.75:
                    m = rm
            reqs.append((m, pth))
        log = []
        ns = {}
        for i, (m, t, intr) in enumerate(routes):
            def mk(i=i, m=m, t=t, intr=intr):
                @HttpEndpoint(pstr(t), m, intr)
                async def method(self, request):
                    log.append(["effect", i, sorted([k, v] for k, v in dict(request.match_info).items())])
                    return ("reply", i)
                return method
            ns[f"e{i:02d}"] = mk()     # getmembers order = registration order = index order
        adapter = type("GenHttpAdapter2", (HttpAdapter,), ns)()

        async def raise_interrupt():
            log.append(["interrupt"])
        defs = list(HttpIo().create_route_definitions(adapter.get_endpoints(), raise_interrupt))
        app = web.Application()
        real = {"startsOk": True, "replies": []}
        try:
            app.add_routes(defs)
        except Exception:   # noqa: BLE001  aiohttp refuses the table (e.g. the same method twice on one resource)
            real["startsOk"] = False

        async def one(m, pth):
            mi = await app.router.resolve(make_mocked_request(m, pstr(pth)))
            if mi.http_exception is not None:
                return [["error", mi.http_exception.status]]
            del log[:]
            out = await mi.handler(make_mocked_request(m, pstr(pth), match_info=mi))
            return [list(e) for e in log] + [[out[0], out[1]]]
        if real["startsOk"]:
            for m, pth in reqs:
                real["replies"].append(loop.run_until_complete(one(m, pth)))
        seg = lambda sg: ["var", sg[1:-1]] if sg.startswith("{") else ["lit", sg]   # noqa: E731
        cases.append({"op": "http", "endpoints": [{"path": [seg(x) for x in t], "method": m, "interrupt": intr, "handler": i} for i, (m, t, intr) in enumerate(routes)],
                      "requests": [{"method": m, "path": pth} for m, pth in reqs]})
        reals.append(real)
    for c, real, rep in zip(cases, reals, drv.eval(cases)):
        res.case(("http-model", str(c)))
        res.count("http-table-accepted" if real["startsOk"] else "http-table-refused-by-aiohttp")
        if real["startsOk"] != rep["startsOk"]:
            res.diverge(f"http: aiohttp {'accepts' if real['startsOk'] else 'refuses'} the route table, model says startsOk={rep['startsOk']}", c)
            continue
        if not real["startsOk"]:
            continue
        eps = c["endpoints"]
        for rq, got, mod in zip(c["requests"], real["replies"], rep["replies"]):
            canon = [[e[0], e[1], sorted(e[2])] if e[0] == "effect" else e for e in mod["idx"]]
            res.count("http-" + (got[0][0] if got and got[0][0] == "error" else ("interrupting" if ["interrupt"] in got else "plain")))
            if got != canon:
                res.diverge(f"http request {rq}: impl {got} model {canon}", c)
            # the property, stated directly: effect of exactly one endpoint whose template matches, once; interrupt iff
            # that endpoint is declared interrupting, after the effect and before the reply; otherwise nothing happens
            effs = [e for e in got if e[0] == "effect"]
            ints = [k for k, e in enumerate(got) if e == ["interrupt"]]
            if got and got[0][0] == "error":
                if len(got) != 1:
                    res.violate(V("http-interrupt-wrong", f"{rq}: unmatched request produced {got}", site="HttpIo"), {"http": c})
                continue
            ok = len(effs) == 1 and got[0][0] == "effect" and got[-1] == ["reply", effs[0][1]]
            if ok:
                ep = eps[effs[0][1]]
                ok = (len(ints) == (1 if ep["interrupt"] else 0)) and (not ints or ints == [1]) and len(got) == 2 + len(ints)
            if not ok:
                res.violate(V("http-interrupt-wrong", f"{rq}: happened {got} (endpoints {[(e['method'], e['path'], e['interrupt']) for e in eps]})", site="HttpIo",
                              several_interrupting=sum(1 for e in eps if e['interrupt']) > 1), {"http": c})

def run(tier, seed, drv):
    res = Result()
    rng = random.Random(seed)
    regex_part(random.Random(seed + 5), 300 if tier == "quick" else 4000, drv, res)
    loop = asyncio.new_event_loop()
    asyncio.set_event_loop(loop)
    for si, cmds in enumerate(COMMAND_SETS):
        for fmt in (None, b"<%b>\r\n"):
            if fmt is not None and si > 1:
                continue
            msgs = messages(rng, tier if (si < 2 and fmt is None) else "quick", cmds)
            if not (si < 2 and fmt is None) and tier == "quick":
                msgs = msgs[:257] + msgs[-300:]
            reqs = []
            pre, post = (fmt or b"%b").split(b"%b")
            for data in msgs:
                orc = oracle(cmds, data)
                reqs.append({"op": "command", "data": list(data),
                             "cmds": [{"kind": c[1], "interrupt": c[3], "match": g} for c, g in zip(cmds, orc)],
                             "replies": [[enc_reply(r) for r in c[5]] for c in cmds], "pre": list(pre), "post": list(post)})
            replies = drv.eval(reqs)
            for data, rep in zip(msgs, replies):
                log = []
                adapter = build_adapter(cmds, log, fmt)
                case = {"set": si, "fmt": fmt.decode() if fmt else None, "data": list(data)}
                err = None
                try:
                    loop.run_until_complete(run_real(adapter, cmds, data, log))
                except Exception as e:
                    err = f"{type(e).__name__}:{e}"
                exp = expected_events(cmds, data, fmt)
                matched = exp[0][0] == "invoke"
                res.case((si, fmt, data), nontrivial=len(data) > 0, sample={"data": list(data), "set": si, "impl_events": log[:4]} if matched and len(res.samples) < 3 else None)
                res.count("matched" if matched else "unknown")
                try:
                    data.decode("utf-8")
                except UnicodeDecodeError:
                    res.count("invalid-utf8")
                real = [list(e) for e in log]
                if err is not None:
                    res.violate(V("handler-raised", f"handling {data!r} raised {err}", site=err.split(":")[0], invalid_utf8=True), case)
                    continue
                model = [[e["e"], e["i"], e["args"]] if e["e"] == "invoke" else ([e["e"]] if e["e"] == "interrupt" else [e["e"], e["b"]]) for e in rep["events"]]
                model = [[m[0], m[1], [int(a) if isinstance(a, str) and t is int else a for a, t in zip(m[2], cmds[m[1]][4])]] if m[0] == "invoke" else m for m in model]
                if real != model:
                    res.diverge(f"command dispatch for {data!r}: impl {real[:4]} model {model[:4]}", case)
                if real != [list(e) for e in exp]:
                    res.violate(V("wrong-command-effect", f"{data!r}: events {real[:4]}, the property prescribes {[list(e) for e in exp][:4]}", site="CommandAdapter.handle"), case)
                # decoding + strip of the model vs Python
                try:
                    t = data.decode("utf-8").strip()
                except UnicodeDecodeError:
                    t = None
                if rep["text"] != t:
                    res.diverge(f"decode+strip of {data!r}: python {t!r} model {rep['text']!r}", case)
    # sequences of chunks on one connection, pipelined, with an interrupt that takes time to raise: the
    # effect and interrupt of a chunk come before the effect of the next chunk, and the replies are
    # written once each, in the order of the chunks
    for si, cmds in enumerate(COMMAND_SETS):
        pool = [m for m in messages(random.Random(seed + 11), "quick", cmds) if m != b""]
        hits = [m for m in pool if any(g is not None for g in oracle(cmds, m))]
        for k in range(40 if tier == "quick" else 400):
            chunks = [rng.choice(hits) if hits and rng.random() < 0.8 else rng.choice(pool) for _ in range(rng.randrange(2, 5))]
            lat = rng.choice((0, 1, 3))
            eof_now = k % 2 == 1
            log = []
            adapter = build_adapter(cmds, log, None)
            # every third connection is greeted: what the adapter's on_connect yields is written like any other reply
            # (once, in order, before the replies to the chunks; None = nothing, b"" = an empty message)
            greet = [b"HI", None, b"", b"ready"] if k % 3 == 0 else []
            if greet:
                async def on_connect(greet=greet):
                    for g in greet:
                        yield g
                adapter.on_connect = on_connect
            case = {"set": si, "chunks": [list(c) for c in chunks], "intr_latency": lat, "eof_at_once": eof_now, "greet": [None if g is None else list(g) for g in greet]}
            res.case((si, "seq", tuple(chunks), lat), nontrivial=True)
            res.count("chunk-sequences" + ("-greeted" if greet else ""))
            try:
                loop.run_until_complete(run_real_seq(adapter, chunks, log, lat, eof_at_once=eof_now))
            except Exception as e:
                res.violate(V("handler-raised", f"handling chunks {chunks!r} raised {type(e).__name__}:{e}", site=type(e).__name__), case)
                continue
            exp = [("write", list(g)) for g in greet if g is not None] + [e for c in chunks for e in expected_events(cmds, c, None)]
            real = [tuple(e) if e[0] != "write" else ("write", e[1]) for e in log]
            w_real, w_exp = [e for e in real if e[0] == "write"], [tuple(e) for e in exp if e[0] == "write"]
            x_real, x_exp = [list(e) for e in real if e[0] != "write"], [list(e) for e in exp if e[0] != "write"]
            if [list(e) for e in w_real] != [list(e) for e in w_exp]:
                res.violate(V("replies-not-once-in-order", f"chunks {chunks!r} (interrupt latency {lat}): written {w_real[:6]}, expected {w_exp[:6]}", site="TcpIo.handle"), case)
            elif x_real != x_exp:
                res.violate(V("effects-out-of-order", f"chunks {chunks!r} (interrupt latency {lat}): effects/interrupts {x_real[:8]}, expected {x_exp[:8]}", site="TcpIo.handle"), case)
    # unknown reply has the string type of the message
    try:
        from tickit.adapters.tcp import CommandAdapter

        class _Never:
            interrupt = True

            def parse(self, data):
                return None

        class _A(CommandAdapter):
            async def m(self):
                return None
        _A.m.__command__ = _Never()
        ad = _A()
        for msg in (b"\x00nomatch", "\x00nomatch"):
            async def unk(msg=msg):
                it, intr = await ad.handle(msg)
                return [x async for x in it], intr
            out, intr = loop.run_until_complete(unk())
            res.case(("unknown-type", type(msg).__name__))
            exp = UNKNOWN.encode() if isinstance(msg, bytes) else UNKNOWN
            if out != [exp] or intr:
                res.violate(V("unknown-reply-wrong", f"handle({msg!r}) -> {out}, interrupt={intr}; expected [{exp!r}], False", site="CommandAdapter.handle"), {"unknown": True})
    except Exception as e:
        res.violate(V("handler-raised", f"unknown-reply probe raised {type(e).__name__}:{e}", site=type(e).__name__), {"unknown": True})
    # HTTP: endpoints discovered by the real HttpAdapter.get_endpoints, wrapped by the real
    # HttpIo.create_route_definitions; every route's handler is called directly (aiohttp's own
    # URL matching is a parameter).  Adapters with 0..4 interrupting endpoints out of 1..6.
    try:
        from tickit.adapters.http import HttpAdapter
        from tickit.adapters.io.http_io import HttpIo
        from tickit.adapters.specifications import HttpEndpoint
        shapes = [[False], [True], [True, True], [False, True, True], [True, False, True, True], [True, True, False, True, False, True]]
        rng_h = random.Random(seed + 77)
        for _ in range(6 if tier == "quick" else 40):
            shapes.append([rng_h.random() < 0.6 for _ in range(rng_h.randrange(2, 7))])
        for shape in shapes:
            log = []
            names = [f"ep_{chr(ord('a') + (7 * i + 3) % 26)}{i}" for i in range(len(shape))]   # getmembers order != declaration order
            ns = {}
            for i, (nm, intr) in enumerate(zip(names, shape)):
                def mk(i=i, nm=nm, intr=intr):
                    ctor = (HttpEndpoint.put, HttpEndpoint.get, HttpEndpoint.post)[i % 3]

                    # every other non-interrupting endpoint is declared WITHOUT the interrupt argument (documented default)
                    @ctor(*((f"/{nm}/{{arg}}" if i % 2 else f"/{nm}",) + (() if (not intr and (i // 2) % 2 == 0) else (intr,))))
                    async def method(self, request):
                        log.append(("effect", nm))
                        return f"reply-{nm}"
                    method.__name__ = nm
                    return method
                ns[nm] = mk()
            Adapter = type("GenHttpAdapter", (HttpAdapter,), ns)
            adapter = Adapter()

            async def raise_interrupt():
                log.append(("interrupt",))
            defs = list(HttpIo().create_route_definitions(adapter.get_endpoints(), raise_interrupt))
            res.case(("http", tuple(shape)))
            res.count(f"http-interrupting-endpoints={sum(shape)}")
            by_path = {(d.method, d.path): d for d in defs}
            if len(by_path) != len(shape):
                res.violate(V("http-routes-wrong", f"{len(shape)} endpoints declared, routes {sorted(by_path)}", site="HttpIo"), {"http": shape})
                continue
            # call the routes in several orders, each twice
            order = list(range(len(shape)))
            for rep in range(3):
                rng_h.shuffle(order)
                for i in order + order[:1]:
                    nm, intr = names[i], shape[i]
                    meth = ("PUT", "GET", "POST")[i % 3]
                    path = f"/{nm}/{{arg}}" if i % 2 else f"/{nm}"
                    d = by_path.get((meth, path))
                    if d is None:
                        res.violate(V("http-routes-wrong", f"no route for {meth} {path}: {sorted(by_path)}", site="HttpIo"), {"http": shape})
                        continue
                    del log[:]
                    out = loop.run_until_complete(d.handler(None))
                    exp = [("effect", nm)] + ([("interrupt",)] if intr else [])
                    if log != exp or out != f"reply-{nm}":
                        res.violate(V("http-interrupt-wrong", f"{meth} {path} (interrupt={intr}, {sum(shape)} interrupting endpoints of {len(shape)}): "
                                      f"happened {log} reply {out!r}, expected {exp} reply 'reply-{nm}'", site="HttpIo",
                                      several_interrupting=sum(shape) > 1), {"http": shape})
    except Exception as e:
        res.violate(V("handler-raised", f"http part raised {type(e).__name__}:{e}", site=type(e).__name__), {"http": True})
    # HTTP, whole path against the Lean model (Core/Http, Props/C18Http): generated endpoint tables (literal and
    # {name} segments, GET/PUT/POST/HEAD, interrupting or not, overlapping templates, duplicates) declared on a real
    # HttpAdapter subclass, discovered by get_endpoints, wrapped by HttpIo.create_route_definitions, registered on a
    # real aiohttp Application; each request is resolved by aiohttp's own router and the resolved handler is awaited.
    try:
        http_model_diff(random.Random(seed + 177), 150 if tier == "quick" else 2500, drv, res, loop)
    except Exception as e:
        import traceback
        res.violate(V("handler-raised", f"http model differential raised {type(e).__name__}:{e} {traceback.format_exc()[-300:]}", site=type(e).__name__), {"http": True})
    loop.close()
    asyncio.set_event_loop(None)
    res.exhaustive = True
    res.rule = ("4 generated command sets mixing bytes and text commands (shadowing, catch-alls, captured groups with int/str/bytes conversion, multi-reply "
                "iterators with an empty marker, a custom byte format); messages: the empty message, all 256 one-byte strings, "
                + ("all 65536 two-byte strings" if tier == "thorough" else "1500 random two-byte strings") +
                ", seeds and mutations (invalid/partial UTF-8, Unicode and control whitespace around matches, over-long and partial matches); each through "
                "the TcpIo handle function with fake streams; plus HttpIo's interrupt wrapper for interrupting and non-interrupting endpoints; "
                "non-trivial = non-empty message")
    return res


def replay(payload, drv):
    c = payload["case"]
    if "http" in c:
        return {"violations": []}
    if c.get("parse"):
        r2 = Result()
        parse_vs_fullmatch(c["pattern"], [c["input"]], r2)
        return {"violations": [v["record"] for v in r2.violations]}
    cmds = COMMAND_SETS[c["set"]]
    if "chunks" in c:
        chunks = [bytes(x) for x in c["chunks"]]
        log = []
        loop = asyncio.new_event_loop()
        err = None
        greet = [None if g is None else bytes(g) for g in c.get("greet", [])]
        ad = build_adapter(cmds, log, None)
        if greet:
            async def on_connect(greet=greet):
                for g in greet:
                    yield g
            ad.on_connect = on_connect
        try:
            loop.run_until_complete(run_real_seq(ad, chunks, log, c["intr_latency"], eof_at_once=c.get("eof_at_once", False)))
        except Exception as e:
            err = f"{type(e).__name__}:{e}"
        loop.close()
        exp = [["write", list(g)] for g in greet if g is not None] + [list(e) for ch in chunks for e in expected_events(cmds, ch, None)]
        real = [list(e) for e in log]
        vs = []
        if err:
            vs.append(V("handler-raised", err))
        elif [e for e in real if e[0] == "write"] != [e for e in exp if e[0] == "write"]:
            vs.append(V("replies-not-once-in-order", f"{real} vs {exp}"))
        elif [e for e in real if e[0] != "write"] != [e for e in exp if e[0] != "write"]:
            vs.append(V("effects-out-of-order", f"{real} vs {exp}"))
        return {"impl": real, "expected": exp, "error": err, "violations": vs}
    fmt = c["fmt"].encode() if c["fmt"] else None
    data = bytes(c["data"])
    log = []
    loop = asyncio.new_event_loop()
    err = None
    try:
        loop.run_until_complete(run_real(build_adapter(cmds, log, fmt), cmds, data, log))
    except Exception as e:
        err = f"{type(e).__name__}:{e}"
    loop.close()
    exp = [list(e) for e in expected_events(cmds, data, fmt)]
    vs = []
    if err:
        vs.append(V("handler-raised", err))
    elif [list(e) for e in log] != exp:
        vs.append(V("wrong-command-effect", f"{log} vs {exp}"))
    return {"impl": log, "expected": exp, "error": err, "violations": vs}
