"""C02 — a tick updates exactly the roots and the components whose inputs changed."""
from . import simprop
from .c01 import direct_part
from .base import Result
import random

MODULES = ["TickitModel.Props.C02", 'TickitModel.Props.AnyTransferC02']
THEOREMS = ["input_iff_root_or_changed", "input_changes_exact", "skip_answers_nothing", "untouched_outside_extent",
            "tick_deterministic", "routerOK_of_wf", "changed_iff", "merge_lookup", "onTick_state",
            'any_order_trace_exists', 'any_order_input_iff_root_or_changed', 'any_order_same_dispatch', 'any_order_dispatched_iff', 'any_order_dispatch_time', 'any_order_same_updates']
ANCHORS = ["src/tickit/core/management/ticker.py", "src/tickit/core/management/event_router.py",
           "src/tickit/core/components/device_component.py", "src/tickit/core/management/schedulers/base.py"]
TECHNIQUE = "Lean 4 theorems (tick equations: Input iff root or a wired input changed, Input.changes = exactly the routed values, change detection = differs from previous report; all wirings, roots, answer orders) + trace validation of real Tickers and DeviceComponents against the model"
LEVEL_TEXT = ("Full-strength theorems over the ticker/device model for every wiring with one source per input port, root set, reaction function and "
              "answer order: a dispatched component receives an Input iff it is a root or some wired input port was reported changed earlier in the "
              "tick, otherwise a Skip; the Input carries exactly the routed values; nothing outside the extent is touched; a port is in Output.changes "
              "iff it is reported and absent from or different in the previous report. Tied to ticker.py / device_component.py by the per-Ticker "
              "acceptor (direct driving with all answer orders + whole simulations) and by comparing every Output message with the model's change "
              "detection over histories where ports change, repeat and disappear. FOR ANY ANSWER ORDER AT EVERY NESTING LEVEL (every scheduler level answers its pending dispatches in ANY order, a system component's answer is any such execution of its inner level; Core/SimAny; none of these corollaries assumes that the first-in first-out model succeeds - that follows from the existence of the execution) (Props/AnyTransferC02): on the ticker trace of every level of every execution a component receives an Input iff it is a root or one of its wired ports was reported changed in this tick, a Skip otherwise, nothing if it is not downstream of a root (any_order_input_iff_root_or_changed, any_order_dispatched_iff), and a component at any depth receives an equivalent dispatch in every execution (any_order_same_dispatch, any_order_same_updates).")
LEVEL_ADDENDUM = 'Session 8: interrupts are swept over every loop step of a flat and a nested tick for components that take part in the tick but are passed over (an Input / Skip decision is never revised); one generated scenario in four also runs from a configuration FILE through read_configs / build_simulation (possibly divided over several simulations on one bus) / TickitSimulation.run().'
LEVEL_NOTE = "Trusts: Lean kernel; hand-written ticker/device models (tied by acceptor and differential run); Python dict equality for change detection (values are ints in the runs)."
ASSUMPTIONS = ["each input port has one source", "device outputs are mappings with hashable values compared by =="]
MON = ("ticker", "change_detection", "device_order", "system_output", "input_invokes")
CORR = ("ticker", "sim")


def midtick_part(tier, res, drv):
    """interrupts that land in the MIDDLE of a tick (flat and nested), at every loop step of it, for components that
    TAKE PART in the tick but whose inputs do not change in it - they are passed over by this tick (Skip) whatever else
    happens, and a Skip / Input decision is never revised: `late` waits behind a slow branch whose last device reports an
    unchanged value, `after` follows it, `quiet` is not in the tick at all"""
    import copy
    import monitors
    from sim import run_scenario
    from . import simcommon as SC
    from .c07 import dev
    P = 10_000_000

    def const(n, ins, cost):
        d = dev(n, ins, cost=cost)
        d["beh"]["outs"] = [{"port": "o", "kind": "const", "v": 5}]
        return d
    inner = [dev("pulse", cb={"kind": "period", "p": P}, cost=50_000), dev("s1", {"i": ["pulse", "o"]}, cost=300_000),
             const("s2", {"i": ["s1", "o"]}, 300_000), dev("late", {"i": ["s2", "o"]}, cost=20_000), dev("after", {"i": ["late", "o"]}, cost=20_000),
             dev("quiet", cost=20_000), dev("fast", {"i": ["pulse", "o"]}, cost=20_000)]
    scns = [{"components": copy.deepcopy(inner), "n_ticks": 3},
            {"components": [{"name": "msys", "kind": "sys", "inputs": {}, "expose": {"y": ["after", "o"]}, "components": copy.deepcopy(inner)}, dev("out", {"i": ["msys", "y"]})], "n_ticks": 3}]
    for si, scn in enumerate(scns):
        base = run_scenario(scn, bus="sync")
        mt = monitors.master_tid(base)
        calls = [e for e in base["trace"].of("t-call") if e["tid"] == mt]
        dones = [e for e in base["trace"].of("t-done") if e["tid"] == mt]
        if len(calls) < 2 or len(dones) < 2:
            res.notes.append(f"C02 mid-tick sweep: base run of shape {si} has fewer than 2 master ticks")
            continue
        lo, hi = calls[1]["step"], dones[1]["step"] + 2
        for st in range(lo, hi, 1 if tier == "thorough" or hi - lo < 40 else 2):
            for who in ("late", "after", "quiet"):
                s2 = dict(copy.deepcopy(scn), stims=[{"step": st, "comp": who}], n_ticks=4)
                for b in ("sync", "held"):
                    run_ = run_scenario(s2, bus=b, seed=st)
                    res.case(f"midtick:{si}:{st}:{who}:{b}", nontrivial=bool([e for e in run_["trace"].of("raise") if e.get("ok")]))
                    res.count("mid-tick-interrupt")
                    SC.check_run(s2, run_, drv, res, monitors_on=("ticker", "change_detection", "device_order"), corr=("ticker",), case_extra={"bus": b, "held_seed": st})


def run(tier, seed, drv):
    res = simprop.generic_run(tier, seed, drv, monitors_on=MON, corr=CORR)
    direct_part(tier, random.Random(seed + 1), drv, res)
    midtick_part(tier, res, drv)
    # tickit's own IoBox devices wired into each other (list values travel by reference): what a device "reported at its
    # previous update" must not be altered by anybody downstream
    from sim import run_scenario
    from . import simcommon as SC
    from .c03 import iobox_scenarios
    for scn in iobox_scenarios():
        for b in ("sync", "internal"):
            run_ = run_scenario(scn, bus=b, seed=seed)
            res.case(SC.scn_key(scn) + b, nontrivial=True)
            res.count("iobox-chain")
            SC.check_run(scn, run_, drv, res, monitors_on=("change_detection", "device_order"), corr=(), case_extra={"bus": b, "held_seed": seed})
    return res


def replay(payload, drv):
    if payload["case"].get("direct"):
        from .c01 import replay as r1
        return r1(payload, drv)
    return simprop.generic_replay(payload, drv, monitors_on=MON, corr=CORR)
