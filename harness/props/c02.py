"""C02 — a tick updates exactly the roots and the components whose inputs changed."""
from . import simprop
from .c01 import direct_part
from .base import Result
import random

MODULES = ["TickitModel.Props.C02", 'TickitModel.Props.AnyTransferC02']
THEOREMS = ["input_iff_root_or_changed", "input_changes_exact", "skip_answers_nothing", "untouched_outside_extent",
            "tick_deterministic", "routerOK_of_wf", "changed_iff", "merge_lookup", "onTick_state",
            'any_order_trace_exists', 'any_order_input_iff_root_or_changed', 'any_order_same_dispatch', 'any_order_dispatched_iff', 'any_order_dispatch_time', 'any_order_same_updates']
ANCHORS = ["src/tickit/core/management/ticker.py", "src/tickit/core/management/event_router.py",
           "src/tickit/core/components/device_component.py", "src/tickit/core/management/schedulers/base.py"]
TECHNIQUE = "Lean 4 theorems (tick equations: Input iff root or a wired input changed, Input.changes = exactly the routed values, change detection = differs from previous report; all wirings, roots, answer orders) + trace validation of real Tickers and DeviceComponents against the model"
LEVEL_TEXT = ("Full-strength theorems over the ticker/device model for every wiring with one source per input port, root set, reaction function and "
              "answer order: a dispatched component receives an Input iff it is a root or some wired input port was reported changed earlier in the "
              "tick, otherwise a Skip; the Input carries exactly the routed values; nothing outside the extent is touched; a port is in Output.changes "
              "iff it is reported and absent from or different in the previous report. Tied to ticker.py / device_component.py by the per-Ticker "
              "acceptor (direct driving with all answer orders + whole simulations) and by comparing every Output message with the model's change "
              "detection over histories where ports change, repeat and disappear. FOR ANY ANSWER ORDER AT EVERY NESTING LEVEL (every scheduler level answers its pending dispatches in ANY order, a system component's answer is any such execution of its inner level; Core/SimAny; none of these corollaries assumes that the first-in first-out model succeeds - that follows from the existence of the execution) (Props/AnyTransferC02): on the ticker trace of every level of every execution a component receives an Input iff it is a root or one of its wired ports was reported changed in this tick, a Skip otherwise, nothing if it is not downstream of a root (any_order_input_iff_root_or_changed, any_order_dispatched_iff), and a component at any depth receives an equivalent dispatch in every execution (any_order_same_dispatch, any_order_same_updates).")
LEVEL_NOTE = "Trusts: Lean kernel; hand-written ticker/device models (tied by acceptor and differential run); Python dict equality for change detection (values are ints in the runs)."
ASSUMPTIONS = ["each input port has one source", "device outputs are mappings with hashable values compared by =="]
MON = ("ticker", "change_detection", "device_order", "system_output")
CORR = ("ticker", "sim")


def run(tier, seed, drv):
    res = simprop.generic_run(tier, seed, drv, monitors_on=MON, corr=CORR)
    direct_part(tier, random.Random(seed + 1), drv, res)
    # tickit's own IoBox devices wired into each other (list values travel by reference): what a device "reported at its
    # previous update" must not be altered by anybody downstream
    from sim import run_scenario
    from . import simcommon as SC
    from .c03 import iobox_scenarios
    for scn in iobox_scenarios():
        for b in ("sync", "internal"):
            run_ = run_scenario(scn, bus=b, seed=seed)
            res.case(SC.scn_key(scn) + b, nontrivial=True)
            res.count("iobox-chain")
            SC.check_run(scn, run_, drv, res, monitors_on=("change_detection", "device_order"), corr=(), case_extra={"bus": b, "held_seed": seed})
    return res


def replay(payload, drv):
    if payload["case"].get("direct"):
        from .c01 import replay as r1
        return r1(payload, drv)
    return simprop.generic_replay(payload, drv, monitors_on=MON, corr=CORR)
