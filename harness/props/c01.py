"""C01 — in a tick a component updates only after its in-tick upstreams; at most once."""
import asyncio
import itertools
import random

import model
import monitors
import scenario as S
from sim import run_scenario

from .base import Result, V
from . import simcommon as SC

MODULES = ["TickitModel.Props.C01", "TickitModel.Props.C01Live", "TickitModel.Props.C01NestedAny", 'TickitModel.Props.C01NestedInter']
THEOREMS = ["gate_inv", "pending_iff_flag", "within_extent", "update_after_upstreams", "dispatch_at_most_once",
            "resolved_iff_answered", "init_ok", "step_ok", "progress", "step_measure", "finished_iff",
            "tick_can_complete", "every_step_makes_progress",
            "any_order_update_at_most_once", "any_order_updates_le", "any_order_level_c01", "any_order_update_order", "resolved_wire_feeds", "any_order_update_after_resolved_sources",
            'interleaved_updates_le', 'interleaved_update_order', 'interleaved_update_after_resolved_sources', 'interleaved_update_at_most_once']
ANCHORS = ["src/tickit/core/management/ticker.py", "src/tickit/core/management/event_router.py",
           "src/tickit/core/management/schedulers/base.py", "src/tickit/core/management/schedulers/nested.py"]
TECHNIQUE = "Lean 4 theorems (invariant over every reachable state of the ticker's transition system: gate, dispatch-once, progress on acyclic wirings - all wirings, root sets and answer orders) + trace validation of every real Ticker (directly driven with all answer orders, and inside whole simulations under delaying buses) against the model"
LEVEL_TEXT = ("Full-strength theorems over the ticker model, for every wiring, time, root set, reaction function and every order in which pending "
              "dispatches are answered: a component is dispatched only when no first-order upstream of it is still unresolved (hence after every "
              "participating upstream answered), at most once per tick, only inside the extent, with the tick's time; on acyclic wirings some "
              "dispatch is always pending until the tick finishes (no stall), every pending dispatch is an enabled step resolving exactly one component, and from every reachable state the tick can be completed (tick_can_complete) - it finishes after exactly |extent| answers. The model is tied "
              "to ticker.py by an acceptor: every call/propagate of every real Ticker (driven directly through its public API with all answer "
              "orders on small DAGs, and inside flat and nested simulations under the synchronous bus and a delaying broker-like bus) must "
              "produce exactly the dispatch set the model produces. AT EVERY NESTING DEPTH (Props/C01NestedAny, over the any-order nested tick relation TickLevelAny of Core/SimAny - every level "
              "answers any pending dispatch next, a system component's answer is any execution of its inner level): in every execution no device is updated "
              "twice in a tick (any_order_update_at_most_once), every level's ticker trace satisfies the per-level clauses at every depth (any_order_level_c01), and in the "
              "global order of updates a device is updated only after every device that feeds it through the RESOLVED device-level wiring and is updated in the "
              "same tick (any_order_update_after_resolved_sources) - the composition through system boundaries, proved directly on the relation; the "
              "consequence clause (no mixture of this-tick and previous-tick values) is C03's any_order_run_refines_flatRun. The same for FULLY INTERLEAVED executions in which inner ticks of sibling systems overlap at every depth (Core/SimInter, Props/C01NestedInter: interleaved_updates_le, interleaved_update_order, interleaved_update_after_resolved_sources - proved directly on the small-step relation, also when the feeding and the fed device live in different system simulations whose inner ticks overlapped). A device-level monitor through "
              "the resolved wiring checks the same on every real run.")
LEVEL_ADDENDUM = "Session 8: one generated scenario in four also runs from a configuration FILE through tickit's own loading path (read_configs, InverseWiring.from_component_configs, build_simulation - as one simulation or divided over several that share the bus - and TickitSimulation.run()), with the same acceptor and monitors."
LEVEL_NOTE = "Trusts: Lean kernel; hand-written ticker model (tied by the acceptor); asyncio task FIFO; the harness wraps Ticker.__init__/__call__/propagate at run time for observation."
ASSUMPTIONS = ["components answer only when dispatched to (Input or Skip)", "wirings are acyclic for the progress half"]


# ---- direct driving of the real Ticker through its public API
async def drive_ticker(inv, roots, time, order_chooser, change_table):
    """returns event list [{'e':'call'|'answer', ..., 'ds':[...]}], error"""
    from tickit.core.management.event_router import InverseWiring
    from tickit.core.management.ticker import Ticker
    from tickit.core.typedefs import ComponentPort, Output, Skip, Changes
    from immutables import Map
    pending, log = [], []

    async def upd(inp):
        pending.append(("input", inp.target, inp.time, dict(inp.changes)))

    async def skp(skip):
        pending.append(("skip", skip.source, skip.time, {}))

    iw = InverseWiring({c: {q: ComponentPort(*s) for q, s in ports.items()} for c, ports in inv.items()})
    tk = Ticker(iw, upd, skp)
    seen = []
    call = asyncio.ensure_future(tk(time, set(roots)))
    for _ in range(3):
        await asyncio.sleep(0)
    new = pending[len(seen):]
    seen.extend(new)
    log.append({"e": "call", "t": time, "roots": sorted(roots), "ds": new})
    todo = list(seen)
    err = None
    while todo:
        i = order_chooser(len(todo))
        kind, c, t, ch = todo.pop(i)
        changes = change_table.get(c, {}) if kind == "input" else {}
        msg = Output(c, t, Changes(Map(changes)), None) if kind == "input" else Skip(c, t, Changes(Map()))
        try:
            await tk.propagate(msg)
        except Exception as e:
            err = f"{type(e).__name__}:{e}"
            log.append({"e": "answer", "src": c, "t": t, "ch": sorted(changes.items()), "ds": [], "err": err})
            break
        for _ in range(3):
            await asyncio.sleep(0)
        new = pending[len(seen):]
        seen.extend(new)
        todo.extend(new)
        log.append({"e": "answer", "src": c, "t": t, "ch": sorted(changes.items()), "ds": new})
    finished = call.done()
    if not finished:
        call.cancel()
    return log, err, finished


def direct_monitor(inv, roots, log, finished):
    vs = []
    up, ch = {}, {}
    for b, ports in inv.items():
        for q, s in ports.items():
            up.setdefault(b, set()).add(s[0])
            ch.setdefault(s[0], set()).add(b)
    ext = monitors.reach(ch, roots)
    answered, dispatched = set(), []
    for ev in log:
        if ev["e"] == "answer":
            answered.add(ev["src"])
        for d in ev["ds"]:
            c = d[1]
            if c in dispatched:
                vs.append(V("dispatched-twice", f"{c} dispatched twice", site="Ticker"))
            dispatched.append(c)
            if c not in ext:
                vs.append(V("dispatch-outside-extent", f"{c} not downstream of {sorted(roots)}", site="Ticker"))
            pend = [u for u in up.get(c, ()) if u in ext and u not in answered]
            if pend:
                vs.append(V("updated-before-upstream", f"{c} dispatched before {sorted(pend)} answered", site="Ticker", upstream=sorted(pend)))
    if set(dispatched) != ext:
        vs.append(V("extent-not-covered", f"dispatched {sorted(dispatched)} extent {sorted(ext)}", site="Ticker"))
    if not finished:
        vs.append(V("tick-did-not-finish", f"all of {sorted(answered)} answered but the tick call did not return", site="Ticker"))
    return vs


def all_dags(n, max_ports=1):
    names = [f"n{i}" for i in range(n)]
    pairs = [(i, j) for j in range(n) for i in range(j)]
    for mask in range(1 << len(pairs)):
        inv = {c: {} for c in names}
        for b, (i, j) in enumerate(pairs):
            if mask >> b & 1:
                inv[names[j]][f"i{i}"] = (names[i], "o")
        yield inv


def all_orders_run(inv, roots, change_table, loop, limit=200):
    """DFS over answer orders; yields (log, err, finished)"""
    stack, n = [[]], 0
    while stack and n < limit:
        prefix = stack.pop()
        choices = []

        def chooser(m, prefix=prefix, choices=choices):
            k = len(choices)
            i = prefix[k] if k < len(prefix) else 0
            i = i if i < m else 0
            choices.append((i, m))
            return i
        out = loop.run_until_complete(drive_ticker(inv, roots, 7, chooser, change_table))
        n += 1
        yield out
        for k in range(len(prefix), len(choices)):
            for alt in range(1, choices[k][1]):
                stack.append([c[0] for c in choices[:k]] + [alt])


def direct_part(tier, rng, drv, res):
    loop = asyncio.new_event_loop()
    asyncio.set_event_loop(loop)
    reqs, metas = [], []
    sizes = (2, 3, 4) if tier == "quick" else (2, 3, 4, 5)
    for n in sizes:
        dags = list(all_dags(n))
        if n >= 4 and tier == "quick":
            dags = rng.sample(dags, 24)
        if n >= 5:
            dags = rng.sample(dags, 120)
        for inv in dags:
            names = sorted(inv)
            rootsets = [list(r) for k in range(1, len(names) + 1) for r in itertools.combinations(names, k)]
            if len(rootsets) > 6:
                rootsets = rng.sample(rootsets, 6)
            for roots in rootsets:
                # which outputs change: every component reports o=1, or only some
                for table in ({c: {"o": 1} for c in names}, {c: ({"o": 1} if rng.random() < 0.5 else {}) for c in names}):
                    for log, err, fin in all_orders_run(inv, roots, table, loop, limit=30 if tier == "quick" else 200):
                        reqs.append({"op": "ticker", "inverse": [[c, [[q, list(s)] for q, s in p.items()]] for c, p in inv.items()],
                                     "events": [{"e": e["e"], "t": e["t"], **({"roots": e["roots"]} if e["e"] == "call" else {"src": e["src"], "ch": [list(x) for x in e["ch"]]})} for e in log]})
                        metas.append((inv, roots, table, log, err, fin))
    replies = drv.eval(reqs)
    for (inv, roots, table, log, err, fin), rep in zip(metas, replies):
        case = {"direct": True, "inv": {c: {q: list(s) for q, s in p.items()} for c, p in inv.items()}, "roots": roots, "table": table,
                "order": [e.get("src") for e in log if e["e"] == "answer"]}
        res.case(str(case), nontrivial=len(log) > 2, sample=case)
        res.count("direct-ticker-runs")
        disp = [{"ds": [{"k": d[0], "c": d[1], "t": d[2], **({"ch": model.canon_changes(d[3])} if d[0] == "input" else {})} for d in e["ds"]], "err": e.get("err")} for e in log]
        for d in model.compare_ticker(rep, disp):
            res.diverge("direct ticker: " + d, case)
        res.traces_validated += 1
        for v in direct_monitor(inv, roots, log, fin):
            res.violate(v, case)
    loop.close()
    asyncio.set_event_loop(None)


def sim_part(tier, rng, drv, res, monitors_on=("ticker", "device_order"), corr=("ticker",), seeds_per=2):
    scns = SC.corpus_scenarios() + SC.scenario_family(rng, tier, count=30 if tier == "quick" else 300)
    for i, scn in enumerate(scns):
        SC.stats_into(res, scn)
        for b in ["sync"] + [f"held{j}" for j in range(seeds_per)]:
            run = run_scenario(scn, bus="sync" if b == "sync" else "held", seed=rng.randrange(1 << 30))
            res.case(SC.scn_key(scn) + b, nontrivial=len(run["trace"].of("update")) > len(S.devices(scn)),
                     sample={"scenario": scn, "bus": b, "updates": len(run["trace"].of("update"))} if i < 2 and b == "sync" else None)
            res.count("bus=" + ("sync" if b == "sync" else "held"))
            SC.check_run(scn, run, drv, res, monitors_on=monitors_on, corr=corr, case_extra={"bus": b})
        if i % 4 == 1 and "start_delays" not in scn:
            # the same scenario from a configuration FILE through read_configs / build_simulation / TickitSimulation.run(),
            # as one simulation or divided over several that share the bus
            fs = SC.as_config_file(scn, rng, split=(i % 8 < 4))
            b = rng.choice(("sync", "held", "internal"))
            sd = rng.randrange(1 << 30)
            run = run_scenario(fs, bus=b, seed=sd)
            res.case(SC.scn_key(fs) + f"file:{b}", nontrivial=len(run["trace"].of("update")) > len(S.devices(fs)))
            res.count("from-config-file" + ("-divided" if len(fs["from_file"]) > 1 else ""))
            SC.check_run(fs, run, drv, res, monitors_on=monitors_on, corr=corr, case_extra={"bus": b, "held_seed": sd})


def divided_chain_part(drv, res):
    """fixed shapes from a configuration FILE divided so that every wire crosses the division: a chain (and a chain through a
    system simulation) whose every other component is hosted with the scheduler, the rest by a second simulation on the same
    bus - the scheduler orders updates by the WHOLE configuration's wiring, whoever hosts what"""
    from .c07 import dev
    P = 2_000_000
    chain = [dev("n0", cb={"kind": "period", "p": P}, cost=10_000), dev("n1", {"i": ["n0", "o"]}, cost=200_000), dev("n2", {"i": ["n1", "o"]}, cost=10_000),
             dev("n3", {"i": ["n2", "o"]}, cost=200_000), dev("n4", {"i": ["n3", "o"], "j": ["n0", "o"]}, cost=10_000)]
    through = [dev("m0", cb={"kind": "period", "p": P}, cost=10_000),
               {"name": "msys", "kind": "sys", "inputs": {"x": ["m0", "o"]}, "expose": {"y": ["mi", "o"]}, "components": [dev("mi", {"i": ["external", "x"]}, cost=150_000)]},
               dev("m2", {"i": ["msys", "y"]}, cost=10_000), dev("m3", {"i": ["m2", "o"], "j": ["m0", "o"]}, cost=100_000)]
    for si, comps in enumerate((chain, through)):
        tops = [c["name"] for c in comps]
        for flip in (0, 1):
            a, b = tops[flip::2], tops[1 - flip::2]
            scn = {"components": comps, "t0": 0, "n_ticks": 4, "from_file": [{"scheduler": True, "components": a}, {"scheduler": False, "components": b}]}
            for bus in ("sync", "held", "internal"):
                run = run_scenario(scn, bus=bus, seed=si + flip)
                res.case(f"divided-chain:{si}:{flip}:{bus}", nontrivial=True)
                res.count("from-config-file-divided-chain")
                SC.check_run(scn, run, drv, res, monitors_on=("ticker", "device_order", "initial_tick"), corr=("ticker",), case_extra={"bus": bus, "held_seed": si + flip})


def midtick_part(tier, rng, drv, res):
    """interrupts that land in the MIDDLE of a (nested) tick, at every loop step of it: a quiet device whose dependant is
    also fed by a device that is updated in that tick, while an unrelated slow branch keeps the tick open.  Whatever the
    scheduler does with such an interrupt, within one tick nobody is updated twice or before an upstream that takes part."""
    import copy
    from .c07 import dev
    P = 10_000_000
    inner = [dev("pulse", cb={"kind": "period", "p": P}, cost=50_000), dev("knob", cost=20_000), dev("reader", {"p": ["pulse", "o"], "k": ["knob", "o"]}, cost=20_000),
             dev("s1", {"i": ["pulse", "o"]}, cost=300_000), dev("s2", {"i": ["s1", "o"]}, cost=300_000), dev("tail", {"i": ["reader", "o"]}, cost=20_000)]
    scns = [{"components": [{"name": "msys", "kind": "sys", "inputs": {}, "expose": {"y": ["tail", "o"]}, "components": copy.deepcopy(inner)}, dev("out", {"i": ["msys", "y"]})], "n_ticks": 3},
            {"components": copy.deepcopy(inner), "n_ticks": 3}]
    for si, scn in enumerate(scns):
        base = run_scenario(scn, bus="sync")
        mt = monitors.master_tid(base)
        calls = [e for e in base["trace"].of("t-call") if e["tid"] == mt]
        dones = [e for e in base["trace"].of("t-done") if e["tid"] == mt]
        if len(calls) < 2 or len(dones) < 2:
            continue
        for st in range(calls[1]["step"], dones[1]["step"] + 2, 1 if tier == "thorough" or dones[1]["step"] - calls[1]["step"] < 60 else 2):
            for who in ("knob", "reader"):
                s2 = dict(copy.deepcopy(scn), stims=[{"step": st, "comp": who}], n_ticks=4)
                for b in ("sync", "held"):
                    run_ = run_scenario(s2, bus=b, seed=st)
                    res.case(f"midtick:{si}:{st}:{who}:{b}", nontrivial=bool([e for e in run_["trace"].of("raise") if e.get("ok")]))
                    res.count("mid-tick-interrupt")
                    SC.check_run(s2, run_, drv, res, monitors_on=("ticker", "device_order"), corr=("ticker",), case_extra={"bus": b, "held_seed": st})


def run(tier, seed, drv):
    res = Result()
    rng = random.Random(seed)
    direct_part(tier, rng, drv, res)
    sim_part(tier, rng, drv, res)
    midtick_part(tier, rng, drv, res)
    divided_chain_part(drv, res)
    res.rule = ("(a) the real Ticker driven directly through its public API: all DAGs on 2-3 nodes (sampled on 4-5), up to 6 root sets each, two "
                "output-change tables, answer orders enumerated by DFS (bounded per configuration); (b) generated flat and nested simulations "
                "(depth <= 3) + corpus, each under the synchronous bus and two seeded delaying-bus schedules; every Ticker's call/propagate sequence is "
                "replayed through the Lean model; (c) interrupts injected at every loop step of a nested / flat tick for a quiet device whose dependant is also fed from within the tick. non-trivial = more than one answer (direct) / at least one update beyond the initial tick (simulation)")
    return res


def replay(payload, drv):
    c = payload["case"]
    if c.get("direct"):
        loop = asyncio.new_event_loop()
        order = list(c["order"])
        inv = {a: {q: tuple(s) for q, s in p.items()} for a, p in c["inv"].items()}

        def chooser(m):
            return 0
        log, err, fin = loop.run_until_complete(drive_ticker(inv, c["roots"], 7, chooser, c["table"]))
        loop.close()
        return {"log": log, "err": err, "violations": direct_monitor(inv, c["roots"], log, fin)}
    scn = c["scenario"]
    res = Result()
    run = run_scenario(scn, bus="sync" if c.get("bus", "sync") == "sync" else "held", seed=payload.get("seed", 0))
    SC.check_run(scn, run, drv, res, monitors_on=("ticker", "device_order"), corr=("ticker",))
    return {"violations": [v["record"] for v in res.violations], "divergences": res.divergences[:3]}
