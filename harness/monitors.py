"""Property monitors: direct statements of the properties over traces of the REAL code.
Each returns a list of violation records {"kind", "site", "features", "detail"}.
They are used (a) on every run next to the correspondence check and (b) as the oracle of
the failing-input search when a proof obligation or the correspondence breaks."""
import scenario as S


def V(kind, detail, site=None, **features):
    return {"kind": kind, "site": site, "features": features, "detail": detail}


def run_failures(run):
    """exceptions that escaped tickit tasks / callbacks (never expected in a healthy run)"""
    out = []
    for name, done, exc in run["info"].get("tasks_done", []) or []:
        if exc:
            out.append((name, exc))
    for e in run["trace"].of("callback-error"):
        out.append((f"consumer-{e['cid']}", e["error"]))
    for e in run["trace"].of("t-error"):
        out.append((f"ticker-{e['tid']}", e["error"]))
    return out


def split_ticks(trace, tid):
    """[(call_event, [events of that ticker until t-done], done_event|None)]"""
    ticks, cur = [], None
    for e in trace.events:
        if e.get("tid") != tid:
            continue
        if e["k"] == "t-call":
            cur = [e, [], None]
            ticks.append(cur)
        elif e["k"] == "t-done":
            if cur is not None:
                cur[2] = e
                cur = None
        elif cur is not None:
            cur[1].append(e)
    return ticks


def wiring_graph(wd):
    """children / parents / conns from a logged Wiring dict {a: {p: [[b,q]..]}}"""
    ch, up = {}, {}
    for a, ports in wd.items():
        ch.setdefault(a, set())
        up.setdefault(a, set())
        for p, ins in ports.items():
            for b, q in ins:
                ch[a].add(b)
                up.setdefault(b, set()).add(a)
                ch.setdefault(b, set())
    return ch, up


def reach(ch, roots):
    seen, todo = set(), list(roots)
    while todo:
        x = todo.pop()
        if x in seen:
            continue
        seen.add(x)
        todo.extend(ch.get(x, ()))
    return seen


# ------------------------------------------------------------------ C01 / C02 / C04 (ticker level)
def mon_ticker_level(run):
    """for every Ticker of the run and every tick: ordering (C01), once-only (C01), exactly
    roots + changed (C02), extent only (C02), one time per tick & serialised (C04)."""
    out = []
    tr = run["trace"]
    for new in tr.of("t-new"):
        tid, wd = new["tid"], new["wiring"]
        ch, up = wiring_graph(wd)
        open_tick = None
        for e in tr.events:
            if e.get("tid") != tid:
                continue
            if e["k"] == "t-call":
                if open_tick is not None:
                    out.append(V("tick-started-before-previous-finished", f"ticker {tid}: tick @{e['time']} started while tick @{open_tick['time']} unfinished (unanswered: {sorted(open_tick['extent'] - open_tick['answered'])})", tid=tid))
                open_tick = {"time": e["time"], "roots": set(e["roots"]), "extent": reach(ch, e["roots"]),
                             "answered": set(), "dispatched": {}, "routed": {}}
            elif open_tick is None:
                if e["k"] in ("t-dispatch",):
                    out.append(V("dispatch-outside-tick", f"ticker {tid}: {e}", tid=tid))
                continue
            elif e["k"] == "t-dispatch":
                c, T = e["comp"], open_tick
                if e["time"] != T["time"]:
                    out.append(V("dispatch-wrong-time", f"ticker {tid}: {c} dispatched with time {e['time']} in tick @{T['time']}", tid=tid))
                if c in T["dispatched"]:
                    out.append(V("dispatched-twice", f"ticker {tid} tick @{T['time']}: {c} dispatched twice", tid=tid, comp=c))
                if c not in T["extent"]:
                    out.append(V("dispatch-outside-extent", f"ticker {tid} tick @{T['time']}: {c} is not downstream of roots {sorted(T['roots'])}", tid=tid, comp=c))
                pend = [u for u in up.get(c, ()) if u in T["extent"] and u not in T["answered"]]
                if pend:
                    out.append(V("updated-before-upstream", f"ticker {tid} tick @{T['time']}: {c} dispatched before upstream {sorted(pend)} answered", tid=tid, comp=c, upstream=sorted(pend)))
                want_input = c in T["roots"] or bool(T["routed"].get(c))
                if (e["dk"] == "input") != want_input:
                    out.append(V("input-vs-skip-wrong", f"ticker {tid} tick @{T['time']}: {c} got {e['dk']} but root={c in T['roots']} routed changes={T['routed'].get(c)}", tid=tid, comp=c, got=e["dk"]))
                if e["dk"] == "input" and dict(e["changes"]) != T["routed"].get(c, {}):
                    out.append(V("input-changes-wrong", f"ticker {tid} tick @{T['time']}: {c} given {e['changes']} but routed {T['routed'].get(c, {})}", tid=tid, comp=c))
                T["dispatched"][c] = e["dk"]
            elif e["k"] == "t-answer":
                T = open_tick
                c = e["src"]
                if e["time"] != T["time"]:
                    out.append(V("answer-wrong-time", f"ticker {tid}: answer of {c} stamped {e['time']} in tick @{T['time']}", tid=tid))
                T["answered"].add(c)
                for p, v in e["changes"].items():
                    for b, q in wd.get(c, {}).get(p, []):
                        T["routed"].setdefault(b, {})[q] = v
            elif e["k"] == "t-done":
                T = open_tick
                missing = T["extent"] - T["answered"]
                if missing and not run["info"].get("sched_error"):
                    out.append(V("finished-before-all-answered", f"ticker {tid} tick @{T['time']} finished without answers from {sorted(missing)}", tid=tid))
                open_tick = None
    return out


# ------------------------------------------------------------------ device level
def master_tid(run):
    try:
        return run["info"]["scheduler"].ticker._vid
    except Exception:
        return None


def mon_device_order(scn, run):
    """C01 at device level, through nesting: within one master tick each device is updated
    at most once, and after every device wired into it (resolved wiring) that is also
    updated in that tick."""
    out = []
    tid = master_tid(run)
    if tid is None:
        return out
    res = S.resolve_sources(scn)
    ups = {}
    for (d, q), s in res.items():
        if s is not None:
            ups.setdefault(d, set()).add(s[0])
    tr = run["trace"]
    cur = None
    ticks = []
    for e in tr.events:
        if e["k"] == "t-call" and e.get("tid") == tid:
            cur = {"time": e["time"], "updates": []}
            ticks.append(cur)
        elif e["k"] == "update" and cur is not None:
            cur["updates"].append(e)
    for T in ticks:
        seen = {}
        for i, e in enumerate(T["updates"]):
            c = e["comp"]
            if c in seen:
                out.append(V("device-updated-twice-in-tick", f"{c} updated twice in master tick @{T['time']}", comp=c))
            seen[c] = i
            if e["time"] != T["time"]:
                out.append(V("update-wrong-time", f"{c} updated with time {e['time']} inside master tick @{T['time']}", comp=c))
        for c, i in seen.items():
            for u in ups.get(c, ()):
                if u in seen and seen[u] > i:
                    out.append(V("device-before-upstream", f"master tick @{T['time']}: {c} updated before its upstream {u}", comp=c, upstream=u))
    return out


def mon_inputs_latest(scn, run):
    """C03: at every update the inputs are exactly {q: latest reported value of source(q)}"""
    out = []
    res = S.resolve_sources(scn)
    latest = {}
    for e in run["trace"].of("update"):
        c = e["comp"]
        exp = {}
        for (d, q), s in res.items():
            if d == c and s is not None and s in latest:
                exp[q] = latest[s]
        got = dict(e["inputs"])
        if got != exp:
            extra = {k: v for k, v in got.items() if k not in exp}
            stale = {k: (got.get(k), v) for k, v in exp.items() if got.get(k) != v}
            out.append(V("inputs-not-latest", f"{c} @t={e['time']} update #{e['idx']}: inputs {got} expected {exp}",
                         comp=c, extra=sorted(extra), wrong=sorted(stale)))
        for p, v in (e.get("outs") or {}).items():
            latest[(c, p)] = v
    return out


def _jsonish(x):
    """tuples and lists are the same thing in the logs (values are recorded as deep JSON-shaped copies)"""
    import json
    try:
        return json.loads(json.dumps(x, default=lambda o: list(o) if isinstance(o, (set, frozenset, tuple)) else repr(o)))
    except (TypeError, ValueError):
        return x


def mon_change_detection(run):
    """C02: Output.changes == ports whose value differs from the previous report"""
    out = []
    last, pending = {}, {}
    for e in run["trace"].events:
        if e["k"] == "update" and not e.get("raises"):
            c = e["comp"]
            outs = e.get("outs") or {}
            prev = last.get(c, {})
            pending[c] = {p: v for p, v in outs.items() if p not in prev or prev[p] != v}
            last[c] = outs
        elif e["k"] == "produce" and e["msg"]["m"] == "Output" and e["msg"]["source"] in pending:
            c = e["msg"]["source"]
            exp = pending.pop(c)
            if _jsonish(e["msg"]["changes"]) != _jsonish(exp):
                out.append(V("output-changes-wrong", f"{c}: Output.changes {e['msg']['changes']} expected {exp}", comp=c))
    return out


def mon_initial_tick(scn, run):
    """C05: every device updated exactly once in the initial tick at t0, before any other tick"""
    out = []
    tid = master_tid(run)
    t0 = scn.get("t0", 0)
    devs = [d["name"] for d in S.devices(scn)]
    calls = [e for e in run["trace"].of("t-call") if e["tid"] == tid]
    if not calls:
        out.append(V("no-initial-tick", "the master never started a tick"))
        return out
    second = calls[1]["n"] if len(calls) > 1 else None
    first_updates = {}
    for e in run["trace"].of("update"):
        if second is not None and e["n"] > second:
            break
        first_updates.setdefault(e["comp"], []).append(e)
    for d in devs:
        ups = first_updates.get(d, [])
        if len(ups) != 1:
            out.append(V("initial-tick-incomplete", f"device {d} updated {len(ups)} times in the initial tick (expected once)",
                         comp=d, count=len(ups), depth=S.depth_map(scn).get(d)))
        elif ups[0]["time"] != t0:
            out.append(V("initial-tick-wrong-time", f"device {d} first updated at {ups[0]['time']} not t0={t0}", comp=d))
    return out


def mon_callbacks(scn, run):
    """C06 at device level: a requested callback is served at exactly that time unless the
    device is updated earlier; nothing is served late."""
    out = []
    tid = master_tid(run)
    calls = [e for e in run["trace"].of("t-call") if e["tid"] == tid]
    done = [e for e in run["trace"].of("t-done") if e["tid"] == tid]
    last_done_time = done[-1]["time"] if done else None
    per = {}
    for e in run["trace"].of("update"):
        per.setdefault(e["comp"], []).append(e)
    for c, ups in per.items():
        for i, e in enumerate(ups):
            t = e.get("call_at")
            if t is None or e.get("raises"):
                continue
            if i + 1 < len(ups):
                nxt = ups[i + 1]
                if nxt["time"] > t:
                    out.append(V("callback-missed", f"{c} asked at t={e['time']} to be called at {t} but was next updated at {nxt['time']}", comp=c))
            else:
                # run ended: every completed master tick must be <= t
                later = [x for x in done if x["time"] > t]
                if later:
                    out.append(V("callback-never-served", f"{c} asked to be called at {t}; master went on to tick @{later[0]['time']} without it", comp=c))
    # provenance of master tick times
    t0 = scn.get("t0", 0)
    pend = {}
    interrupts = []
    for e in run["trace"].events:
        if e["k"] == "produce" and e["msg"]["m"] == "Output" and e["topic"].endswith(e["msg"]["source"] + "-out"):
            pass
    return out


def mon_tick_times(scn, run):
    """C04: master tick times never decrease; inner ticks lie inside an outer tick at the
    same time"""
    out = []
    tid = master_tid(run)
    calls = [e for e in run["trace"].of("t-call") if e["tid"] == tid]
    for a, b in zip(calls, calls[1:]):
        if b["time"] < a["time"]:
            out.append(V("time-ran-backwards", f"master tick @{b['time']} after tick @{a['time']}"))
    # nesting
    cur = None
    for e in run["trace"].events:
        if e["k"] == "t-call" and e["tid"] == tid:
            cur = e
        elif e["k"] == "t-done" and e["tid"] == tid:
            cur = None
        elif e["k"] == "t-call" and e["tid"] != tid:
            if cur is None:
                out.append(V("inner-tick-outside-outer", f"inner ticker {e['tid']} tick @{e['time']} started outside any master tick"))
            elif cur["time"] != e["time"]:
                out.append(V("inner-tick-time-differs", f"inner ticker {e['tid']} tick @{e['time']} inside master tick @{cur['time']}"))
        elif e["k"] == "t-done" and e["tid"] != tid and cur is None:
            out.append(V("inner-tick-outside-outer", f"inner ticker {e['tid']} tick @{e['time']} finished outside any master tick"))
    return out


def mon_pacing(scn, run, zero_cost=True):
    """C12: never early; exact when processing is free"""
    out = []
    tid = master_tid(run)
    num, den = scn.get("speed", [1, 1])
    calls = [e for e in run["trace"].of("t-call") if e["tid"] == tid]
    dones = [e for e in run["trace"].of("t-done") if e["tid"] == tid]
    for i in range(1, min(len(calls), len(dones) + 1)):
        prev_done, call = dones[i - 1], calls[i]
        dt_sim = call["time"] - calls[i - 1]["time"]
        elapsed = call["real"] - prev_done["real"]
        # never early: elapsed >= dt_sim / speed  <=> elapsed * num >= dt_sim * den
        if elapsed * num < dt_sim * den:
            out.append(V("tick-started-early", f"tick @{call['time']} started {elapsed}ns after previous tick ended; needs {dt_sim}*{den}/{num}", tick=i))
    return out


ALL_SIM_MONITORS = {
    "ticker": lambda scn, run: mon_ticker_level(run),
    "device_order": mon_device_order,
    "inputs_latest": mon_inputs_latest,
    "change_detection": lambda scn, run: mon_change_detection(run),
    "initial_tick": mon_initial_tick,
    "callbacks": mon_callbacks,
    "tick_times": mon_tick_times,
    "pacing": mon_pacing,
}


def mon_input_invokes_device(scn, run):
    """every Input a scheduler level hands to a device component makes that component invoke its device, once, with the
    time of that Input, before the component's answer is taken; a Skip never does (C02: "a tick invokes every root's
    device and the device of every component whose inputs changed - and nobody else's")"""
    out = []
    tr = run["trace"]
    devs = {d["name"] for d in S.devices(scn)}
    if any(e["comp"] in devs for e in tr.of("probe-raised")) or run["info"].get("sched_error"):
        return out
    by = {}
    for e in tr.events:
        if e["k"] == "t-dispatch" and e["comp"] in devs:
            by.setdefault(e["comp"], []).append(("input" if e["dk"] == "input" else "skip", e["time"]))
        elif e["k"] == "update" and e["comp"] in devs:
            by.setdefault(e["comp"], []).append(("update", e["time"]))
        elif e["k"] == "t-answer" and e["src"] in devs and not e.get("skip"):
            by.setdefault(e["src"], []).append(("answer", e["time"]))
    for d, evs in by.items():
        pending, n_upd, n_ans = [], 0, 0
        for kind, t in evs:
            if kind == "input":
                pending.append(t)
            elif kind == "update":
                n_upd += 1
                if not pending:
                    out.append(V("device-invoked-without-input", f"device {d} was invoked at time {t} although no Input was outstanding for it", comp=d))
                    break
                t0 = pending.pop(0)
                if t0 != t:
                    out.append(V("device-invoked-with-other-time", f"device {d}: Input for time {t0} led to an update stamped {t}", comp=d))
                    break
            elif kind == "answer":
                n_ans += 1
                if n_ans > n_upd:
                    out.append(V("input-did-not-invoke-device", f"device {d} answered its Input #{n_ans} (time {t}) without its device having been invoked for it "
                                 f"({n_upd} invocations so far)", comp=d))
                    break
    return out


ALL_SIM_MONITORS["input_invokes"] = mon_input_invokes_device


# ------------------------------------------------------------------ interrupts (C07)
def mon_interrupts(scn, run):
    """every interrupt raised once the master has begun its initial tick is followed by an
    update of that device that begins after the raise, and all real time elapsed in between
    is accounted for by processing cost (i.e. nobody slept waiting for an unrelated callback)"""
    out = []
    tr = run["trace"]
    tid = master_tid(run)
    first_call = next((e for e in tr.of("t-call") if e["tid"] == tid), None)
    if first_call is None:
        return out
    costs = {d["name"]: d.get("beh", {}).get("cost", 0) for d in S.devices(scn)}
    ups = tr.of("update")
    for R in tr.of("raise"):
        if not R.get("ok") or R["n"] < first_call["n"]:
            continue
        U = next((u for u in ups if u["comp"] == R["comp"] and u["n"] > R["n"]), None)
        where = phase_of(tr, tid, R)
        if U is None:
            out.append(V("interrupt-lost", f"{R['comp']} raised an interrupt at real={R['real']} step={R['step']} ({where}) and was never updated afterwards",
                         comp=R["comp"], phase=where, depth=S.depth_map(scn).get(R["comp"])))
            continue
        # the property's bound: the extra delay is at most the duration of the tick in progress
        # when the interrupt was raised, plus the processing done by the serving tick before it
        # reaches this device
        calls = [e for e in tr.of("t-call") if e["tid"] == tid]
        dones = [e for e in tr.of("t-done") if e["tid"] == tid]
        inprog = 0
        end_n = R["n"]
        for cl in calls:
            dn = next((d for d in dones if d["n"] > cl["n"]), None)
            if cl["n"] < R["n"] and (dn is None or dn["n"] > R["n"]):
                inprog = (dn["real"] if dn else U["real"]) - cl["real"]
                end_n = dn["n"] if dn else R["n"]
        if U["n"] < end_n:
            continue  # served inside the tick in progress
        spent = sum(costs.get(u["comp"], 0) for u in ups if end_n < u["n"] < U["n"])
        elapsed = U["real"] - R["real"]
        if elapsed > spent + inprog + 1:   # + 1 ns: the harness clock has whole nanoseconds and timers are rounded up to it
            out.append(V("interrupt-served-late", f"{R['comp']} raised at real={R['real']} ({where}) served at real={U['real']}: {elapsed}ns later; tick in progress lasted {inprog}ns, serving tick spent {spent}ns before it",
                         comp=R["comp"], phase=where, depth=S.depth_map(scn).get(R["comp"])))
    return out


def phase_of(tr, tid, R):
    """where the master was when event R happened"""
    calls = [e for e in tr.of("t-call") if e["tid"] == tid and e["n"] < R["n"]]
    dones = [e for e in tr.of("t-done") if e["tid"] == tid and e["n"] < R["n"]]
    if len(calls) > len(dones):
        return "initial-tick" if len(calls) == 1 else "mid-tick"
    return "between-ticks"


def mon_interrupt_stamp(scn, run):
    """C12: an interrupt is stamped with the simulation time corresponding to the real time
    at which it arrived (checked for interrupts that arrive between ticks and are served by
    their own tick)"""
    out = []
    tr = run["trace"]
    tid = master_tid(run)
    num, den = scn.get("speed", [1, 1])
    calls = [e for e in tr.of("t-call") if e["tid"] == tid]
    dones = [e for e in tr.of("t-done") if e["tid"] == tid]
    par = S.parent_map(scn)

    def top_of(c):
        while par.get(c, "") != "":
            c = par[c]
        return c
    for R in tr.of("raise"):
        if not R.get("ok"):
            continue
        prev_done = [d for d in dones if d["n"] < R["n"]]
        prev_calls = [c for c in calls if c["n"] < R["n"]]
        if not prev_calls:
            continue
        if len(prev_calls) != len(prev_done):
            # raised while a tick is in progress: stamped relative to that tick's start
            cur = prev_calls[-1]
            exp = cur["time"] + ((R["real"] - cur["real"]) * num) // den
            top = top_of(R["comp"])
            cur_done = next((d for d in dones if d["n"] > cur["n"]), None)
            nxt = next((c for c in calls if c["n"] > R["n"] and top in c["roots"]), None)
            already = any(u["comp"] == R["comp"] and R["n"] < u["n"] < (cur_done["n"] if cur_done else 10**18) for u in tr.of("update"))
            if nxt is not None and not already and nxt["time"] > exp:
                out.append(V("interrupt-stamp-wrong", f"interrupt of {R['comp']} raised mid-tick at real={R['real']} (tick @{cur['time']} started real={cur['real']}, speed {num}/{den}) served by tick @{nxt['time']}, expected @{exp}", comp=R["comp"], phase="mid-tick"))
            continue
        nxt = next((c for c in calls if c["n"] > R["n"]), None)
        if nxt is None or top_of(R["comp"]) not in nxt["roots"]:
            continue
        last_t, last_real = prev_calls[-1]["time"], prev_done[-1]["real"]
        exp = last_t + ((R["real"] - last_real) * num) // den
        if nxt["time"] != exp and nxt["real"] == R["real"]:
            out.append(V("interrupt-stamp-wrong", f"interrupt of {R['comp']} at real={R['real']} (prev tick t={last_t} ended real={last_real}, speed {num}/{den}) served by tick @{nxt['time']}, expected @{exp}", comp=R["comp"]))
    return out


def mon_interrupt_time_served(scn, run):
    """C12: an interrupt raised by a top-level device in the middle of a master tick (tick time t, started at real d) is
    served at a simulation time that corresponds to its arrival: some update of that device after the raise carries a time
    >= t + floor((raise - d) * speed).  (An update inside the tick in progress, at time t, does not serve it unless no real
    time had passed.)  Checked when the run went on for at least one more master tick after the tick in progress."""
    out = []
    tr = run["trace"]
    tid = master_tid(run)
    num, den = scn.get("speed", [1, 1])
    calls = [e for e in tr.of("t-call") if e["tid"] == tid]
    dones = [e for e in tr.of("t-done") if e["tid"] == tid]
    top_devs = {c["name"] for c in scn["components"] if c["kind"] == "dev"}
    quiet = {c["name"]: c.get("beh", {}).get("cb", {}).get("kind", "none") == "none" for c in scn["components"] if c["kind"] == "dev"}
    ups = tr.of("update")
    for R in tr.of("raise"):
        if not R.get("ok") or R["comp"] not in top_devs:
            continue
        prev_calls = [c for c in calls if c["n"] < R["n"]]
        prev_done = [d for d in dones if d["n"] < R["n"]]
        if not prev_calls or len(prev_calls) == len(prev_done):
            continue
        cur = prev_calls[-1]
        later_ticks = [c for c in calls if c["n"] > R["n"]]
        later_done = [d for d in dones if later_ticks and d["n"] > later_ticks[0]["n"]]
        if not later_done:
            continue
        exp = cur["time"] + ((R["real"] - cur["real"]) * num) // den
        cur_done = next((d for d in dones if d["n"] > cur["n"]), None)
        # handled at the latest when the tick in progress ends (callers use the synchronous bus): the stamp lies between the
        # simulation times that correspond to the raise and to the end of that tick
        hi = cur["time"] + -((-(cur_done["real"] - cur["real"]) * num) // den) + 1 if cur_done else None
        if quiet.get(R["comp"]) is not True or hi is None:
            continue   # a device with callbacks of its own may legitimately be served at an earlier, already requested time
        served = [u for u in ups if u["comp"] == R["comp"] and u["n"] > R["n"] and exp - 1 <= u["time"] <= hi]
        if not served:
            seen = [u["time"] for u in ups if u["comp"] == R["comp"] and u["n"] > R["n"]]
            out.append(V("interrupt-stamp-wrong", f"interrupt of {R['comp']} raised mid-tick at real={R['real']} (tick @{cur['time']} started real={cur['real']}, speed {num}/{den}): "
                         f"its arrival corresponds to simulation time {exp} (at most {hi} when it is handled by the end of that tick), the device was afterwards updated only at {seen}", comp=R["comp"], phase="mid-tick-waiting"))
    return out


ALL_SIM_MONITORS["interrupt_time_served"] = mon_interrupt_time_served
ALL_SIM_MONITORS["interrupts"] = mon_interrupts
ALL_SIM_MONITORS["interrupt_stamp"] = mon_interrupt_stamp


# ------------------------------------------------------------------ adapters (C10)
def mon_adapter_notifications(scn, run):
    """each adapter is notified exactly once after each update of its own device (before
    the Output is published) and never for another device's update; EPICS records of a device
    are refreshed exactly once per update of that device"""
    out = []
    tr = run["trace"]
    devs = {d["name"]: d for d in S.devices(scn)}
    n_upd = {}
    for e in tr.of("update"):
        if not e.get("raises"):
            n_upd[e["comp"]] = n_upd.get(e["comp"], 0) + 1
    notes, recs = {}, {}
    for e in tr.of("after_update"):
        notes[(e["comp"], e["adapter"])] = notes.get((e["comp"], e["adapter"]), 0) + 1
    for e in tr.of("record-set"):
        recs[e["comp"]] = recs.get(e["comp"], 0) + 1
    for name, d in devs.items():
        beh = d.get("beh", {})
        for i in range(beh.get("n_adapters", 1)):
            if notes.get((name, i), 0) != n_upd.get(name, 0):
                out.append(V("adapter-notification-count", f"adapter {i} of {name} notified {notes.get((name, i), 0)} times for {n_upd.get(name, 0)} updates", comp=name))
        if beh.get("epics") and recs.get(name, 0) != n_upd.get(name, 0):
            out.append(V("epics-record-refresh-count", f"EPICS record of {name} set {recs.get(name, 0)} times for {n_upd.get(name, 0)} updates of {name}", site="EpicsAdapter.after_update", comp=name))
    # order: update(c) ... after_update(c, *) ... produce Output(c)
    last_update = None
    for e in tr.events:
        if e["k"] == "update":
            last_update = e["comp"]
        elif e["k"] == "after_update" and e["comp"] != last_update:
            out.append(V("adapter-notified-for-other-device", f"adapter of {e['comp']} notified right after an update of {last_update}", comp=e["comp"]))
    return out


ALL_SIM_MONITORS["adapters"] = mon_adapter_notifications


# ------------------------------------------------------------------ tick provenance (C06)
def mon_tick_provenance(scn, run):
    """C06 'never invented / not served again': every master tick after the initial one must be
    asked for by each of its (top-level device) roots: the root's latest answer requested a
    callback at exactly this time, or the root raised an interrupt that has not been served by
    a tick rooted at it since.  (System-component roots are justified by the minimum of their
    inner wakeups, which is checked on the model side.)"""
    out = []
    tr = run["trace"]
    tid = master_tid(run)
    top_devs = {c["name"] for c in scn["components"] if c["kind"] == "dev"}
    calls = [e for e in tr.of("t-call") if e["tid"] == tid]
    ups = tr.of("update")
    raises = [e for e in tr.of("raise") if e.get("ok")]
    last_root_service = {}
    for i, call in enumerate(calls):
        if i == 0:
            for r in call["roots"]:
                last_root_service[r] = call["n"]
            continue
        for r in call["roots"]:
            if r not in top_devs:
                continue
            since = last_root_service.get(r, 0)
            # the pending request of r: the last non-None call_at it returned since it was last served
            # as a root (an answer without call_at does not cancel an earlier request)
            pend = None
            for u in ups:
                if u["comp"] == r and since <= u["n"] < call["n"] and u.get("call_at") is not None:
                    pend = u["call_at"]
            asked = pend == call["time"]
            owed = any(x["comp"] == r and x["n"] > since and x["n"] < call["n"] for x in raises)
            if not asked and not owed:
                out.append(V("tick-not-requested", f"master tick @{call['time']} is rooted at {r}, whose pending callback request is {pend} and which has no unserved interrupt",
                             comp=r))
            last_root_service[r] = call["n"]
    out += tick_time_origin(scn, run)
    return out


def tick_time_origin(scn, run):
    """C06 'never invented', the TIME of a tick: the time of every master tick after the initial one whose roots are
    all top-level devices is a callback time requested by one of its roots, or 'the current simulation time of an
    interrupt' of one of its roots: not before the simulation time that corresponds to the real time at which that
    interrupt was raised, and not after the simulation time that corresponds to the real time at which the tick
    started (real time is converted with the configured speed relative to the tick in progress / the last tick)."""
    out = []
    tr = run["trace"]
    tid = master_tid(run)
    num, den = scn.get("speed", [1, 1])
    t0 = scn.get("t0", 0)
    top_devs = {c["name"] for c in scn["components"] if c["kind"] == "dev"}
    calls = [e for e in tr.of("t-call") if e["tid"] == tid]
    dones = [e for e in tr.of("t-done") if e["tid"] == tid]
    ups = tr.of("update")
    raises = [e for e in tr.of("raise") if e.get("ok")]
    since = {}
    for i, call in enumerate(calls):
        roots = list(call["roots"])
        if i == 0 or not roots or any(r not in top_devs for r in roots):
            for r in roots:
                since[r] = call["n"]
            continue
        ok = False
        why = []
        for r in roots:
            s0 = since.get(r, 0)
            pend = None
            for u in ups:
                if u["comp"] == r and s0 <= u["n"] < call["n"] and u.get("call_at") is not None:
                    pend = u["call_at"]
            if pend == call["time"]:
                ok = True
                break
            for R in raises:
                if R["comp"] != r or not (s0 < R["n"] < call["n"]):
                    continue
                prev = [c for c in calls if c["n"] < R["n"]]
                if not prev:
                    lo = hi = t0   # raised before the first tick: due at the initial time
                else:
                    cur = prev[-1]
                    cur_done = next((d for d in dones if cur["n"] < d["n"] < R["n"]), None)
                    ref = cur_done["real"] if cur_done is not None else cur["real"]
                    lo = cur["time"] + ((R["real"] - ref) * num) // den
                    hi = max(c["time"] + -((-(call["real"] - c["real"]) * num) // den) for c in calls if cur["n"] <= c["n"] < call["n"])
                if lo - 2 <= call["time"] <= hi + 2:
                    ok = True
                    break
                why.append(f"interrupt of {r} raised at real={R['real']}: simulation time then {lo}, at the tick's start at most {hi}")
            if ok:
                break
            why.append(f"{r} asked for {pend}")
        if not ok:
            out.append(V("tick-time-invented", f"master tick @{call['time']} (roots {sorted(roots)}, started real={call['real']}, speed {num}/{den}) is neither a requested "
                         f"callback time nor the current simulation time of an interrupt: " + "; ".join(why)[:400], speed_not_one=num != den))
        for r in roots:
            since[r] = call["n"]
    return out


ALL_SIM_MONITORS["tick_provenance"] = mon_tick_provenance


# ------------------------------------------------------------------ linear law (C12), merging (C06), system outputs (C02)
def mon_linear_law(scn, run):
    """with zero processing cost: simTime - t0 == speed * (real - real_of_initial_tick) at every tick
    (never behind: a tick's simulation time is never below the initial time either)"""
    out = []
    tid = master_tid(run)
    num, den = scn.get("speed", [1, 1])
    t0 = scn.get("t0", 0)
    calls = [e for e in run["trace"].of("t-call") if e["tid"] == tid]
    if not calls:
        return out
    r0 = calls[0]["real"]
    zero_cost = all(d.get("beh", {}).get("cost", 0) == 0 for d in S.devices(scn))
    for c in calls[1:]:
        if c["time"] < t0:
            out.append(V("tick-before-initial-time", f"tick @{c['time']} is before the initial time {t0}"))
        elif zero_cost and not scn.get("step_cost_ns") and abs((c["time"] - t0) * den - (c["real"] - r0) * num) > max(num, den):
            out.append(V("linear-law-broken", f"tick @{c['time']} started at real +{c['real'] - r0}ns: simTime - t0 = {c['time'] - t0}, speed*elapsed = {(c['real'] - r0) * num / den}"))
    return out


def mon_merged(scn, run):
    """C06: components due at the same time share one tick: two consecutive master ticks at the SAME time
    are a violation when the second one's roots had already asked (callback pending or interrupt raised)
    before the first one started"""
    out = []
    tr = run["trace"]
    tid = master_tid(run)
    calls = [e for e in tr.of("t-call") if e["tid"] == tid]
    ups = tr.of("update")
    # an interrupt has "asked" once its message has been handed to the scheduler (under a delaying bus that is later
    # than the moment the component raised it)
    raises = [{"comp": e["msg"]["source"], "n": e["n"]} for e in tr.of("deliver") if e["msg"].get("m") == "Interrupt"]
    top_devs = {c["name"] for c in scn["components"] if c["kind"] == "dev"}
    for a, b in zip(calls, calls[1:]):
        if a["time"] != b["time"] or calls.index(a) == 0:
            continue
        for r in b["roots"]:
            if r not in top_devs or r in a["roots"]:
                continue
            # the callback request of r that is pending when tick `a` starts: its latest answer (before `a`) that asked
            # for one - an answer without a request keeps the older one - unless r has been a root of a tick since
            # (which consumes the request)
            reqs = [u for u in ups if u["comp"] == r and u["n"] < a["n"] and u.get("call_at") is not None]
            asked_cb = bool(reqs) and reqs[-1]["call_at"] == b["time"] and \
                not any(reqs[-1]["n"] < c2["n"] < a["n"] and r in c2["roots"] for c2 in calls)
            asked_int = any(x["comp"] == r and x["n"] < a["n"] for x in raises) and not any(c2["n"] < a["n"] and r in c2["roots"] and c2["n"] > max([x["n"] for x in raises if x["comp"] == r and x["n"] < a["n"]], default=0) for c2 in calls)
            if asked_cb or asked_int:
                out.append(V("same-time-not-merged", f"two master ticks @{a['time']}: roots {a['roots']} then {b['roots']}, although {r} was already due when the first one started", comp=r))
    return out


def mon_system_output(scn, run):
    """C02/C09 at the system boundary: what a system component reports upward in a tick is exactly what its
    `expose` mock component was given in that inner tick (nothing when `expose` was skipped)"""
    out = []
    tr = run["trace"]
    sys_names = {s["name"] for s in S.systems(scn)}
    # inner ticker -> system name: the ticker whose wiring has EXPOSE and whose real components are the system's children
    owner = {}
    for e in tr.of("t-new"):
        comps = set(e["wiring"].keys())
        for s in S.systems(scn):
            kids = {c["name"] for c in s["components"]}
            if kids and kids <= comps and S.EXPOSE in comps | {b for p in e["wiring"].values() for ins in p.values() for b, _ in ins}:
                owner[e["tid"]] = s["name"]
    given = {}
    for e in tr.events:
        if e["k"] == "t-call" and e.get("tid") in owner:
            given[(owner[e["tid"]], e["time"])] = {}
        elif e["k"] == "t-dispatch" and e.get("tid") in owner and e["comp"] == S.EXPOSE and e["dk"] == "input":
            given[(owner[e["tid"]], e["time"])] = dict(e["changes"])
        elif e["k"] == "produce" and e["msg"]["m"] == "Output" and e["msg"]["source"] in sys_names:
            key = (e["msg"]["source"], e["msg"]["time"])
            if key in given and e["msg"]["changes"] != given[key]:
                out.append(V("system-output-not-exposed-changes", f"system {key[0]} @t={key[1]} reported changes {e['msg']['changes']} but its expose was given {given[key]}", comp=key[0]))
    return out


ALL_SIM_MONITORS["linear_law"] = mon_linear_law
ALL_SIM_MONITORS["merged"] = mon_merged
ALL_SIM_MONITORS["system_output"] = mon_system_output
