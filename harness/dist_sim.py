"""A configuration FILE run through tickit's own `build_simulation`, as one simulation and PARTITIONED over several
`TickitSimulation` objects that share the in-process state interface (the scheduler with some of the components here,
the other components there - what `tickit scheduler` / `tickit components NAME...` / the `components_to_run` argument
are for).  Which process hosts a component is not part of the configuration: every device at every depth must see the
same (time, inputs) sequence whatever the partition.

Only shipped classes are used (Source, Sink, IoBox-free), observed by wrapping `Device.update` of the shipped device
classes and `DeviceComponent.__init__` (to learn which component owns which device) at run time.
"""
import asyncio
import contextlib
import os
import tempfile

from buses import reset_internal_bus
from vloop import run_virtual


def entries_basic():
    """the nested.yaml shape with shipped devices: a source, a system with a fed and an unfed inner device and a
    pass-through port, sinks behind it, an isolated sink"""
    src = lambda n, v: {"type": "tickit.devices.source.Source", "name": n, "inputs": {}, "value": v}
    sink = lambda n, c, p: {"type": "tickit.devices.sink.Sink", "name": n, "inputs": {"input": {"component": c, "port": p}} if c else {}}
    return [
        src("src", 42),
        {"type": "tickit.core.components.system_component.SystemSimulation", "name": "sys",
         "inputs": {"x": {"component": "src", "port": "value"}},
         "components": [sink("fed", "external", "x"), src("free", 7),
                        {"type": "tickit.core.components.system_component.SystemSimulation", "name": "deep", "inputs": {},
                         "components": [src("deepsrc", 9), sink("deepsink", "deepsrc", "value")], "expose": {"d": {"component": "deepsrc", "port": "value"}}}],
         "expose": {"y": {"component": "free", "port": "value"}, "z": {"component": "external", "port": "x"}, "w": {"component": "deep", "port": "d"}}},
        sink("sink_y", "sys", "y"), sink("sink_z", "sys", "z"), sink("sink_w", "sys", "w"), sink("direct", "src", "value"), sink("alone", None, None),
    ]


def all_device_names(entries):
    out = []
    for e in entries:
        if "components" in e:
            out += all_device_names(e["components"])
        else:
            out.append(e["name"])
    return out


@contextlib.contextmanager
def observed(log):
    from tickit.core.components.device_component import DeviceComponent
    from tickit.devices.sink import SinkDevice
    from tickit.devices.source import SourceDevice
    saved = [(DeviceComponent, "__init__", DeviceComponent.__init__), (SinkDevice, "update", SinkDevice.update), (SourceDevice, "update", SourceDevice.update)]
    init0 = DeviceComponent.__init__

    def init(self, *a, **kw):
        init0(self, *a, **kw)
        try:
            self.device._vname = self.name
        except Exception:   # noqa: BLE001
            pass

    def wrap(orig):
        def update(self, time, inputs):
            log.append((getattr(self, "_vname", "?"), int(time), {k: inputs[k] for k in sorted(inputs)}))
            return orig(self, time, inputs)
        return update
    DeviceComponent.__init__ = init
    SinkDevice.update = wrap(SinkDevice.update)
    SourceDevice.update = wrap(SourceDevice.update)
    try:
        yield
    finally:
        for cls, name, val in saved:
            setattr(cls, name, val)


def run_partition(entries, parts, *, steps=400, start_gaps=None):
    """parts: list of dicts {"scheduler": bool, "components": None | [names] | "none"} - one TickitSimulation each.
    Returns {"log": [(device, time, inputs)], "errors": [...], "built": [...]}"""
    import yaml
    from tickit.core.simulation import build_simulation
    d = tempfile.mkdtemp(prefix="dist_")
    path = os.path.join(d, "cfg.yaml")
    with open(path, "w") as f:
        yaml.safe_dump(entries, f)
    log, errors, built = [], [], []

    async def main(loop):
        reset_internal_bus()
        sims = []
        for p in parts:
            kw = {"include_schedulers": bool(p.get("scheduler"))}
            if p.get("components") == "none":
                kw["include_components"] = False
            else:
                kw["components_to_run"] = None if p.get("components") is None else set(p["components"])
            sim = build_simulation(path, "internal", **kw)
            sims.append(sim)
            sch = next((v for v in vars(sim).values() if type(v).__name__ == "MasterScheduler"), None)
            cps = next((v for v in vars(sim).values() if isinstance(v, dict) and all(hasattr(x, "run_forever") for x in v.values())), None) or {}
            built.append({"scheduler": sch is not None, "components": sorted(cps.keys())})
        tasks = []
        for i, sim in enumerate(sims):
            for _ in range((start_gaps or [0] * len(sims))[i]):
                await asyncio.sleep(0)
            tasks.append(asyncio.ensure_future(sim.run()))
        # (a run() call of components without adapter tasks returns at once: the components live on as subscribers)
        for _ in range(steps):
            await asyncio.sleep(0)
        for t in tasks:
            if t.done() and not t.cancelled() and t.exception() is not None:
                errors.append(repr(t.exception()))
            t.cancel()
        await asyncio.gather(*tasks, return_exceptions=True)
        return True

    with observed(log):
        res, loop = run_virtual(main, max_steps=50_000)
    reset_internal_bus()
    try:
        os.remove(path)
        os.rmdir(d)
    except OSError:
        pass
    if res[0] != "ok":
        errors.append(f"run: {res[0]} {res[1]!r}")
    return {"log": log, "errors": errors, "built": built}


def per_device(log):
    out = {}
    for n, t, ins in log:
        out.setdefault(n, []).append((t, ins))
    return out


def partitions(entries):
    """the undivided run first, then ways of dividing the same configuration over simulations on one bus"""
    tops = [e["name"] for e in entries]
    half = len(tops) // 2
    return [
        [{"scheduler": True, "components": None}],
        [{"scheduler": True, "components": "none"}, {"scheduler": False, "components": None}],
        [{"scheduler": True, "components": tops[:1]}, {"scheduler": False, "components": tops[1:]}],
        [{"scheduler": True, "components": tops[half:]}, {"scheduler": False, "components": tops[:half]}],
        [{"scheduler": False, "components": tops[:half]}, {"scheduler": True, "components": "none"}, {"scheduler": False, "components": tops[half:]}],
        [{"scheduler": True, "components": [t]} if i == 1 else {"scheduler": False, "components": [t]} for i, t in enumerate(tops)],
    ]
