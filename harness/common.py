"""Shared plumbing: paths, build + audit of the Lean project, the Lean driver, evidence."""
import fcntl
import hashlib
import json
import os
import re
import subprocess
import sys
import time

VERIF = os.path.dirname(os.path.dirname(os.path.abspath(__file__)))
REPO = os.environ.get("TICKIT_REPO", "/repo")
LEAN = os.path.join(VERIF, "lean")
DRIVER = os.path.join(LEAN, ".lake", "build", "bin", "driver")
EVIDENCE = os.environ.get("VERIF_EVIDENCE_DIR") or os.path.join(VERIF, "evidence")
REPLAYS = os.environ.get("VERIF_REPLAYS_DIR") or os.path.join(VERIF, "replays")
LOCKS = os.path.join(VERIF, ".locks")
ALLOWED_AXIOMS = {"propext", "Classical.choice", "Quot.sound"}
FORBIDDEN = re.compile(r"\b(sorry|admit|native_decide|bv_decide|implemented_by)\b|^\s*axiom\s|unsafe\s|maxHeartbeats\s+0")


def seed():
    try:
        return int(os.environ.get("VERIF_SEED", "0"))
    except ValueError:
        return 0


class FileLock:
    def __init__(self, name):
        os.makedirs(LOCKS, exist_ok=True)
        self.path = os.path.join(LOCKS, name)

    def __enter__(self):
        self.f = open(self.path, "w")
        fcntl.flock(self.f, fcntl.LOCK_EX)
        return self

    def __exit__(self, *a):
        fcntl.flock(self.f, fcntl.LOCK_UN)
        self.f.close()


def strip_comments(src: str) -> str:
    # remove /- ... -/ (nested not needed) and -- line comments
    src = re.sub(r"/-.*?-/", "", src, flags=re.S)
    src = re.sub(r"--.*", "", src)
    return src


def gen_constants():
    """Regenerate Gen/Constants.lean from the *behaviour* of /repo's current code."""
    from tickit.utils.topic_naming import input_topic, output_topic
    probe1, probe2 = "\u0001PROBE\u0002", "zz9"
    i1, o1 = input_topic(probe1), output_topic(probe1)
    i2, o2 = input_topic(probe2), output_topic(probe2)

    def split(s, probe):
        k = s.find(probe)
        if k < 0:
            return None
        return s[:k], s[k + len(probe):]

    a, b, c, d = split(i1, probe1), split(o1, probe1), split(i2, probe2), split(o2, probe2)
    problems = []
    if None in (a, b, c, d) or a != c or b != d or a[0] != b[0]:
        problems.append(f"topic naming is not prefix+name+suffix: {i1!r} {o1!r} {i2!r} {o2!r}")
        a = a or ("", i1)
        b = b or ("", o1)
    # the model assumes topic = prefix + name + suffix for EVERY non-empty name: probe tricky names
    for nm in ("a", "a ", " a", "a\n", "\ta", "A", "a-in", "a-out", "tickit-a", "é", "a b", "-", "0"):
        try:
            ti, to = input_topic(nm), output_topic(nm)
        except Exception as e:
            problems.append(f"topic naming rejects the non-empty name {nm!r}: {type(e).__name__}")
            continue
        if a is not None and b is not None and (ti != a[0] + nm + a[1] or to != b[0] + nm + b[1]):
            problems.append(f"topic naming is not prefix+name+suffix for {nm!r}: {ti!r} / {to!r}")
    # pseudo components: observe what NestedScheduler adds to an empty wiring
    pseudo_ext, pseudo_exp = "external", "expose"
    try:
        from tickit.core.management.event_router import InverseWiring
        from tickit.core.management.schedulers.nested import NestedScheduler
        from tickit.core.typedefs import ComponentPort
        w = NestedScheduler.add_exposing_wiring(InverseWiring({"x": {}}), {"p": ComponentPort("x", "o")})
        extra = [k for k in w.keys() if k != "x"]
        cands = [k for k in extra if "p" in w[k]]
        if len(cands) == 1:
            pseudo_exp = cands[0]
        others = [k for k in extra if k != pseudo_exp]
        if len(others) == 1:
            pseudo_ext = others[0]
    except Exception as e:  # pragma: no cover
        problems.append(f"pseudo-component probe failed: {e!r}")
    unknown = "Request does not match any known command"
    try:
        import asyncio
        from tickit.adapters.tcp import CommandAdapter

        class _A(CommandAdapter):
            pass

        async def _probe():
            it, _ = await _A().handle("\u0001nomatch")
            return [x async for x in it]
        res = asyncio.new_event_loop().run_until_complete(_probe())
        if len(res) == 1 and isinstance(res[0], str):
            unknown = res[0]
    except Exception as e:  # pragma: no cover
        problems.append(f"unknown-reply probe failed: {e!r}")

    def lit(s):
        return json.dumps(s, ensure_ascii=True).replace("\\u00", "\\x")

    text = (
        "-- GENERATED from /repo on every check run by harness/common.py:gen_constants — do not edit.\n"
        "namespace Tickit.Gen\n"
        f"def topicPrefix : String := {lit(a[0])}\n"
        f"def inSuffix : String := {lit(a[1])}\n"
        f"def outSuffix : String := {lit(b[1])}\n"
        f"def pseudoExternal : String := {lit(pseudo_ext)}\n"
        f"def pseudoExpose : String := {lit(pseudo_exp)}\n"
        f"def unknownReply : String := {lit(unknown)}\n"
        "end Tickit.Gen\n"
    )
    path = os.path.join(LEAN, "TickitModel", "Gen", "Constants.lean")
    old = open(path).read() if os.path.exists(path) else None
    if old != text:
        with open(path, "w") as f:
            f.write(text)
    return {"changed": old != text, "problems": problems,
            "constants": {"prefix": a[0], "in": a[1], "out": b[1], "external": pseudo_ext,
                          "expose": pseudo_exp, "unknown": unknown}}


def lake(args, timeout=1500):
    return subprocess.run(["lake"] + args, cwd=LEAN, capture_output=True, text=True, timeout=timeout)


def leanchecker(modules, timeout=1200):
    """independent re-check of the compiled .olean files (thorough tier)"""
    with FileLock("lake.lock"):
        r = subprocess.run(["lake", "env", "leanchecker"] + list(modules), cwd=LEAN, capture_output=True, text=True, timeout=timeout)
    return r.returncode, (r.stdout + r.stderr)[-400:]


def build_and_audit(modules, theorems, need_driver=True):
    """Build the given Props modules (and the driver), audit sources and axioms.
    returns dict(ok, obligations, discharged, failures=[...], axioms={thm: [...]}, gen=...)"""
    t0 = time.time()
    out = {"failures": [], "axioms": {}, "obligations": len(theorems), "discharged": 0}
    with FileLock("lake.lock"):
        try:
            out["gen"] = gen_constants()
        except Exception as e:
            out["gen"] = {"changed": False, "problems": [f"gen_constants failed: {e!r}"], "constants": {}}
        for p in out["gen"]["problems"]:
            out["failures"].append({"kind": "gen", "what": p})
        targets = list(modules) + (["driver"] if need_driver else [])
        r = lake(["build"] + targets)
        out["build_rc"] = r.returncode
        if r.returncode != 0:
            msg = (r.stdout + r.stderr)
            errs = [l for l in msg.splitlines() if "error" in l.lower()][:20]
            out["failures"].append({"kind": "build", "what": "lake build failed", "detail": errs})
            # find which modules individually fail
            for m in modules:
                rr = lake(["build", m])
                if rr.returncode != 0:
                    out["failures"].append({"kind": "build-module", "what": m,
                                            "detail": [l for l in (rr.stdout + rr.stderr).splitlines() if "error" in l.lower()][:10]})
            if need_driver and lake(["build", "driver"]).returncode != 0:
                out["failures"].append({"kind": "build-module", "what": "driver"})
        # source audit over the import cone of the property's modules
        bad = []
        cone, todo = set(), list(modules)
        while todo:
            m = todo.pop()
            if m in cone or not m.startswith("TickitModel"):
                continue
            path = os.path.join(LEAN, m.replace(".", "/") + ".lean")
            if not os.path.exists(path):
                continue
            cone.add(m)
            src = strip_comments(open(path).read())
            for ln in src.splitlines():
                mm = re.match(r"\s*import\s+(\S+)", ln)
                if mm:
                    todo.append(mm.group(1))
                if FORBIDDEN.search(ln) and not re.search(r"\bsorry\b", ln):
                    bad.append((os.path.relpath(path, LEAN), ln.strip()[:120]))
        out["source_audit"] = bad
        out["cone"] = sorted(cone)
        for b in bad:
            out["failures"].append({"kind": "source-audit", "what": f"forbidden construct in {b[0]}: {b[1]}"})
        # axioms
        if theorems and r.returncode == 0:
            scratch = os.path.join(LOCKS, f"axioms_{os.getpid()}.lean")
            with open(scratch, "w") as f:
                for m in modules:
                    f.write(f"import {m}\n")
                f.write("open Tickit\n")
                for th in theorems:
                    f.write(f"#print axioms {th}\n")
            rr = subprocess.run(["lake", "env", "lean", scratch], cwd=LEAN, capture_output=True, text=True, timeout=900)
            os.unlink(scratch)
            txt = rr.stdout + rr.stderr
            # parse blocks: "'Tickit.x' depends on axioms: [a, b]" or "does not depend on any axioms"
            for th in theorems:
                m1 = re.search(r"'(?:Tickit\.)?" + re.escape(th) + r"' depends on axioms: \[([^\]]*)\]", txt, flags=re.S)
                m2 = re.search(r"'(?:Tickit\.)?" + re.escape(th) + r"' does not depend on any axioms", txt)
                if m1:
                    axs = [a.strip() for a in m1.group(1).replace("\n", " ").split(",") if a.strip()]
                elif m2:
                    axs = []
                else:
                    out["failures"].append({"kind": "axioms", "what": f"theorem {th} not found / not checked",
                                            "detail": txt[-400:]})
                    continue
                out["axioms"][th] = axs
                extra = [a for a in axs if a not in ALLOWED_AXIOMS]
                src_bad = [b for b in bad]
                if extra:
                    out["failures"].append({"kind": "axioms", "what": f"{th} depends on {extra}"})
                elif "sorryAx" in axs:
                    out["failures"].append({"kind": "axioms", "what": f"{th} uses sorry"})
                else:
                    out["discharged"] += 1
    out["ok"] = not out["failures"]
    out["wall_s"] = round(time.time() - t0, 2)
    return out


class Driver:
    """batch evaluation through the compiled Lean driver"""

    def __init__(self):
        self.path = DRIVER

    def eval(self, requests, timeout=600):
        if not requests:
            return []
        data = "\n".join(json.dumps(r, separators=(",", ":")) for r in requests) + "\n"
        p = subprocess.run([self.path], input=data, capture_output=True, text=True, timeout=timeout)
        if p.returncode != 0:
            raise RuntimeError(f"lean driver failed rc={p.returncode}: {p.stderr[-400:]}")
        lines = p.stdout.split("\n")
        if lines and lines[-1] == "":
            lines.pop()
        if len(lines) != len(requests):
            raise RuntimeError(f"lean driver returned {len(lines)} replies for {len(requests)} requests")
        return [json.loads(l) for l in lines]


def pairs(d):
    """dict -> ordered list of [k, v] pairs (JSON objects lose order in the Lean parser)"""
    return [[k, v] for k, v in d.items()]


def write_evidence(pid, tier, level, coverage, assumptions, wall_s, violations=0):
    os.makedirs(EVIDENCE, exist_ok=True)
    ev = {"property_id": pid, "tier": tier, "seed": seed(), "level": level,
          "coverage": coverage, "assumptions": assumptions, "wall_s": round(wall_s, 2),
          "violations": violations}
    tmp = os.path.join(EVIDENCE, f".{pid}.{os.getpid()}.tmp")
    with open(tmp, "w") as f:
        json.dump(ev, f, indent=1, default=str)
    os.replace(tmp, os.path.join(EVIDENCE, f"{pid}.json"))
    return ev


def write_replay(pid, payload):
    os.makedirs(REPLAYS, exist_ok=True)
    blob = json.dumps(payload, sort_keys=True, default=str)
    h = hashlib.sha1(blob.encode()).hexdigest()[:12]
    path = os.path.join(REPLAYS, f"{pid}-{h}.json")
    with open(path, "w") as f:
        f.write(json.dumps(payload, indent=1, default=str))
    return os.path.relpath(path, VERIF)


def source_fingerprint(files):
    out = {}
    for f in files:
        p = os.path.join(REPO, f)
        try:
            out[f] = hashlib.sha1(open(p, "rb").read()).hexdigest()[:12]
        except OSError:
            out[f] = None
    return out
