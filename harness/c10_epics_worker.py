"""Fresh-interpreter worker for C10: the shipped EpicsIo + EpicsAdapter with the real softioc record
builder (records are built in memory; the IOC itself is never started, so no network).  Sets up the
EPICS adapters of a base configuration alone and of the base plus unconnected EPICS devices, the way
DeviceComponent.run_forever starts adapters, updates every device once, and prints the externally
visible records (name -> value) of every adapter as JSON."""
import asyncio
import json
import os
import sys
import tempfile

spec = json.load(sys.stdin)   # {"runs": {"base": ["alpha"], "ext": ["alpha", "beta", ...]}, "db": {"alpha": true, ...}}
out = {}


async def main():
    from immutables import Map
    from softioc import builder
    import tickit.adapters.epics as epics_module
    from tickit.adapters.epics import EpicsAdapter, InputRecord
    from tickit.adapters.io.epics_io import EpicsIo
    from tickit.core.adapter import AdapterContainer
    from tickit.core.components.device_component import DeviceComponent
    from tickit.core.device import Device, DeviceUpdate
    from tickit.core.state_interfaces.internal import InternalStateConsumer, InternalStateProducer, InternalStateServer
    from tickit.core.typedefs import Changes, Input, SimTime
    ioc_starts = []
    countable = hasattr(epics_module, "_build_and_run_ioc")   # (if the module starts its IOC otherwise, starts cannot be counted here)
    epics_module._build_and_run_ioc = lambda: ioc_starts.append(1)   # the IOC itself is never started (no network); its start is counted

    class Dev(Device):
        def __init__(self, v):
            self.v = v

        def update(self, time, inputs):
            return DeviceUpdate({"value": self.v}, None)

    class Adapter(EpicsAdapter):
        def __init__(self, device):
            super().__init__()
            self.device = device
            self.records = []
            self.notified = 0

        def on_db_load(self):
            rec = builder.aIn("VALUE")
            self.records.append(rec)
            self.link_input_on_interrupt(InputRecord("VALUE", rec.set, rec.get), lambda: self.device.v)

        def after_update(self):
            self.notified += 1
            super().after_update()

    d = tempfile.mkdtemp()
    for run, names in spec["runs"].items():
        sys.path.insert(0, os.path.dirname(os.path.abspath(__file__)))
        from buses import reset_internal_bus
        reset_internal_bus()
        adapters, comps = {}, {}
        for i, n in enumerate(names):
            dev = Dev(1.5 + i)
            ad = Adapter(dev)
            db = None
            if spec.get("db", {}).get(n, True):
                db = os.path.join(d, f"{run}_{n}.db")
                open(db, "w").write("# empty: records are made in on_db_load\n")
            io = EpicsIo(f"{run}_{n.upper()}", db_file=db)
            adapters[n] = ad
            comps[n] = DeviceComponent(name=f"{run}_{n}", device=dev, adapters=[AdapterContainer(ad, io)])
        tasks = [asyncio.create_task(c.run_forever(InternalStateConsumer, InternalStateProducer)) for c in comps.values()]
        await asyncio.wait_for(asyncio.gather(*tasks), timeout=60)
        for c in comps.values():
            await c.handle_input(Input(c.name, SimTime(0), Changes(Map())))
        # a record that is processed calls the adapter's `interrupt`: the io must have given every adapter the
        # raise_interrupt of ITS OWN component (observed as Interrupt messages on the components' output topics)
        from tickit.core.typedefs import Interrupt
        from tickit.utils.topic_naming import output_topic
        seen = []

        async def on_msg(m):
            if isinstance(m, Interrupt):
                seen.append(m.source)
        watcher = InternalStateConsumer(on_msg)
        await watcher.subscribe([output_topic(c.name) for c in comps.values()])
        raised = {}
        for n, a in adapters.items():
            before = len(seen)
            try:
                await a.interrupt()
                raised[n] = [s.replace(f"{run}_", "") for s in seen[before:]]
            except Exception as e:   # noqa: BLE001
                raised[n] = type(e).__name__
        out[run] = {n: {"records": {r.name.replace(f"{run}_", ""): r.get() for r in a.records}, "notified": a.notified, "interrupt": raised[n]}
                    for n, a in adapters.items()}
        out[run]["__ioc_starts__"] = len(ioc_starts) if countable else None
        del ioc_starts[:]
    if spec.get("divided"):
        # the same EPICS devices in a configuration FILE, of which THIS process hosts only `alpha` (the others run elsewhere:
        # `tickit components alpha cfg.yaml`): alpha's records must be served - the process-wide IOC starts once the adapters
        # hosted HERE are ready
        import types
        import yaml
        from tickit.core.simulation import build_simulation
        made = {}
        mod = types.ModuleType("vt_epics_cfg")
        mod.__dict__.update(Dev=Dev, Adapter=Adapter, EpicsIo=EpicsIo, AdapterContainer=AdapterContainer, DeviceComponent=DeviceComponent, made=made)
        sys.modules["vt_epics_cfg"] = mod
        exec("import pydantic.v1.dataclasses\nfrom tickit.core.components.component import Component, ComponentConfig\n\n"
             "@pydantic.v1.dataclasses.dataclass\nclass EpicsDev(ComponentConfig):\n    value: float\n\n"
             "    def __call__(self) -> Component:\n        dev = Dev(self.value)\n        ad = Adapter(dev)\n        made[self.name] = ad\n"
             "        return DeviceComponent(name=self.name, device=dev, adapters=[AdapterContainer(ad, EpicsIo('DIV_' + self.name.upper()))])\n", mod.__dict__)
        path = os.path.join(d, "divided.yaml")
        names = spec["runs"]["ext"]
        with open(path, "w") as f:
            yaml.safe_dump([{"type": "vt_epics_cfg.EpicsDev", "name": n, "inputs": {}, "value": 2.5 + i} for i, n in enumerate(names)], f)
        reset_internal_bus()
        del ioc_starts[:]
        sim = build_simulation(path, "internal", include_schedulers=False, components_to_run={"alpha"})
        await asyncio.wait_for(sim.run(), timeout=60)
        out["divided"] = {"hosted": sorted(made), "__ioc_starts__": len(ioc_starts) if countable else None,
                          "records": {r.name: r.get() for r in made["alpha"].records} if "alpha" in made else None}

try:
    import contextlib
    import io as _io
    with contextlib.redirect_stdout(_io.StringIO()):
        asyncio.run(main())
    res = {"ok": True, "out": out}
except Exception as e:
    import traceback
    res = {"ok": False, "error": traceback.format_exc()[-500:]}
sys.stdout.write(json.dumps(res) + "\n")
sys.stdout.flush()
os._exit(0)
