/-
Line-protocol driver: one JSON request per line on stdin, one JSON reply per line on stdout.
Evaluates the executable model definitions of `TickitModel.Core` so that the Python
harness can compare them with the real implementation on the same inputs.
Imports nothing outside core Lean + `Lean.Data.Json` (so it can be compiled as an exe).
-/
import Lean.Data.Json
import TickitModel.Core.Basic
import TickitModel.Core.Router
import TickitModel.Core.Ticker
import TickitModel.Core.Device
import TickitModel.Core.Sched
import TickitModel.Core.Sim
import TickitModel.Core.SimCost
import TickitModel.Core.Bus
import TickitModel.Core.IoBox
import TickitModel.Core.Command
import TickitModel.Core.Zmq
import TickitModel.Core.Config
import TickitModel.Core.Flatten
import TickitModel.Core.Master
import TickitModel.Core.FailStop
import TickitModel.Core.Contract
import TickitModel.Core.Regex
import TickitModel.Core.NestedInt
import TickitModel.Core.MasterLoop
import TickitModel.Core.Http
import TickitModel.Core.Epics
import TickitModel.Core.StopProtocol
import TickitModel.Core.MsgFlatRun
import TickitModel.Core.RaceRes
import TickitModel.Core.Registry

open Lean Tickit

/-! ## JSON helpers -/

def jstr (j : Json) : String := match j with | .str s => s | _ => ""
def jint (j : Json) : Int := match j.getInt? with | .ok n => n | .error _ => 0
def jnat (j : Json) : Nat := (jint j).toNat
def jbool (j : Json) : Bool := match j with | .bool b => b | _ => false
def jarr (j : Json) : List Json := match j with | .arr a => a.toList | _ => []
def jfield (j : Json) (k : String) : Json := j.getObjValD k
def jopt (j : Json) : Option Json := match j with | .null => none | x => some x
/-- object as ordered item list is not available (RBNode sorts keys): dicts whose order
matters are sent as arrays of [key, value] pairs. -/
def jpairs (j : Json) : List (Json × Json) :=
  (jarr j).filterMap (fun p => match jarr p with | [a, b] => some (a, b) | _ => none)

def jChanges (j : Json) : List (Port × Int) := (jpairs j).map (fun (k, v) => (jstr k, jint v))
def jCPort (j : Json) : CPort := match jarr j with | [a, b] => (jstr a, jstr b) | _ => ("", "")
def jInv (j : Json) : InvWiring :=
  (jpairs j).map (fun (c, ports) => (jstr c, (jpairs ports).map (fun (q, src) => (jstr q, jCPort src))))
def jWiring (j : Json) : Wiring :=
  (jpairs j).map (fun (c, ports) => (jstr c, (jpairs ports).map (fun (p, ins) => (jstr p, (jarr ins).map jCPort))))

def sortStrs (l : List String) : List String := (l.toArray.qsort (· < ·)).toList
def outStrs (l : List String) : Json := Json.arr ((sortStrs l).map Json.str).toArray
def cmpPair (a b : String × Json) : Bool := a.1 < b.1
def outChanges (c : List (Port × Int)) : Json :=
  Json.arr (((c.toArray.qsort (fun a b => a.1 < b.1)).toList.map (fun (k, v) => Json.arr #[Json.str k, toJson v])).toArray)
def cportStr (x : CPort) : String := x.1 ++ ":" ++ x.2
def outConns (w : Wiring) : Json :=
  -- canonical: sorted list of "a:p>b:q"
  outStrs (w.flatMap (fun e => e.2.flatMap (fun pe => pe.2.map (fun bq => e.1 ++ ":" ++ pe.1 ++ ">" ++ cportStr bq))))
def outInvConns (iw : InvWiring) : Json :=
  outStrs (iw.flatMap (fun e => e.2.map (fun pe => cportStr pe.2 ++ ">" ++ e.1 ++ ":" ++ pe.1)))
def outTree (t : List (Comp × List Comp)) : Json :=
  Json.arr (((t.toArray.qsort (fun a b => a.1 < b.1)).toList.map (fun (k, v) => Json.arr #[Json.str k, outStrs v])).toArray)

def tickErrStr : TickErr → String
  | .keyError c => "KeyError:" ++ c
  | .assertSource c => "AssertionError:source:" ++ c
  | .assertTime c => "AssertionError:time:" ++ c

def outDispatch (d : Dispatch Int) : Json := match d with
  | .input c t ch => Json.mkObj [("k", "input"), ("c", c), ("t", toJson t), ("ch", outChanges ch)]
  | .skip c t => Json.mkObj [("k", "skip"), ("c", c), ("t", toJson t)]
def outDispatches (ds : List (Dispatch Int)) : Json :=
  Json.arr ((ds.toArray.qsort (fun a b => a.comp < b.comp)).map outDispatch)

/-! ## ops -/

def opRouter (j : Json) : Json :=
  let w : Wiring := match jopt (jfield j "inverse") with
    | some iw => Wiring.fromInverse (jInv iw)
    | none => jWiring (jfield j "wiring")
  let iw := InvWiring.fromWiring w
  let comps := w.components
  let routes := (jarr (jfield j "routes")).map (fun r =>
    let res := w.route (jstr (jfield r "src")) (jChanges (jfield r "changes"))
    Json.arr (((res.toArray.qsort (fun a b => a.1 < b.1)).toList.map (fun (c, ch) => Json.arr #[Json.str c, outChanges ch])).toArray))
  Json.mkObj [
    ("conns", outConns w), ("keys", outStrs (akeys w)),
    ("inv_conns", outInvConns iw), ("inv_keys", outStrs (akeys iw)),
    ("rt_conns", outConns (Wiring.fromInverse iw)), ("rt_keys", outStrs (akeys (Wiring.fromInverse iw))),
    ("components", outStrs comps),
    ("inputs", outStrs w.inputComponents), ("outputs", outStrs w.outputComponents), ("isolated", outStrs w.isolatedComponents),
    ("tree", outTree w.componentTree), ("inverse_tree", outTree w.inverseTree),
    ("dependants", Json.arr ((sortStrs (comps ++ (jarr (jfield j "extra_roots")).map jstr)).map (fun c => Json.arr #[Json.str c, outStrs (w.dependants c)])).toArray),
    ("routes", Json.arr routes.toArray)]

/-- ticker acceptor: replays `call`/`answer` events, returns per event the dispatch set. -/
def opTicker (j : Json) : Json :=
  let w : Wiring := match jopt (jfield j "inverse") with
    | some iw => Wiring.fromInverse (jInv iw)
    | none => jWiring (jfield j "wiring")
  let evs := jarr (jfield j "events")
  let rec go (evs : List Json) (tk : Option (Ticker Int)) (acc : List Json) : List Json :=
    match evs with
    | [] => acc.reverse
    | e :: rest =>
      match jstr (jfield e "e") with
      | "call" =>
        match (Ticker.call w (jint (jfield e "t")) ((jarr (jfield e "roots")).map jstr) : Except TickErr _) with
        | .ok (tk', ds) => go rest (some tk') (Json.mkObj [("ds", outDispatches ds), ("fin", tk'.finished), ("left", tk'.toUpdate.length)] :: acc)
        | .error er => go rest none (Json.mkObj [("err", tickErrStr er)] :: acc)
      | "answer" =>
        match tk with
        | none => go rest none (Json.mkObj [("err", "no-tick")] :: acc)
        | some t =>
          match t.propagate w (jstr (jfield e "src")) (jint (jfield e "t")) (jChanges (jfield e "ch")) with
          | .ok (tk', ds) => go rest (some tk') (Json.mkObj [("ds", outDispatches ds), ("fin", tk'.finished), ("left", tk'.toUpdate.length)] :: acc)
          | .error er => go rest tk (Json.mkObj [("err", tickErrStr er)] :: acc)
      | _ => go rest tk (Json.mkObj [("err", "bad-event")] :: acc)
  Json.arr (go evs none []).toArray

def jResp (j : Json) : DevResp :=
  { outs := jChanges (jfield j "outs"),
    callAt := (jopt (jfield j "call_at")).map jint,
    raises := jbool (jfield j "raises") }

def simErrStr : SimErr → String
  | .tick l e => "tick:" ++ l ++ ":" ++ tickErrStr e
  | .stall l => "stall:" ++ l
  | .fuel => "fuel"
  | .noOracle c k => s!"no-oracle:{c}:{k}"
  | .deviceRaised c => "raised:" ++ c
  | .noLevel c => "no-level:" ++ c

def outObs (o : Obs) : Json := Json.mkObj [("c", o.comp), ("t", toJson o.time), ("ins", outChanges o.inputs)]
def outTick (t : TickRec) : Json := Json.mkObj [("t", toJson t.time), ("real", toJson t.real), ("roots", outStrs t.roots)]

def opSim (j : Json) : Json :=
  let levels : List Level := (jarr (jfield j "levels")).map (fun l =>
    { name := jstr (jfield l "name"), wiring := Wiring.fromInverse (jInv (jfield l "inverse")) })
  let S : Static := {
    levels := levels,
    systems := (jarr (jfield j "systems")).map jstr,
    parent := (jpairs (jfield j "parent")).map (fun (a, b) => (jstr a, jstr b)) }
  let rfuel := (S.levels.foldl (fun n L => n + L.wiring.components.length) 0) + S.levels.length + 2
  let S : Static := if jbool (jfield j "flatten") then S.flatten rfuel else S
  let orc : Oracle := (jpairs (jfield j "oracle")).map (fun (c, rs) => (jstr c, (jarr rs).map jResp))
  let t0 := jint (jfield j "t0")
  let r0 := jint (jfield j "r0")
  let sp : Speed := ⟨jnat (jfield j "speed_num"), jnat (jfield j "speed_den")⟩
  let stims : List Stim := (jarr (jfield j "stims")).map (fun s => ⟨jint (jfield s "real"), jstr (jfield s "comp")⟩)
  let nTicks := jnat (jfield j "n_ticks")
  let fuel := 64
  -- with "costs": the master loop with processing costs (Core/SimCost: the k-th tick takes costs[k] ns of real time,
  -- stimuli that arrive during a tick are stamped relative to its start)
  match jopt (jfield j "costs") with
  | some cj =>
    let cl := (jarr cj).map jnat
    let cost : Nat → Nat := fun k => cl[k]?.getD 0
    match masterInitialC S orc fuel sp cost t0 r0 stims with
    | .error e => Json.mkObj [("err", simErrStr e), ("ticks", Json.arr #[]), ("obs", Json.arr #[])]
    | .ok (m, tr, rest) =>
      match masterRunC S orc fuel sp cost (4 * nTicks + 4 * stims.length + 8) nTicks m rest [tr] with
      | .error e => Json.mkObj [("err", simErrStr e)]
      | .ok (m', ticks) =>
        Json.mkObj [("ticks", Json.arr (ticks.map outTick).toArray),
                    ("obs", Json.arr (m'.sim.obs.map outObs).toArray),
                    ("wake", outChanges ((m'.sim.sched "").wake))]
  | none =>
  match masterInitial S orc fuel t0 r0 with
  | .error e => Json.mkObj [("err", simErrStr e), ("ticks", Json.arr #[]), ("obs", Json.arr #[])]
  | .ok (m, tr) =>
    match masterRun S orc fuel sp (4 * nTicks + 4 * stims.length + 8) nTicks m stims [tr] with
    | .error e => Json.mkObj [("err", simErrStr e)]
    | .ok (m', ticks) =>
      Json.mkObj [("flat_conns", match S.level "" with | some L => outConns L.wiring | none => Json.null),
                  ("ticks", Json.arr (ticks.map outTick).toArray),
                  ("obs", Json.arr (m'.sim.obs.map outObs).toArray),
                  ("wake", outChanges ((m'.sim.sched "").wake))]

def jBusOp (j : Json) : BusOp :=
  match jstr (jfield j "o") with
  | "sub" => .subscribe (jnat (jfield j "k")) ((jarr (jfield j "topics")).map jstr)
  | _ => .produce (jstr (jfield j "T")) (jint (jfield j "v"))

/-- handler scripts: list of [k, v, [[T, v'], ...]]; anything not listed publishes nothing -/
def opBus (j : Json) : Json :=
  let script : List ((Nat × Int) × List (Topic × Int)) := (jarr (jfield j "handlers")).filterMap (fun r =>
    match jarr r with
    | [k, v, pubs] => some ((jnat k, jint v), (jpairs pubs).map (fun (T, v') => (jstr T, jint v')))
    | _ => none)
  let h : Handler := fun k _ v => ((script.find? (fun e => e.1 == (k, v))).map (·.2)).getD []
  let ops := (jarr (jfield j "ops")).map jBusOp
  let b := ops.foldl (Bus.apply h (jnat (jfield j "fuel"))) {}
  let nCons := jnat (jfield j "n_consumers")
  Json.mkObj [
    ("recv", Json.arr ((List.range nCons).map (fun k =>
      Json.arr ((b.receivedAll k).map (fun (T, v) => Json.arr #[Json.str T, toJson v])).toArray)).toArray),
    ("logs", Json.arr (((b.topics.toArray.qsort (fun a b => a.1 < b.1)).toList.map (fun (T, l) =>
      Json.arr #[Json.str T, toJson l])).toArray))]

def opIoBox (j : Json) : Json :=
  let ops := jarr (jfield j "ops")
  let rec go (ops : List Json) (b : IoBox Int Int) (acc : List Json) : List Json :=
    match ops with
    | [] => acc.reverse
    | o :: rest =>
      match jstr (jfield o "o") with
      | "write" => go rest (b.write (jint (jfield o "a")) (jint (jfield o "v"))) (Json.null :: acc)
      | "read" => go rest b ((match b.read (jint (jfield o "a")) with | some v => toJson v | none => Json.str "KeyError") :: acc)
      | "update" =>
        let ins := (jpairs (jfield o "ins")).map (fun (a, v) => (jint a, jint v))
        let (b', out) := b.update ins
        go rest b' (Json.arr (out.map (fun (a, v) => Json.arr #[toJson a, toJson v])).toArray :: acc)
      | _ => go rest b (Json.str "bad-op" :: acc)
  Json.arr (go ops {} []).toArray

def opWakeups (j : Json) : Json :=
  let ops := jarr (jfield j "ops")
  let rec go (ops : List Json) (w : Wakeups) (acc : List Json) : List Json :=
    match ops with
    | [] => acc.reverse
    | o :: rest =>
      match jstr (jfield o "o") with
      | "add" => go rest (addWakeup w (jstr (jfield o "c")) (jint (jfield o "t"))) (outChanges w :: acc)
      | "first" =>
        let (cs, m) := firstWakeups w
        go rest w (Json.mkObj [("cs", outStrs cs), ("t", match m with | some t => toJson t | none => Json.null)] :: acc)
      | "serve" =>
        let (cs, _) := firstWakeups w
        go rest (delWakeups w cs) (outStrs cs :: acc)
      | "due" => go rest w (outStrs (nestedDue w (jint (jfield o "t"))) :: acc)
      | _ => go rest w (Json.str "bad-op" :: acc)
  Json.arr (go ops [] []).toArray

def opPacing (j : Json) : Json :=
  let sp : Speed := ⟨jnat (jfield j "num"), jnat (jfield j "den")⟩
  let m : MasterSt := { tickerTime := jint (jfield j "ticker_time"), lastReal := jint (jfield j "last"), now := jint (jfield j "now") }
  let whenT := jint (jfield j "when")
  Json.mkObj [("sleep_numer", toJson (sleepNumer whenT m.tickerTime m.now m.lastReal sp)),
              ("due", toJson (dueReal m sp whenT)),
              ("stamp", toJson (interruptStamp m.tickerTime m.now m.lastReal sp))]

/-- command dispatch: per command its kind, interrupt flag and — as the pattern oracle —
whether/what `re.fullmatch` returns on the converted message (supplied by the harness from
Python's `re` directly); the model decides decoding, stripping, selection, events. -/
def opCommand (j : Json) : Json :=
  let data : Bytes := (jarr (jfield j "data")).map (fun b => (jnat b).toUInt8)
  let cmds : List (Cmd (List String)) := (jarr (jfield j "cmds")).map (fun c =>
    let kind := if jstr (jfield c "kind") == "text" then CmdKind.text else CmdKind.bytes
    let groups : Option (List String) := (jopt (jfield c "match")).map (fun g => (jarr g).map jstr)
    -- the oracle says what the pattern does on the converted message (if conversion succeeds)
    { kind := kind, interrupt := jbool (jfield c "interrupt"), matcher := fun _ => groups })
  let conv := match convert .text data with
    | some (.text s) => Json.str (String.ofList s)
    | _ => Json.null
  let replies : Nat → List String → List (Option Bytes) := fun i _ =>
    match (jarr (jfield j "replies"))[i]? with
    | some rs => (jarr rs).map (fun r => (jopt r).map (fun x => (jarr x).map (fun b => (jnat b).toUInt8)))
    | none => []
  let pre : Bytes := (jarr (jfield j "pre")).map (fun b => (jnat b).toUInt8)
  let post : Bytes := (jarr (jfield j "post")).map (fun b => (jnat b).toUInt8)
  let evs := tcpChunk cmds replies pre post data
  Json.mkObj [("text", conv),
    ("events", Json.arr (evs.map (fun e => match e with
      | .invoke i a => Json.mkObj [("e", "invoke"), ("i", toJson i), ("args", toJson a)]
      | .interrupt => Json.mkObj [("e", "interrupt")]
      | .write b => Json.mkObj [("e", "write"), ("b", toJson (b.map (·.toNat)))])).toArray)]

def opZmq (j : Json) : Json :=
  let acts : List ZAct := (jarr (jfield j "acts")).map (fun a =>
    match jstr (jfield a "a") with
    | "enqueue" => ZAct.enqueue (jnat (jfield a "m"))
    | "spawn" => ZAct.spawn ((jarr (jfield a "msgs")).map jnat)
    | "ensure" => ZAct.ensure
    | _ => ZAct.step (jnat (jfield a "i")))
  let z := Zmq.init.run acts
  Json.mkObj [("factory_calls", toJson z.factoryCalls),
              ("writes", Json.arr (z.writes.map (fun (i, m) => Json.arr #[toJson i, toJson m])).toArray),
              ("queue", toJson z.queue)]

def opConfig (j : Json) : Json :=
  let reg : List ClassSig := (jarr (jfield j "registry")).map (fun c => ⟨jstr (jfield c "tag"), (jarr (jfield c "fields")).map jstr⟩)
  let tags := (jarr (jfield j "tags")).map jstr
  let avail := (jarr (jfield j "available")).map jstr
  let req := (jopt (jfield j "requested")).map (fun r => (jarr r).map jstr)
  let cfgs : List (Comp × List (Port × CPort)) := (jpairs (jfield j "configs")).map (fun (c, ports) =>
    (jstr c, (jpairs ports).map (fun (q, src) => (jstr q, jCPort src))))
  let iw := InvWiring.fromConfigs cfgs
  Json.mkObj [("dispatch", Json.arr (tags.map (fun t => match dispatch reg t with | some c => Json.str c.tag | none => Json.null)).toArray),
              ("select", match selectComponents avail req with | some l => outStrs l | none => Json.str "ValueError"),
              ("inv_conns", outInvConns iw), ("inv_keys", outStrs (akeys iw))]

/-- nested interrupt bookkeeping: actions -> queue / roots / told-upward after each action -/
def opNested (j : Json) : Json :=
  let acts := jarr (jfield j "acts")
  let rec go (acts : List Json) (s : NSt) (acc : List Json) : List Json :=
    match acts with
    | [] => acc.reverse
    | a :: rest =>
      let act : NAct := match jstr (jfield a "a") with
        | "interrupt" => .interrupt (jstr (jfield a "c"))
        | "start" => .startTick ((jarr (jfield a "due")).map jstr)
        | "update" => .beginUpdate (jstr (jfield a "c"))
        | _ => .endTick
      match s.step act with
      | none => go rest s (Json.mkObj [("enabled", false)] :: acc)
      | some s' => go rest s' (Json.mkObj [("enabled", true), ("queued", outStrs s'.queued),
          ("roots", match s'.ticking with | some r => outStrs r | none => Json.null), ("up", s'.upOwed), ("owed", outStrs s'.owed)] :: acc)
  Json.arr (go acts {} []).toArray

/-- master bookkeeping: actions -> wakeups after each action (and tick roots for startTick) -/
def opMaster (j : Json) : Json :=
  let acts := jarr (jfield j "acts")
  let rec go (acts : List Json) (s : MSt) (acc : List Json) : List Json :=
    match acts with
    | [] => acc.reverse
    | a :: rest =>
      let act : MAct := match jstr (jfield a "a") with
        | "interrupt" => .interrupt (jstr (jfield a "c")) (jint (jfield a "stamp"))
        | "output" => .output (jstr (jfield a "c")) ((jopt (jfield a "call_at")).map jint)
        | "start" => .startTick
        | "update" => .beginUpdate (jstr (jfield a "c"))
        | _ => .endTick
      match s.step act with
      | none => go rest s (Json.mkObj [("enabled", false), ("wake", outChanges s.wake)] :: acc)
      | some s' =>
        go rest s' (Json.mkObj [("enabled", true), ("wake", outChanges s'.wake), ("pend", outChanges s'.pend),
          ("time", toJson s'.tickerTime),
          ("roots", match s'.ticking with | some r => outStrs r | none => Json.null),
          ("owed", outStrs s'.owed)] :: acc)
  Json.arr (go acts {} []).toArray

/-! ### master run loop (flag protocol): trace acceptor

The observable events of the real `_do_tick` loop are `add_wakeup` calls (component, resulting entry),
tick starts (roots, time) and tick ends.  The hidden moves of the model (`newTaskRuns`, `sleepExpires`,
`step`s that neither enter nor leave a tick) are closed over; the trace is accepted iff after every
observable event at least one model state remains. -/

def loopSameSet (a b : List Comp) : Bool := a.all (b.contains ·) && b.all (a.contains ·)

def loopHidden (fixed : Bool) (s : MLoopSt) : List MLoopSt :=
  let a := [MLoopAct.newTaskRuns, MLoopAct.sleepExpires].filterMap (s.step fixed)
  let b : List MLoopSt := match s.pc with
    | .ticking _ _ => []
    | _ => match s.step fixed .step with
      | some s' => (match s'.pc with | .ticking _ _ => [] | _ => [s'])
      | none => []
  a ++ b

def loopClose (fixed : Bool) : Nat → List MLoopSt → List MLoopSt
  | 0, ss => ss
  | fuel + 1, ss =>
    let next := (ss ++ ss.flatMap (loopHidden fixed)).eraseDups
    if next.length == ss.length then ss else loopClose fixed fuel next

def opMLoop (j : Json) : Json :=
  let fixed := match jfield j "fixed" with | .bool b => b | _ => true
  let evs := jarr (jfield j "events")
  let rec go (evs : List Json) (ss : List MLoopSt) (i : Nat) : Json :=
    let ss := loopClose fixed 64 ss
    match evs with
    | [] => Json.mkObj [("accepted", true), ("states", toJson ss.length), ("dead", toJson (ss.any (fun s => s.pc == .dead)))]
    | e :: rest =>
      let next : List MLoopSt := match jstr (jfield e "e") with
        | "add" => ss.filterMap (fun s => s.step fixed (.addWakeup (jstr (jfield e "c")) (jint (jfield e "t"))))
        | "tick" =>
          let cs := (jarr (jfield e "cs")).map jstr
          let w := jint (jfield e "w")
          ss.filterMap (fun s => match s.pc with
            | .sleptNotResumed _ _ => (match s.step fixed .step with
              | some s' => (match s'.pc with
                | .ticking cs' w' => if loopSameSet cs cs' && w' == w then some s' else none
                | _ => none)
              | none => none)
            | _ => none)
        | "end" => ss.filterMap (fun s => match s.pc with
            | .ticking _ _ => s.step fixed .step
            | _ => none)
        | _ => []
      if next.isEmpty then
        Json.mkObj [("accepted", false), ("at", toJson i), ("states", toJson ss.length),
          ("pcs", Json.arr ((ss.map (fun s => Json.str (reprStr s.pc))).toArray))]
      else go rest next.eraseDups (i + 1)
  go evs [({} : MLoopSt)] 0

instance : Inhabited Tree := ⟨.dev ""⟩

partial def jTree (j : Json) : Tree :=
  match jopt (jfield j "sys") with
  | some n => .sys (jstr n) ((jarr (jfield j "children")).map jTree)
  | none => .dev (jstr (jfield j "dev"))

def opFailStop (j : Json) : Json :=
  let cfg := (jarr (jfield j "tree")).map jTree
  match failIn "" cfg (jstr (jfield j "target")) (jstr (jfield j "error")) with
  | none => Json.null
  | some r => Json.mkObj [("source", r.exc.source), ("error", r.exc.error),
      ("stopped", outStrs r.stopped), ("errored", Json.arr (r.errored.map Json.str).toArray)]

/-- contract bus acceptor: every action of the trace must be enabled; returns the values delivered -/
def opContract (j : Json) : Json :=
  let acts := jarr (jfield j "acts")
  let rec go (acts : List Json) (b : CBus) (i : Nat) : Json :=
    match acts with
    | [] => Json.mkObj [("ok", true), ("delivered", Json.arr (b.delivered.map (fun (k, T, v) => Json.arr #[toJson k, Json.str T, toJson v])).toArray)]
    | a :: rest =>
      let act : CAct := match jstr (jfield a "a") with
        | "produce" => .produce (jstr (jfield a "T")) (jint (jfield a "v"))
        | "subscribe" => .subscribe (jnat (jfield a "k")) (jstr (jfield a "T"))
        | _ => .deliver (jnat (jfield a "k")) (jstr (jfield a "T"))
      match b.step act with
      | none => Json.mkObj [("ok", false), ("at", toJson i)]
      | some b' =>
        -- a delivery must hand over exactly the value the implementation handed over
        match act with
        | .deliver k T =>
          let got := (b'.delivered.getLast?).map (fun e => e.2.2)
          if got == some (jint (jfield a "v")) then go rest b' (i + 1)
          else Json.mkObj [("ok", false), ("at", toJson i), ("model_value", match got with | some v => toJson v | none => Json.null)]
        | _ => go rest b' (i + 1)
  go acts {} 0

/-- regex AST from JSON: {"k":"chr","c":97} | {"k":"cls","r":[[a,b]..],"neg":bool} | {"k":"any"} | {"k":"eps"} |
{"k":"seq","a":..,"b":..} | {"k":"alt","a":..,"b":..} | {"k":"star","a":..} | {"k":"opt","a":..} | {"k":"plus","a":..} -/
instance : Inhabited Regex := ⟨.empty⟩

partial def jRegex (j : Json) : Regex :=
  match jstr (jfield j "k") with
  | "chr" => .chr (Char.ofNat (jnat (jfield j "c")))
  | "cls" => .cls ((jarr (jfield j "r")).map (fun p => match jarr p with
      | [a, b] => (Char.ofNat (jnat a), Char.ofNat (jnat b))
      | _ => ('a', 'a'))) (jbool (jfield j "neg"))
  | "any" => .any
  | "eps" => .eps
  | "seq" => .seq (jRegex (jfield j "a")) (jRegex (jfield j "b"))
  | "alt" => .alt (jRegex (jfield j "a")) (jRegex (jfield j "b"))
  | "star" => .star (jRegex (jfield j "a"))
  | "opt" => Regex.opt (jRegex (jfield j "a"))
  | "plus" => Regex.plus (jRegex (jfield j "a"))
  | _ => .empty

def opRegex (j : Json) : Json :=
  let r := jRegex (jfield j "re")
  Json.arr ((jarr (jfield j "inputs")).map (fun s =>
    Json.bool (r.accepts ((jarr s).map (fun c => Char.ofNat (jnat c))))) ).toArray

/-! ### HTTP endpoints (Core/Http) and EPICS adapter records (Core/Epics) -/

def jSeg (j : Json) : Http.Seg := match jarr j with
  | [k, v] => if jstr k == "var" then .var (jstr v) else .lit (jstr v)
  | _ => .lit ""

def jEndpoint (j : Json) : Http.Endpoint :=
  { path := (jarr (jfield j "path")).map jSeg, method := jstr (jfield j "method"),
    interrupt := jbool (jfield j "interrupt"), handler := jnat (jfield j "handler") }

def outHttpEvent : Http.Event → Json
  | .effect h a => Json.arr #[Json.str "effect", toJson h, Json.arr (a.map (fun (n, v) => Json.arr #[Json.str n, Json.str v])).toArray]
  | .interrupt => Json.arr #[Json.str "interrupt"]
  | .reply h => Json.arr #[Json.str "reply", toJson h]
  | .error st => Json.arr #[Json.str "error", toJson st]

/-- `{"op":"http","endpoints":[...],"requests":[{"method":..,"path":[..]}]}` → per request the event list of the
indexed resolution (what aiohttp does) and of the registration-order resolution, plus `startsOk`. -/
def opHttp (j : Json) : Json :=
  let eps := (jarr (jfield j "endpoints")).map jEndpoint
  let reqs := jarr (jfield j "requests")
  Json.mkObj [
    ("startsOk", Json.bool (Http.startsOk eps)),
    ("replies", Json.arr (reqs.map (fun r =>
      let m := jstr (jfield r "method")
      let p := (jarr (jfield r "path")).map jstr
      Json.mkObj [("idx", Json.arr ((Http.httpRequestIdx eps m p).map outHttpEvent).toArray),
                  ("first", Json.arr ((Http.httpRequest eps m p).map outHttpEvent).toArray)])).toArray)]

def outEpicsEv : Epics.Ev Int → Json
  | .deviceUpdate c => Json.arr #[Json.str "update", Json.str c]
  | .notify a => Json.arr #[Json.str "notify", Json.str a.1, toJson a.2]
  | .recordSet b o r v => Json.arr #[Json.str "set", Json.str b.1, toJson b.2, Json.str o.1, toJson o.2, Json.str r, toJson v]
  | .output c => Json.arr #[Json.str "output", Json.str c]

/-- `{"op":"epics","shared":false,"config":[[name,[[ [record,k,b] ... ] ... ]]],"history":[[c,s]...]}`:
getter of a link = `fun s => k*s + b`. -/
def opEpics (j : Json) : Json :=
  let cfg : Epics.Config Int Int := (jarr (jfield j "config")).map (fun c => match jarr c with
    | [n, ads] => { name := jstr n, adapters := (jarr ads).map (fun a =>
        { links := (jarr a).map (fun l => match jarr l with
            | [r, k, b] => (jstr r, fun (s : Int) => jint k * s + jint b)
            | _ => ("", fun _ => 0)) }) }
    | _ => { name := "", adapters := [] })
  let hist := (jarr (jfield j "history")).map (fun e => match jarr e with | [c, s] => (jstr c, jint s) | _ => ("", 0))
  Json.arr ((Epics.run (jbool (jfield j "shared")) cfg (fun _ => 0) hist).map outEpicsEv).toArray

/-! ### stop protocol (Core/StopProtocol): trace acceptor -/

def jStopAct (j : Json) : Option StopAct :=
  match jarr j with
  | [k] => match jstr k with | "wakeup" => some .wakeup | "loop" => some .loop | _ => none
  | [k, a] => match jstr k with
    | "answer" => some (.answer (jstr a))
    | "fail" => some (.fail (jstr a))
    | "handler" => some (.handler (jnat a))
    | "deliverStop" => some (.deliverStop (jstr a))
    | _ => none
  | [k, a, b] => match jstr k with
    | "sleepExpires" => some (.sleepExpires ((jarr a).map jstr) (jbool b))
    | "produceStop" => some (.produceStop (jnat a) (jstr b))
    | _ => none
  | _ => none

/-- `{"op":"stopproto","comps":[..],"stopOnce":false,"actions":[..]}`: every action must be enabled in turn (strict
execution); reports where the history is rejected, and for an accepted history whether the model's run call has
returned / the run loop is parked waiting for a wakeup that nobody will send. -/
def opStopProto (j : Json) : Json :=
  let cfg : StopCfg := { comps := (jarr (jfield j "comps")).map jstr, stopOnce := jbool (jfield j "stopOnce") }
  let acts := (jarr (jfield j "actions")).map jStopAct
  let rec go (s : StopSt) (as : List (Option StopAct)) (k : Nat) : Json :=
    match as with
    | [] => Json.mkObj [("accepted", Json.bool true), ("returned", Json.bool (decide (s.runReturned cfg))),
                        ("parked", Json.bool (decide (s.pc = .waiting ∧ s.newWakeup = false))),
                        ("error", Json.bool s.error), ("reports", toJson s.reports.length)]
    | none :: _ => Json.mkObj [("accepted", Json.bool false), ("at", toJson k), ("why", Json.str "unknown action")]
    | some a :: rest => match s.step cfg a with
      | some s' => go s' rest (k + 1)
      | none => Json.mkObj [("accepted", Json.bool false), ("at", toJson k), ("why", Json.str "action not enabled")]
  go (StopSt.init cfg) acts 0

/-! ### message-level flat simulation (Core/MsgFlatRun): trace acceptor -/

def jMsgRunAct (j : Json) : Option MsgRunAct :=
  match jarr j with
  | [k] => match jstr k with
    | "startSched" => some (.bus .startSched)
    | "nextTick" => some .nextTick
    | _ => none
  | [k, c] => match jstr k with
    | "startComp" => some (.bus (.startComp (jstr c)))
    | "deliverIn" => some (.bus (.deliverIn (jstr c)))
    | "deliverOut" => some (.bus (.deliverOut (jstr c)))
    | _ => none
  | _ => none

/-- `{"op":"msgrun","inverse":[..],"t0":..,"table":[[k,c,[[port,val]..],call_at|null]..],"actions":[..]}`: the device
of component `c` answers its update in tick `k` (0 = initial tick) with the recorded outputs / call_at (a component is
updated at most once per tick).  Every action must be enabled and must not fail; the reply has the observations and
tick times of the model's run. -/
def opMsgRun (j : Json) : Json :=
  let w := Wiring.fromInverse (jInv (jfield j "inverse"))
  let t0 := jint (jfield j "t0")
  let table : List ((Nat × Comp) × DevOut Int) := (jarr (jfield j "table")).filterMap (fun r =>
    match jarr r with
    | [k, c, outs, ca] => some ((jnat k, jstr c), ⟨jChanges outs, (jopt ca).map jint⟩)
    | _ => none)
  let devs : DevSeq Int := fun k c _ _ =>
    match table.find? (fun e => e.1 == (k, c)) with
    | some e => e.2
    | none => ⟨[], none⟩
  let acts := (jarr (jfield j "actions")).map jMsgRunAct
  let rec go (M : MsgRunSt Int) (as : List (Option MsgRunAct)) (k : Nat) : Json :=
    match as with
    | [] => Json.mkObj [("accepted", Json.bool true),
                        ("obs", Json.arr (M.obs.map (fun o => Json.arr #[Json.str o.1, toJson o.2.1, outChanges o.2.2])).toArray),
                        ("times", toJson M.times.reverse),
                        ("complete", Json.bool (match M.bus.tk with | some tk => tk.toUpdate.isEmpty | none => false)),
                        ("wake", outChanges M.bus.wake)]
    | none :: _ => Json.mkObj [("accepted", Json.bool false), ("at", toJson k), ("why", Json.str "unknown action")]
    | some a :: rest => match M.step w devs t0 a with
      | some (.ok M') => go M' rest (k + 1)
      | some (.error _) => Json.mkObj [("accepted", Json.bool false), ("at", toJson k), ("why", Json.str "the scheduler fails (ticker assertion / KeyError)")]
      | none => Json.mkObj [("accepted", Json.bool false), ("at", toJson k), ("why", Json.str "action not enabled")]
  go (MsgRunSt.initial []) acts 0

/-- TCP io resource model (`Core/RaceRes`, `TcpSt`) as a strict TRACE ACCEPTOR: the observable events of real connections
(connect = first reply task of a connection, chunk, reply task done, end of stream, handler returned) must all be enabled,
in the order observed; after every event the model's live tasks / retained handles are returned for comparison with what
was measured on the real io. -/
def opTcpRes (j : Json) : Json :=
  let fixed := match jfield j "fixed" with | .bool b => b | _ => true
  let rec go (evs : List Json) (s : TcpSt) (i : Nat) (acc : List Json) : Json :=
    match evs with
    | [] => Json.mkObj [("accepted", Json.bool true), ("trace", Json.arr acc.reverse.toArray)]
    | e :: rest =>
      let a : Option TcpAct := match jarr e with
        | [k] => if jstr k == "connect" then some .connect else none
        | [k, n] => (match jstr k with
          | "chunk" => some (.chunk (jnat n))
          | "done" => some (.replyDone (jnat n))
          | "eof" => some (.eof (jnat n))
          | "finish" => some (.finish (jnat n))
          | _ => none)
        | _ => none
      match a with
      | none => Json.mkObj [("accepted", Json.bool false), ("at", toJson i), ("why", Json.str "unknown event")]
      | some a =>
        match s.step fixed a with
        | none => Json.mkObj [("accepted", Json.bool false), ("at", toJson i), ("why", Json.str "event not enabled in the model"),
            ("trace", Json.arr acc.reverse.toArray)]
        | some s' =>
          go rest s' (i + 1) (Json.mkObj [("tasks", toJson s'.tasks), ("retained", toJson s'.retained),
            ("replyLive", toJson s'.replyLive), ("open", toJson s'.openConns)] :: acc)
  go (jarr (jfield j "events")) {} 0 []

/-- the registry of state interfaces (`Core/Registry`): a history of registrations, then queries -/
def opRegistry (j : Json) : Json :=
  let ops := (jarr (jfield j "adds")).map (fun a =>
    (jstr (jfield a "name"), jbool (jfield a "ext"),
      ({ id := jnat (jfield a "id"), hasProduce := jbool (jfield a "produce"), hasSubscribe := jbool (jfield a "subscribe") } : IfaceClass)))
  let r := ({} : Registry).run ops
  Json.mkObj [
    ("all", outStrs (r.interfaces false)), ("external", outStrs (r.interfaces true)), ("warnings", toJson r.warnings),
    ("get", Json.arr (((jarr (jfield j "queries")).map (fun q => match r.get (jstr q) with
      | some (c, p) => Json.arr #[toJson c, toJson p]
      | none => Json.str "KeyError")).toArray))]

def handleLine (line : String) : String :=
  match Json.parse line with
  | .error e => (Json.mkObj [("err", "parse:" ++ e)]).compress
  | .ok j =>
    let r := match jstr (jfield j "op") with
      | "router" => opRouter j
      | "ticker" => opTicker j
      | "sim" => opSim j
      | "bus" => opBus j
      | "iobox" => opIoBox j
      | "wakeups" => opWakeups j
      | "pacing" => opPacing j
      | "command" => opCommand j
      | "zmq" => opZmq j
      | "config" => opConfig j
      | "regex" => opRegex j
      | "nested" => opNested j
      | "master" => opMaster j
      | "mloop" => opMLoop j
      | "failstop" => opFailStop j
      | "contract" => opContract j
      | "msgrun" => opMsgRun j
      | "stopproto" => opStopProto j
      | "http" => opHttp j
      | "epics" => opEpics j
      | "tcpres" => opTcpRes j
      | "registry" => opRegistry j
      | "ping" => Json.str "pong"
      | _ => Json.mkObj [("err", "bad-op")]
    r.compress

partial def loop (h : IO.FS.Stream) (out : IO.FS.Stream) : IO Unit := do
  let line ← h.getLine
  if line.isEmpty then return ()
  out.putStrLn (handleLine line)
  loop h out

def main : IO Unit := do
  let out ← IO.getStdout
  loop (← IO.getStdin) out
  out.flush
