/-
C15 — the in-memory bus delivers per topic, in order, exactly once, with replay;
distinct components never share a topic.
Property theorems only; helper lemmas live in `Lemmas/BusLemmas.lean`.
-/
import TickitModel.Lemmas.BusLemmas

namespace Tickit

/-- **exactly once, in order, with replay, nothing from other topics** — for every history
of subscribe/produce operations, with handlers that publish re-entrantly (to other topics:
`Stratified`), every (consumer, topic) subscribed at most once, and enough fuel for the
re-entrancy depth (`N` bounds the ranks). -/
theorem bus_exactly_once_in_order (h : Handler) (ops : List BusOp) (rank : Topic → Nat) (N : Nat)
    (hN : ∀ T, rank T < N) (hstrat : Stratified h rank) (honce : SubscribeOnce ops)
    (fuel : Nat) (hfuel : 2 * N + 2 ≤ fuel) (k : Cid) (T : Topic) :
    let b := ops.foldl (Bus.apply h fuel) {}
    b.received k T = if k ∈ b.subsOf T then b.log T else [] := by
  -- the invariant holds for every fuel (a fuel cut drops a publication *atomically*), so
  -- the bounds `hN`, `hfuel` are not needed for this direction
  intro b
  exact (fun _ _ => bus_inv_of_history hstrat honce fuel k T) hN hfuel

/-- the topic logs are exactly what was produced (top level and re-entrantly), so with no
handlers publishing the log of `T` is the list of values produced to `T` in order. -/
theorem log_no_handlers (ops : List BusOp) (fuel : Nat) (hfuel : 1 ≤ fuel) (T : Topic) :
    (ops.foldl (Bus.apply (fun _ _ _ => []) fuel) {}).log T =
      ops.filterMap (fun op => match op with
        | .produce T' v => if T' = T then some v else none
        | .subscribe _ _ => none) := by
  obtain ⟨n, rfl⟩ : ∃ n, fuel = n + 1 := ⟨fuel - 1, by omega⟩
  rw [fold_noHandler_log]
  simp only [Bus.log, agetD, alookup, Option.getD_none, List.nil_append]
  rfl

/-- necessity of `SubscribeOnce`: subscribing twice replays the log twice. -/
theorem resubscribe_duplicates :
    let ops := [BusOp.produce "t" 1, .produce "t" 2, .subscribe 0 ["t"], .subscribe 0 ["t"]]
    (ops.foldl (Bus.apply (fun _ _ _ => []) 4) {}).received 0 "t" = [1, 2, 1, 2] := by
  simp [Bus.apply, Bus.subscribe, Bus.replay, Bus.push, Bus.deliverAll, Bus.deliver, Bus.pushAll,
    Bus.received, Bus.subsOf, Bus.log, agetD, alookup, upsert, sinsert]

/-- **distinct components never share an input or output topic**, and no input topic is
an output topic. -/
theorem topic_injective (a b : Comp) (hab : a ≠ b) :
    inputTopic a ≠ inputTopic b ∧ outputTopic a ≠ outputTopic b ∧
    inputTopic a ≠ outputTopic b ∧ outputTopic a ≠ inputTopic b := by
  refine ⟨fun h => hab (topic_cancel _ _ _ _ h), fun h => hab (topic_cancel _ _ _ _ h),
    topic_ne_of_suffix _ _ _ _ _ (by decide) (by decide),
    topic_ne_of_suffix _ _ _ _ _ (by decide) (by decide)⟩

theorem topic_in_ne_out (a b : Comp) : inputTopic a ≠ outputTopic b :=
  topic_ne_of_suffix _ _ _ _ _ (by decide) (by decide)

/-! non-vacuity: a stratified re-entrant history; consumer 0 publishes to `u`, which it ALSO
subscribes to (late, together with `t`, in one subscribe call) -/
def exOps2 : List BusOp :=
  [.produce "t" 1, .produce "t" 2, .subscribe 0 ["t", "u"], .produce "t" 3]

/-! non-vacuity: a stratified re-entrant history -/
def exHandler : Handler := fun k T v => if k = 0 ∧ T = "t" then [("u", v + 10)] else []
def exOps : List BusOp :=
  [.subscribe 0 ["t"], .produce "t" 1, .subscribe 1 ["u"], .produce "t" 2, .subscribe 2 ["t"]]

example : Stratified exHandler (fun T => if T = "u" then 1 else 0) := by
  intro k T v T' v' hmem
  unfold exHandler at hmem
  split at hmem
  · rename_i hc
    obtain ⟨rfl, rfl⟩ := hc
    simp at hmem
    obtain ⟨rfl, _⟩ := hmem
    decide
  · simp at hmem
example : SubscribeOnce exOps := by
  intro (k : Nat)
  unfold subscribedTopics exOps
  simp only [List.flatMap_cons, List.flatMap_nil]
  by_cases h0 : 0 = k <;> by_cases h1 : 1 = k <;> by_cases h2 : 2 = k <;>
    first | omega | simp [h0, h1, h2]

example : SubscribeOnce exOps2 := by
  intro (k : Nat)
  unfold subscribedTopics exOps2
  simp only [List.flatMap_cons, List.flatMap_nil]
  by_cases h0 : 0 = k <;> simp [h0]

/-- the case the per-consumer reading of `Stratified` excluded: consumer 0 forwards `t → u` and
subscribes to both in ONE late call; the replay of `t` publishes 11, 12 to `u` before 0 is a
subscriber of `u`, the replay of `u` then hands them over once, and 13 arrives live. -/
example : (exOps2.foldl (Bus.apply exHandler 6) {}).log "u" = [11, 12, 13] := by
  simp [exOps2, exHandler, Bus.apply, Bus.subscribe, Bus.replay, Bus.push, Bus.deliverAll,
    Bus.deliver, Bus.pushAll, Bus.subsOf, Bus.log, agetD, alookup, upsert, sinsert]
example : (exOps2.foldl (Bus.apply exHandler 6) {}).received 0 "u" = [11, 12, 13] := by
  simp [exOps2, exHandler, Bus.apply, Bus.subscribe, Bus.replay, Bus.push, Bus.deliverAll,
    Bus.deliver, Bus.pushAll, Bus.received, Bus.subsOf, Bus.log, agetD, alookup, upsert, sinsert]
example : (exOps2.foldl (Bus.apply exHandler 6) {}).received 0 "t" = [1, 2, 3] := by
  simp [exOps2, exHandler, Bus.apply, Bus.subscribe, Bus.replay, Bus.push, Bus.deliverAll,
    Bus.deliver, Bus.pushAll, Bus.received, Bus.subsOf, Bus.log, agetD, alookup, upsert, sinsert]

end Tickit

namespace Tickit

/-- **nothing is dropped** (the complement of `bus_exactly_once_in_order`, which holds for any
fuel because starved publications are dropped whole): with fuel covering the re-entrancy depth,
every value produced at top level is in its topic's log, and every publication a handler made
in reaction to a delivery is in its topic's log as well. -/
theorem produced_is_logged (h : Handler) (ops : List BusOp) (fuel : Nat) (hfuel : 1 ≤ fuel) (T : Topic) (v : Int)
    (hp : BusOp.produce T v ∈ ops) : v ∈ (ops.foldl (Bus.apply h fuel) {}).log T := by
  obtain ⟨n, rfl⟩ : ∃ n, fuel = n + 1 := ⟨fuel - 1, by omega⟩
  exact fold_produced_logged n ops {} T v hp

theorem reaction_is_logged (h : Handler) (ops : List BusOp) (rank : Topic → Nat) (N : Nat)
    (hN : ∀ T, rank T < N) (hstrat : Stratified h rank) (honce : SubscribeOnce ops)
    (fuel : Nat) (hfuel : 2 * N + 2 ≤ fuel) (k : Cid) (T : Topic) (v : Int)
    (hd : (k, T, v) ∈ (ops.foldl (Bus.apply h fuel) {}).recv) (T' : Topic) (v' : Int) (hpub : (T', v') ∈ h k T v) :
    v' ∈ (ops.foldl (Bus.apply h fuel) {}).log T' := by
  -- `honce` is not needed for this direction
  exact (fun _ => closed_of_history hstrat hN fuel (by omega) ops (k, T, v) hd (T', v') hpub) honce

end Tickit
