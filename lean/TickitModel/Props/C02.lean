/-
C02 — a tick updates exactly the roots and the components whose inputs changed;
an output port counts as changed exactly when it differs from the previous report.
Property theorems only; helper lemmas live in `Lemmas/TickEqLemmas.lean`.
-/
import TickitModel.Lemmas.TickEqLemmas
import TickitModel.Core.Device
import TickitModel.Props.C16

namespace Tickit

variable {Val : Type}

/-- **who is updated, who is skipped.**  In every run of a tick, a component receives an
`Input` (its device is invoked) iff it is a root or at least one of its wired input ports was
reported changed earlier in this tick; otherwise it receives a `Skip`. -/
theorem input_iff_root_or_changed (w : Wiring) (hw : RouterOK w) (react : React Val) (hr : ReactWF react)
    (t : SimTime) (roots : List Comp) (s : TickSys Val) (hs : s.Reachable w react t roots)
    (pre post : List (Ev Val)) (d : Dispatch Val) (htr : s.trace = pre ++ Ev.dispatch d :: post) :
    (∃ ins, d = .input d.comp t ins) ↔
      (d.comp ∈ roots ∨ ∃ a chs p q v, Ev.answer a chs ∈ pre ∧ w.Conn a p d.comp q ∧ alookup chs p = some v) := by
  have hd := (hs.eqInv hw hr).pre.dec pre d post htr
  rcases hd.spec with ⟨ins, hd', hrc, _⟩ | ⟨hd', hnr, hnc⟩
  · constructor
    · intro _
      rcases hrc with h | ⟨q, v, a, chs, p, h⟩
      · exact Or.inl h
      · exact Or.inr ⟨a, chs, p, q, v, h⟩
    · intro _
      exact ⟨ins, hd'⟩
  · constructor
    · rintro ⟨ins, hi⟩
      cases hi.symm.trans hd'
    · rintro (h | ⟨a, chs, p, q, v, h⟩)
      · exact absurd h hnr
      · exact absurd ⟨a, chs, p, h⟩ (hnc q v)

/-- **what it is given.**  The changes carried by an `Input` are exactly the values routed
from the answers already given in this tick: port `q` carries `v` iff the (unique) output
wired to `q` was reported with value `v`. -/
theorem input_changes_exact (w : Wiring) (hw : RouterOK w) (react : React Val) (hr : ReactWF react)
    (t : SimTime) (roots : List Comp) (s : TickSys Val) (hs : s.Reachable w react t roots)
    (pre post : List (Ev Val)) (c : Comp) (ins : List (Port × Val))
    (htr : s.trace = pre ++ Ev.dispatch (.input c t ins) :: post) (q : Port) (v : Val) :
    alookup ins q = some v ↔
      ∃ a chs p, Ev.answer a chs ∈ pre ∧ w.Conn a p c q ∧ alookup chs p = some v := by
  have hd := (hs.eqInv hw hr).pre.dec pre _ post htr
  rcases hd.spec with ⟨ins', hd', _, hch⟩ | ⟨hd', _⟩
  · simp only [Dispatch.comp, Dispatch.input.injEq, true_and] at hd' hch
    subst hd'
    exact hch q v
  · cases hd'

/-- a skipped component answers with no changes, so skipping propagates. -/
theorem skip_answers_nothing (react : React Val) (c : Comp) (t : SimTime) :
    answerOf react (.skip c t : Dispatch Val) = [] := by
  rfl

/-- components that are not downstream of a root are not touched at all (restated from C01). -/
theorem untouched_outside_extent (w : Wiring) (react : React Val) (t : SimTime) (roots : List Comp)
    (s : TickSys Val) (hs : s.Reachable w react t roots) (c : Comp) (hc : c ∉ extent w roots) :
    dispatchOf s.trace c = none := by
  rw [dispatchOf_eq_none_iff]
  intro d hd hdc
  exact hc (hdc ▸ (hs.inv.pre.disp_ext d hd).1)

/-- **schedule independence of one tick** (also the core of C08): two complete runs of the
same tick — any two answer orders — give every component the same dispatch (same kind, same
time, same changes as a mapping), hence invoke exactly the same devices with the same inputs. -/
theorem tick_deterministic (w : Wiring) (hw : RouterOK w) (hacyc : w.Acyclic)
    (react : React Val) (hr : ReactWF react) (hext : ReactExt react)
    (t : SimTime) (roots : List Comp)
    (s1 s2 : TickSys Val) (h1 : s1.Reachable w react t roots) (h2 : s2.Reachable w react t roots)
    (hf1 : s1.tk.toUpdate = []) (hf2 : s2.tk.toUpdate = []) (c : Comp) :
    match dispatchOf s1.trace c, dispatchOf s2.trace c with
    | some d1, some d2 => Dispatch.Equiv d1 d2
    | none, none => True
    | _, _ => False := by
  exact sameDispatch_of_complete hw hacyc hr hext h1 h2 hf1 hf2 c

/-- every well-formed wiring with one source per input port satisfies the router facts
the ticker relies on (they are the C16 theorems). -/
theorem routerOK_of_wf (w : Wiring) (h : w.WF) (h1 : w.OneSource) : RouterOK w := by
  exact
    { oneSource := h1
      route_exact := fun a ch hch b q v => route_exact w h h1 a ch hch b q v
      route_wf := fun a ch =>
        ⟨(route_wf w a ch).1, fun e he =>
          ⟨(route_wf w a ch).2 e he,
            route_nonempty w a ch e.1 e.2 (alookup_eq_some_of_mem (route_wf w a ch).1 he)⟩⟩
      ups_edge := fun b us hu a => mem_ups_iff w h b us hu a }

variable [DecidableEq Val]

/-- **change detection**: a port is in the `Output` changes exactly when it is reported now
and was absent from, or different in, the previous report. -/
theorem changed_iff (last outs : List (Port × Val)) (p : Port) (v : Val) :
    (p, v) ∈ outChanges last outs ↔ (p, v) ∈ outs ∧ alookup last p ≠ some v := by
  simp only [outChanges, List.mem_filter]
  apply and_congr_right
  intro _
  cases h : alookup last p with
  | none => simp
  | some v' => simp

/-- the device is given its previous inputs overlaid with the changes. -/
theorem merge_lookup (dc : DevComp Val) (changes : List (Port × Val)) (q : Port) :
    alookup (dc.merge changes) q = (alookup (aupdate [] changes) q).orElse (fun _ => alookup dc.deviceInputs q) := by
  have _ : DecidableEq Val := inferInstance -- instance not needed: holds for every `Val`
  exact alookup_aupdate _ _ _

theorem onTick_state (dc : DevComp Val) (changes outs : List (Port × Val)) :
    (dc.onTick changes outs).1.deviceInputs = dc.merge changes ∧
    (dc.onTick changes outs).1.lastOutputs = outs ∧
    (dc.onTick changes outs).2 = outChanges dc.lastOutputs outs := by
  exact ⟨rfl, rfl, rfl⟩

end Tickit
