/-
C03 — devices see exactly the latest upstream values along the declared wiring
(flat simulations, any number of ticks, any answer order in every tick).
-/
import TickitModel.Lemmas.FlatSyncLemmas

namespace Tickit

variable {Val : Type} [DecidableEq Val]

/-- the invariant holds initially … -/
theorem synced_init (w : Wiring) : Synced w ({} : FlatSt Val) := by
  sorry

/-- … and is preserved by every complete tick, whatever the roots and the answer order. -/
theorem synced_tick (w : Wiring) (hw : RouterOK w) (hacyc : w.Acyclic) (dev : DevFn Val)
    (st st' : FlatSt Val) (t : SimTime) (roots : List Comp)
    (hroots : ∀ c ∈ extent w roots, (w.ups c).isSome)
    (hs : Synced w st) (hrun : TickRun w dev st t roots st') : Synced w st' := by
  sorry

/-- **C03.** Every observation made in a tick — the inputs a device is given when it is
updated — holds, for each input port wired to an upstream output, the most recent value ever
reported on that output *including values reported earlier in this same tick*, and has no
other key.  (`st'.reported` is the log after the tick: an upstream that takes part in the tick
has, by C01, reported before the device is updated, and reports once.) -/
theorem inputs_latest (w : Wiring) (hw : RouterOK w) (hacyc : w.Acyclic) (dev : DevFn Val)
    (st st' : FlatSt Val) (t : SimTime) (roots : List Comp)
    (hroots : ∀ c ∈ extent w roots, (w.ups c).isSome)
    (hs : Synced w st) (hrun : TickRun w dev st t roots st')
    (c : Comp) (t' : SimTime) (given : List (Port × Val))
    (hobs : (c, t', given) ∈ st'.obs) (hnew : (c, t', given) ∉ st.obs) :
    t' = t ∧
    (∀ a p q, w.Conn a p c q → alookup given q = alookup st'.reported (a, p)) ∧
    (∀ q v, alookup given q = some v → ∃ a p, w.Conn a p c q) := by
  sorry

/-- over a whole run: the invariant holds after every tick of every run. -/
theorem synced_run (w : Wiring) (hw : RouterOK w) (hacyc : w.Acyclic) (devs : DevSeq Val)
    (hcomp : ∀ c ∈ w.components, (w.ups c).isSome)
    (t0 : SimTime) (n : Nat) (st : FlatSt Val) (times : List SimTime)
    (hrun : FlatRun w devs t0 n st times) : Synced w st := by
  sorry

end Tickit
