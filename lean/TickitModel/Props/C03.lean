/-
C03 — devices see exactly the latest upstream values along the declared wiring
(flat simulations, any number of ticks, any answer order in every tick).
-/
import TickitModel.Lemmas.FlatSyncLemmas

namespace Tickit

variable {Val : Type} [DecidableEq Val]

/-- the invariant holds initially … -/
theorem synced_init (w : Wiring) : Synced w ({} : FlatSt Val) := by
  exact Sync.synced_empty w

/-- … and is preserved by every complete tick, whatever the roots and the answer order. -/
theorem synced_tick (w : Wiring) (hw : RouterOK w) (hacyc : w.Acyclic) (dev : DevFn Val)
    (st st' : FlatSt Val) (t : SimTime) (roots : List Comp)
    (hroots : ∀ c ∈ extent w roots, (w.ups c).isSome)
    (hs : Synced w st) (hrun : TickRun w dev st t roots st') : Synced w st' := by
  have _ := hacyc -- not needed: the tick equations of C02 hold for every reachable state
  have _ := hroots -- not needed: a complete run is given
  obtain ⟨s, hr, hf, rfl⟩ := hrun
  exact Sync.synced_afterTick hw hr hf hs

/-- **C03.** Every observation made in a tick — the inputs a device is given when it is
updated — holds, for each input port wired to an upstream output, the most recent value ever
reported on that output *including values reported earlier in this same tick*, and has no
other key.  (`st'.reported` is the log after the tick: an upstream that takes part in the tick
has, by C01, reported before the device is updated, and reports once.) -/
theorem inputs_latest (w : Wiring) (hw : RouterOK w) (hacyc : w.Acyclic) (dev : DevFn Val)
    (st st' : FlatSt Val) (t : SimTime) (roots : List Comp)
    (hroots : ∀ c ∈ extent w roots, (w.ups c).isSome)
    (hs : Synced w st) (hrun : TickRun w dev st t roots st')
    (c : Comp) (t' : SimTime) (given : List (Port × Val))
    (hobs : (c, t', given) ∈ st'.obs) (hnew : (c, t', given) ∉ st.obs) :
    t' = t ∧
    (∀ a p q, w.Conn a p c q → alookup given q = alookup st'.reported (a, p)) ∧
    (∀ q v, alookup given q = some v → ∃ a p, w.Conn a p c q) := by
  have _ := hacyc -- not needed: the tick equations of C02 hold for every reachable state
  have _ := hroots -- not needed: a complete run is given
  obtain ⟨s, hr, hf, rfl⟩ := hrun
  have hcount := fun c => (hr.inv.pre.count c).1
  rcases Sync.obs_afterTick dev hcount st hobs with h | ⟨c', t'', ins, hm, he⟩
  · exact absurd h hnew
  · cases he
    have hd := dispatchOf_eq_of_mem (d := .input c t' ins) (hcount c) hm
    obtain ⟨rfl, _, _⟩ := Sync.input_facts hw hr hd
    exact ⟨rfl, fun a p q hc => Sync.wire_input hw hr hs hc hd,
      fun q v h => Sync.given_keys hw hr hs hd h⟩

/-- over a whole run: the invariant holds after every tick of every run. -/
theorem synced_run (w : Wiring) (hw : RouterOK w) (hacyc : w.Acyclic) (devs : DevSeq Val)
    (hcomp : ∀ c ∈ w.components, (w.ups c).isSome)
    (t0 : SimTime) (n : Nat) (st : FlatSt Val) (times : List SimTime)
    (hrun : FlatRun w devs t0 n st times) : Synced w st := by
  have _ := hacyc -- not needed, see `synced_tick`
  have _ := hcomp -- not needed: holds for every wiring (`Wiring.ups_isSome_iff'`)
  exact (Sync.run_inv hw hrun).1

end Tickit
