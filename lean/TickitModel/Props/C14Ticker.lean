/-
C14 (ticker) — `Ticker.to_update` (`core/management/ticker.py`) holds one entry — `None` or
the handle of the task created by `schedule_possible_updates` — per component still to be
resolved in the current tick:

    self.to_update = {c: None for component in self.roots
                              for c in self.event_router.dependants(component)}     # _start_tick
    updating[component] = asyncio.create_task(self.update_component(Input(..)))       # schedule
    self.to_update.update(updating)
    self.to_update.pop(output.source)                                                 # propagate

In every reachable state of every tick (closed tick system of `Core/TickSys.lean`: every
wiring, root set, reaction and order of answers) the number of entries, and with it the number
of task handles and of dispatches not yet answered, is at most the number of components of
the wiring; it does not depend on the number of ticks done before, and `_start_tick` replaces
the dict.
-/
import TickitModel.Lemmas.TickerResLemmas

namespace Tickit

variable {Val : Type}

/-- everything `_start_tick` puts into `to_update` is a component of the wiring, provided the
roots are (they are: `ticker.components` for the first tick, keys of `wakeups` afterwards). -/
theorem extent_within_components (w : Wiring) (roots : List Comp)
    (hroots : ∀ r ∈ roots, r ∈ w.components) :
    (∀ c ∈ extent w roots, c ∈ w.components) ∧ (extent w roots).Nodup ∧
    (extent w roots).length ≤ w.components.length :=
  ⟨fun _ hc => tres_extent_sub_components hroots hc, tres_extent_nodup w roots,
    tres_extent_length_le hroots⟩

/-- `EventRouter.components` has no duplicates, so its length is the number of components. -/
theorem components_is_a_set (w : Wiring) : w.components.Nodup := tres_components_nodup w

/-- **C14, ticker.** In every reachable state of a tick: `len(to_update)` ≤ the size of the
tick's extent ≤ the number of components of the wiring; the dispatches not yet answered (=
the live update/skip tasks' handles, flag `true`) are at most `len(to_update)`. -/
theorem ticker_toUpdate_bounded (w : Wiring) (react : React Val) (t : SimTime) (roots : List Comp)
    (hroots : ∀ r ∈ roots, r ∈ w.components)
    (s : TickSys Val) (hs : s.Reachable w react t roots) :
    s.tk.toUpdate.length ≤ (extent w roots).length ∧
    s.tk.toUpdate.length ≤ w.components.length ∧
    s.pending.length ≤ s.tk.toUpdate.length ∧
    (s.tk.toUpdate.filter (fun e => e.2)).length ≤ w.components.length := by
  have h1 := hs.inv.pre.toUpdate_length_le
  have h2 := tres_extent_length_le hroots
  have h3 := hs.inv.pre.pending_length_le
  have h4 := List.length_filter_le (fun e : Comp × Bool => e.2) s.tk.toUpdate
  exact ⟨h1, by omega, h3, by omega⟩

/-- the bound by the extent needs no hypothesis on the roots. -/
theorem ticker_toUpdate_le_extent (w : Wiring) (react : React Val) (t : SimTime)
    (roots : List Comp) (s : TickSys Val) (hs : s.Reachable w react t roots) :
    s.tk.toUpdate.length ≤ (extent w roots).length ∧ s.pending.length ≤ s.tk.toUpdate.length :=
  ⟨hs.inv.pre.toUpdate_length_le, hs.inv.pre.pending_length_le⟩

/-- within a tick the dict only shrinks: each answered dispatch removes exactly one entry
(restated from C01). -/
theorem ticker_toUpdate_shrinks (w : Wiring) (react : React Val) (s s' : TickSys Val) (i : Nat)
    (h : s.step w react i = some (.ok s')) :
    s'.tk.toUpdate.length + 1 = s.tk.toUpdate.length :=
  TickSys.step_measure' h

/-! ### non-vacuity: the diamond a → b, c → d -/

def c14W : Wiring :=
  [("a", [("o", [("b", "i"), ("c", "i")])]), ("b", [("o", [("d", "i1")])]),
   ("c", [("o", [("d", "i2")])]), ("d", [])]

example : c14W.components.length = 4 ∧ ∀ r ∈ ["a"], r ∈ c14W.components := by decide

example : ∃ s : TickSys Unit, s.Reachable c14W (fun _ _ => [("o", ())]) 0 ["a"] ∧
    s.tk.toUpdate.length = 3 ∧ s.pending.length = 2 := by
  refine ⟨_, .step (i := 0) (.init rfl) rfl, by decide, by decide⟩

end Tickit
