/-
Non-vacuity of `Props/C08NestedInter.lean` / `Props/C08NestedInterRun.lean`: the configuration of
`Props/C08NestedAnyEx.lean` extended by a SECOND sibling system simulation, and a complete
interleaved execution of its initial tick that ALTERNATES between the two inner ticks.

Master level: system simulations `s` and `s2` and device `z`, wired `s.y → z.i`, `s2.y → z.j`.
Inside `s`: devices `a`, `b`, `expose.y ← a.o`.  Inside `s2`: devices `c`, `d`, `expose.y ← c.o`.
The interleaved execution `interEx` delivers the `Input` of `s`, then the `Input` of `s2` (both
inner ticks are now open), then the two inner levels answer in turn
(`a` in `s`, `d` in `s2`, `external` in `s`, `c` in `s2`, `b` in `s`, `external` in `s2`, `expose`
in `s`, `expose` in `s2`), `s2` returns first, then `s`, then `z` is updated.  The global observation
list is `a, d, c, b, z` — NO execution with atomic inner ticks can produce it (there the observations
of `a`, `b` are adjacent, and so are those of `c`, `d`) — and yet, by the theorems, the final state
is equivalent to that of every atomic execution.
-/
import TickitModel.Props.C08NestedInter
import TickitModel.Props.C08NestedInterRun
import TickitModel.Props.C01NestedInter
import TickitModel.Props.C08NestedAnyEx

namespace Tickit.InterEx

open Tickit.AnyEx

def topInv1 : InvWiring := [("s", []), ("s2", []), ("z", [("i", ("s", "y")), ("j", ("s2", "y"))])]
def s2Inv : InvWiring := [("c", []), ("d", []), ("external", []), ("expose", [("y", ("c", "o"))])]
def topW1 : Wiring := Wiring.fromInverse topInv1
def s2W : Wiring := Wiring.fromInverse s2Inv

def S1 : Static :=
  { levels := [⟨"", topW1⟩, ⟨"s", sW⟩, ⟨"s2", s2W⟩]
    systems := ["s", "s2"]
    parent := [("s", ""), ("s2", ""), ("z", ""), ("a", "s"), ("b", "s"), ("c", "s2"), ("d", "s2")] }

/-- `a` reports `o = 7`; `b` reports `o = 1` and asks to be called back at 5; `c` reports `o = 3`;
`d` reports `o = 4`; `z` reports nothing -/
def orc1 : Oracle :=
  [("a", [⟨[("o", 7)], none, false⟩]),
   ("b", [⟨[("o", 1)], some 5, false⟩, ⟨[("o", 2)], none, false⟩]),
   ("c", [⟨[("o", 3)], none, false⟩]),
   ("d", [⟨[("o", 4)], none, false⟩]),
   ("z", [⟨[], none, false⟩])]

/-- **the example configuration with two sibling system simulations is valid** -/
theorem S1_valid : S1.Valid where
  parent_level := by
    intro c p h
    have hm := mem_of_alookup_eq_some h
    simp only [S1, List.mem_cons, Prod.mk.injEq, List.not_mem_nil, or_false] at hm
    rcases hm with ⟨rfl, rfl⟩ | ⟨rfl, rfl⟩ | ⟨rfl, rfl⟩ | ⟨rfl, rfl⟩ | ⟨rfl, rfl⟩ | ⟨rfl, rfl⟩ | ⟨rfl, rfl⟩
    · exact ⟨⟨"", topW1⟩, rfl, by decide, Or.inl rfl⟩
    · exact ⟨⟨"", topW1⟩, rfl, by decide, Or.inl rfl⟩
    · exact ⟨⟨"", topW1⟩, rfl, by decide, Or.inl rfl⟩
    · exact ⟨⟨"s", sW⟩, rfl, by decide, Or.inr rfl⟩
    · exact ⟨⟨"s", sW⟩, rfl, by decide, Or.inr rfl⟩
    · exact ⟨⟨"s2", s2W⟩, rfl, by decide, Or.inr rfl⟩
    · exact ⟨⟨"s2", s2W⟩, rfl, by decide, Or.inr rfl⟩
  members := by decide
  sys_level := by
    intro c h
    have hc : c = "s" ∨ c = "s2" := by simpa [Static.isSys, S1] using h
    rcases hc with rfl | rfl
    · exact ⟨⟨"s", sW⟩, rfl, rfl⟩
    · exact ⟨⟨"s2", s2W⟩, rfl, rfl⟩
  pseudo_fresh := by decide
  sys_parent := by
    intro c h
    have hc : c = "s" ∨ c = "s2" := by simpa [Static.isSys, S1] using h
    rcases hc with rfl | rfl <;> rfl
  nesting := by
    refine ⟨fun c => if c = "a" ∨ c = "b" ∨ c = "c" ∨ c = "d" then 1 else 0, ?_⟩
    intro c p h hp
    have hm := mem_of_alookup_eq_some h
    simp only [S1, List.mem_cons, Prod.mk.injEq, List.not_mem_nil, or_false] at hm
    rcases hm with ⟨rfl, rfl⟩ | ⟨rfl, rfl⟩ | ⟨rfl, rfl⟩ | ⟨rfl, rfl⟩ | ⟨rfl, rfl⟩ | ⟨rfl, rfl⟩ | ⟨rfl, rfl⟩
    · exact absurd rfl hp
    · exact absurd rfl hp
    · exact absurd rfl hp
    · decide
    · decide
    · decide
    · decide
  ups_defined := by decide
  level_names := by decide
  wiring_wf := by
    intro L hL
    simp only [S1, List.mem_cons, List.not_mem_nil, or_false] at hL
    rcases hL with rfl | rfl | rfl
    · exact ⟨Wiring.wf_fromInverse' _, Wiring.oneSource_fromInverse _ (by unfold InvWiring.WF DictWF; decide)⟩
    · exact ⟨Wiring.wf_fromInverse' _, Wiring.oneSource_fromInverse _ (by unfold InvWiring.WF DictWF; decide)⟩
    · exact ⟨Wiring.wf_fromInverse' _, Wiring.oneSource_fromInverse _ (by unfold InvWiring.WF DictWF; decide)⟩
  acyclic := by
    intro L hL
    simp only [S1, List.mem_cons, List.not_mem_nil, or_false] at hL
    rcases hL with rfl | rfl | rfl
    · exact acyclic_of_check _ (fun c => if c = "z" then 1 else 0) (by decide)
    · exact acyclic_of_check _ (fun c => if c = "expose" then 1 else 0) (by decide)
    · exact acyclic_of_check _ (fun c => if c = "expose" then 1 else 0) (by decide)
  parent_unique := by decide
  pseudo_dir := by
    intro L hL
    simp only [S1, List.mem_cons, List.not_mem_nil, or_false] at hL
    rcases hL with rfl | rfl | rfl
    · exact pseudo_dir_of_check _ (by decide)
    · exact pseudo_dir_of_check _ (by decide)
    · exact pseudo_dir_of_check _ (by decide)
  master_fresh := by decide

/-- **an interleaved execution that alternates between the inner ticks of the two sibling
systems**: both `Input`s are delivered first, then `s` and `s2` answer in turn, `s2` returns before
`s`.  The observations are made in the order `a, d, c, b, z`. -/
theorem interEx : ∃ r, TickInter S1 orc1 "" 0 ["z", "s", "s2"] [] {} r ∧
    r.1.obs.map (·.comp) = ["a", "d", "c", "b", "z"] := by
  refine ⟨_, .mk (L := ⟨"", topW1⟩) rfl rfl
    (-- deliver the Input of `s`, then of `s2`
     .step (.opn (i := 0) (Lc := ⟨"s", sW⟩) rfl rfl rfl rfl (by simp) rfl rfl)
    (.step (.opn (i := 1) (Lc := ⟨"s2", s2W⟩) rfl rfl rfl rfl (by decide) rfl rfl)
     -- `a` in `s`
    (.step (.inner (j := 0) rfl
      (.answer (i := 1) rfl (.dev (resp := ⟨[("o", 7)], none, false⟩) rfl rfl rfl rfl rfl) rfl))
     -- `d` in `s2`
    (.step (.inner (j := 1) rfl
      (.answer (i := 2) rfl (.dev (resp := ⟨[("o", 4)], none, false⟩) rfl rfl rfl rfl rfl) rfl))
     -- `external` in `s`
    (.step (.inner (j := 0) rfl (.answer (i := 0) rfl (.external rfl) rfl))
     -- `c` in `s2`
    (.step (.inner (j := 1) rfl
      (.answer (i := 1) rfl (.dev (resp := ⟨[("o", 3)], none, false⟩) rfl rfl rfl rfl rfl) rfl))
     -- `b` in `s`
    (.step (.inner (j := 0) rfl
      (.answer (i := 0) rfl (.dev (resp := ⟨[("o", 1)], some 5, false⟩) rfl rfl rfl rfl rfl) rfl))
     -- `external` in `s2`
    (.step (.inner (j := 1) rfl (.answer (i := 0) rfl (.external rfl) rfl))
     -- `expose` in `s`, then in `s2`
    (.step (.inner (j := 0) rfl (.answer (i := 0) rfl (.expose rfl rfl) rfl))
    (.step (.inner (j := 1) rfl (.answer (i := 0) rfl (.expose rfl rfl) rfl))
     -- `s2` returns, then `s`
    (.step (.close (j := 1) (i := 1) rfl rfl rfl rfl rfl)
    (.step (.close (j := 0) (i := 0) rfl rfl rfl rfl rfl)
     -- `z`
    (.step (.answer (i := 0) rfl (.dev (resp := ⟨[], none, false⟩) rfl rfl rfl rfl rfl) rfl)
    .refl))))))))))))) rfl rfl, ?_⟩
  rfl

/-- an execution of the same tick with ATOMIC inner ticks (first all of `s`, then all of `s2`): the
observations are made in the order `a, b, c, d, z` -/
theorem atomEx : ∃ r, TickLevelAny S1 orc1 "" 0 ["z", "s", "s2"] [] {} r ∧
    r.1.obs.map (·.comp) = ["a", "b", "c", "d", "z"] := by
  refine ⟨_, .mk (L := ⟨"", topW1⟩) rfl rfl
    (.step (i := 0) rfl
      (.sys rfl rfl rfl
        (.mk (L := ⟨"s", sW⟩) rfl rfl
          (.step (i := 0) rfl (.external rfl) rfl
          (.step (i := 0) rfl (.dev (resp := ⟨[("o", 7)], none, false⟩) rfl rfl rfl rfl rfl) rfl
          (.step (i := 0) rfl (.dev (resp := ⟨[("o", 1)], some 5, false⟩) rfl rfl rfl rfl rfl) rfl
          (.step (i := 0) rfl (.expose rfl rfl) rfl
          (.done rfl rfl))))))) rfl
    (.step (i := 0) rfl
      (.sys rfl rfl rfl
        (.mk (L := ⟨"s2", s2W⟩) rfl rfl
          (.step (i := 0) rfl (.external rfl) rfl
          (.step (i := 0) rfl (.dev (resp := ⟨[("o", 3)], none, false⟩) rfl rfl rfl rfl rfl) rfl
          (.step (i := 0) rfl (.dev (resp := ⟨[("o", 4)], none, false⟩) rfl rfl rfl rfl rfl) rfl
          (.step (i := 0) rfl (.expose rfl rfl) rfl
          (.done rfl rfl))))))) rfl
    (.step (i := 0) rfl (.dev (resp := ⟨[], none, false⟩) rfl rfl rfl rfl rfl) rfl
    (.done rfl rfl)))), ?_⟩
  rfl

theorem wf_empty : ({} : SimSt).WakeWF := SimSt.wakeWF_empty

/-- theorem 1 applied: the atomic execution is an interleaved execution -/
example : ∃ r, TickInter S1 orc1 "" 0 ["z", "s", "s2"] [] {} r ∧
    r.1.obs.map (·.comp) = ["a", "b", "c", "d", "z"] := by
  obtain ⟨r, h, ho⟩ := atomEx
  exact ⟨r, atomic_is_interleaved S1 orc1 "" 0 _ [] {} r h, ho⟩

/-- theorem 2 applied to the alternating execution: it has an atomic counterpart with the same
view under every key — although its global observation order `a, d, c, b, z` is not that of any
atomic execution — and it agrees with the (genuinely different) atomic execution `atomEx`: in
particular `z` was given `i = 7`, `j = 3` in both, and the master was asked to call `s` back at 5. -/
example : ∃ r r', TickInter S1 orc1 "" 0 ["z", "s", "s2"] [] {} r ∧
    TickLevelAny S1 orc1 "" 0 ["z", "s", "s2"] [] {} r' ∧
    r.1.obs.map (·.comp) ≠ r'.1.obs.map (·.comp) ∧ r.1.Equiv r'.1 ∧ MapEq r.2 r'.2 := by
  obtain ⟨r, h1, ho1⟩ := interEx
  obtain ⟨r', h2, ho2⟩ := atomEx
  refine ⟨r, r', h1, h2, by rw [ho1, ho2]; decide, ?_⟩
  exact interleaved_agrees_with_every_atomic S1 S1_valid orc1 "" 0 _ _ [] [] {} {} r r'
    (fun _ => Iff.rfl) (mapEq_refl _) (by simp) (by simp) (.refl wf_empty) h1 h2

example : ∃ r, TickInter S1 orc1 "" 0 ["z", "s", "s2"] [] {} r ∧
    ∃ st'', TickLevelAny S1 orc1 "" 0 ["z", "s", "s2"] [] {} (st'', r.2) ∧
      ∀ x, agetD st''.devs x {} = agetD r.1.devs x {} ∧ agetD st''.count x 0 = agetD r.1.count x 0 ∧
        st''.sched x = r.1.sched x ∧ st''.obsOf x = r.1.obsOf x := by
  obtain ⟨r, h1, _⟩ := interEx
  exact ⟨r, h1, interleaved_has_atomic S1 S1_valid orc1 "" 0 _ [] {} r h1⟩

/-- theorem 3 applied: any other interleaved execution gives every device the same observations -/
example (r' : SimSt × List (Port × V)) (h' : TickInter S1 orc1 "" 0 ["z", "s", "s2"] [] {} r') :
    ∃ r, TickInter S1 orc1 "" 0 ["z", "s", "s2"] [] {} r ∧ ∀ d, ObsEq (r.1.obsOf d) (r'.1.obsOf d) := by
  obtain ⟨r, h1, _⟩ := interEx
  exact ⟨r, h1, interleaved_same_observations S1 S1_valid orc1 "" 0 _ _ [] [] {} {} r r'
    (fun _ => Iff.rfl) (mapEq_refl _) (by simp) (by simp) (.refl wf_empty) h1 h'⟩

/-- the FIFO model completes the tick and agrees with the alternating execution -/
example : ∃ r, TickInter S1 orc1 "" 0 ["z", "s", "s2"] [] {} r ∧
    ∃ F, ∀ fuel, F ≤ fuel → ∃ rf, tickLevel S1 orc1 fuel "" 0 ["z", "s", "s2"] [] {} = .ok rf ∧
      r.1.Equiv rf.1 ∧ MapEq r.2 rf.2 := by
  obtain ⟨r, h, _⟩ := interEx
  exact ⟨r, h, interleaved_fifo_exists S1 S1_valid orc1 "" 0 _ [] (by simp) {} wf_empty r h⟩

/-- C01 for the alternating execution: nobody was updated twice, and — although the inner ticks of
`s` and `s2` overlapped — `a` (which drives `z.i` through `expose` of `s`) and `c` (which drives
`z.j` through `expose` of `s2`) were updated before `z`. -/
example : ∃ r, TickInter S1 orc1 "" 0 ["z", "s", "s2"] [] {} r ∧
    ∀ x, (r.1.obsOf x).length ≤ (({} : SimSt).obsOf x).length + 1 := by
  obtain ⟨r, h, _⟩ := interEx
  exact ⟨r, h, interleaved_updates_le S1 S1_valid orc1 "" 0 _ [] (by simp) {} r h⟩

example : (Wiring.fromInverse (S1.flatInverse 7)).Conn "a" "o" "z" "i" ∧
    (Wiring.fromInverse (S1.flatInverse 7)).Conn "c" "o" "z" "j" := by decide

example : ∃ r, TickInter S1 orc1 "" 0 ["z", "s", "s2"] [] {} r ∧
    ∃ new, r.1.obs = ({} : SimSt).obs ++ new ∧
      ∀ pre oy post, new = pre ++ oy :: post → ∀ ox ∈ new, ∀ p q,
        (Wiring.fromInverse (S1.flatInverse 7)).Conn ox.comp p oy.comp q → ox ∈ pre := by
  obtain ⟨r, h, _⟩ := interEx
  exact ⟨r, h, interleaved_update_after_resolved_sources S1 S1_valid orc1 7 "" 0 _ [] {} r h⟩

/-- a whole run over interleaved ticks: the initial tick as in `interEx`, then the callback tick at
5 asked for by `b` -/
theorem interRun : ∃ r0 r, MasterInitialInter S1 orc1 0 0 r0 ∧
    MasterRunInter S1 orc1 10 ⟨1, 1⟩ 5 1 r0.1 [] [r0.2] r ∧ r.2.map (·.time) = [0, 5] ∧
    r.1.sim.obs.map (·.comp) = ["a", "d", "c", "b", "z", "b"] := by
  refine ⟨_, _, .mk (L := ⟨"", topW1⟩) rfl
    (.mk (L := ⟨"", topW1⟩) rfl rfl
    (.step (.opn (i := 0) (Lc := ⟨"s", sW⟩) rfl rfl rfl rfl (by simp) rfl rfl)
    (.step (.opn (i := 1) (Lc := ⟨"s2", s2W⟩) rfl rfl rfl rfl (by decide) rfl rfl)
    (.step (.inner (j := 0) rfl
      (.answer (i := 1) rfl (.dev (resp := ⟨[("o", 7)], none, false⟩) rfl rfl rfl rfl rfl) rfl))
    (.step (.inner (j := 1) rfl
      (.answer (i := 2) rfl (.dev (resp := ⟨[("o", 4)], none, false⟩) rfl rfl rfl rfl rfl) rfl))
    (.step (.inner (j := 0) rfl (.answer (i := 0) rfl (.external rfl) rfl))
    (.step (.inner (j := 1) rfl
      (.answer (i := 1) rfl (.dev (resp := ⟨[("o", 3)], none, false⟩) rfl rfl rfl rfl rfl) rfl))
    (.step (.inner (j := 0) rfl
      (.answer (i := 0) rfl (.dev (resp := ⟨[("o", 1)], some 5, false⟩) rfl rfl rfl rfl rfl) rfl))
    (.step (.inner (j := 1) rfl (.answer (i := 0) rfl (.external rfl) rfl))
    (.step (.inner (j := 0) rfl (.answer (i := 0) rfl (.expose rfl rfl) rfl))
    (.step (.inner (j := 1) rfl (.answer (i := 0) rfl (.expose rfl rfl) rfl))
    (.step (.close (j := 1) (i := 1) rfl rfl rfl rfl rfl)
    (.step (.close (j := 0) (i := 0) rfl rfl rfl rfl rfl)
    (.step (.answer (i := 0) rfl (.dev (resp := ⟨[], none, false⟩) rfl rfl rfl rfl rfl) rfl)
    .refl))))))))))))) rfl rfl),
    .tick (comps := ["s"]) (w := 5) rfl rfl
      (.mk (L := ⟨"", topW1⟩) rfl rfl
      (.step (.opn (i := 0) (Lc := ⟨"s", sW⟩) rfl rfl rfl rfl (by simp) rfl rfl)
      (.step (.inner (j := 0) rfl (.answer (i := 1) rfl (.external rfl) rfl))
      (.step (.inner (j := 0) rfl
        (.answer (i := 0) rfl (.dev (resp := ⟨[("o", 2)], none, false⟩) rfl rfl rfl rfl rfl) rfl))
      (.step (.close (j := 0) (i := 0) rfl rfl rfl rfl rfl)
      (.step (.answer (i := 0) rfl .skip rfl)
      .refl))))) rfl rfl)
      .ticksDone, ?_, ?_⟩
  · rfl
  · rfl

/-- the run-level theorems applied: the run over interleaved ticks has the observations of a
`Synced` flat run over the resolved wiring, and any other such run does the same ticks -/
example : ∃ r0 r, MasterInitialInter S1 orc1 0 0 r0 ∧
    MasterRunInter S1 orc1 10 ⟨1, 1⟩ 5 1 r0.1 [] [r0.2] r ∧
    ∃ (devs : DevSeq V) (st : FlatSt V) (times : List SimTime),
      FlatRun (Wiring.fromInverse (S1.flatInverse 20)) devs 0 (r.2.length - 1) st times ∧
      Synced (Wiring.fromInverse (S1.flatInverse 20)) st ∧ times = (r.2.map (·.time)).reverse ∧
      ∀ d, ObsEq (r.1.sim.obsOf d) (st.obsOf d) := by
  obtain ⟨r0, r, h1, h2, _, _⟩ := interRun
  exact ⟨r0, r, h1, h2, interleaved_run_refines_flatRun S1 S1_valid orc1 10 20 (by decide) 0 0 ⟨1, 1⟩ 5 1
    r0 r h1 h2⟩

example (r0' : MasterSt × TickRec) (r' : MasterSt × List TickRec)
    (h1' : MasterInitialInter S1 orc1 0 0 r0')
    (h2' : MasterRunInter S1 orc1 10 ⟨1, 1⟩ 5 1 r0'.1 [] [r0'.2] r') :
    r'.2.map (·.time) = [0, 5] := by
  obtain ⟨r0, r, h1, h2, ht, _⟩ := interRun
  have := (interleaved_run_deterministic S1 S1_valid orc1 10 0 0 ⟨1, 1⟩ 5 1 [] r0 r0' r r' h1 h1' h2 h2').2.1
  rw [← this.times.1, ht]

end Tickit.InterEx
