/-
C08 / C01 through nesting — ANY answer order at EVERY nesting depth.

`Core/SimAny.lean` states one tick of the nested whole-simulation model as a relation
`TickLevelAny` in which every scheduler level may answer any pending dispatch next, and the answer
of a system component is any such execution of its inner level (`Core/Sim.lean` fixes first-in
first-out at every level).  This file proves

 1. `fifo_is_any`: the FIFO model `tickLevel` is one of the executions;
 2. `nested_any_order_deterministic`: on a valid configuration two executions of the same tick,
    started in equivalent states, end in equivalent states with the same exposed output changes —
    whatever the answer orders were at whatever depth; hence (`any_order_agrees_with_fifo`) every
    execution agrees with the FIFO model, and the per-device observation sequences do not depend on
    the order (`any_order_same_observations`);
 3. `any_order_frame`: an execution touches only what lies at or below its level.

Equivalence of states (`SimSt.Equiv`, unfolded by `simSt_equiv_iff`): under every key the same
device inputs and last outputs AS MAPPINGS, the same update count, the same scheduler state
(wakeups as a mapping with unique keys, queued interrupts as a set, the initial-tick flag) and the
same per-device observation sequence (inputs compared as mappings, `ObsEq`).  The global
observation list is an interleaving and DOES differ between executions; association lists differ in
key order.
-/
import TickitModel.Lemmas.AnyDet
import TickitModel.Lemmas.AnyLive

namespace Tickit

/-- `SimSt.Equiv` spelled out in terms of the fields of the state. -/
theorem simSt_equiv_iff (a b : SimSt) :
    a.Equiv b ↔ ∀ x,
      MapEq (agetD a.devs x {}).deviceInputs (agetD b.devs x {}).deviceInputs ∧
      MapEq (agetD a.devs x {}).lastOutputs (agetD b.devs x {}).lastOutputs ∧
      agetD a.count x 0 = agetD b.count x 0 ∧
      (MapEq (a.sched x).wake (b.sched x).wake ∧ UniqueKeys (a.sched x).wake ∧
        UniqueKeys (b.sched x).wake ∧ (∀ c, c ∈ (a.sched x).interrupts ↔ c ∈ (b.sched x).interrupts) ∧
        (a.sched x).firstDone = (b.sched x).firstDone) ∧
      ObsEq (a.obsOf x) (b.obsOf x) := by
  constructor
  · intro h x
    obtain ⟨h1, h2, h3, ⟨s1, s2, s3, s4, s5⟩, h5⟩ := h x
    exact ⟨h1, h2, h3, ⟨s1, s2, s3, s4, s5⟩, h5⟩
  · intro h x
    obtain ⟨h1, h2, h3, ⟨s1, s2, s3, s4, s5⟩, h5⟩ := h x
    exact ⟨h1, h2, h3, ⟨s1, s2, s3, s4, s5⟩, h5⟩

/-- **1. The FIFO model is one of the any-order executions**: whenever `tickLevel` (every level
answers its pending dispatches first-in first-out) completes a tick, that tick is a `TickLevelAny`
execution with the same result.  For the code: the synchronous schedule is one of the schedules
the bus may produce. -/
theorem fifo_is_any (S : Static) (orc : Oracle) (fuel : Nat) (lvl : Comp) (t : SimTime)
    (roots : List Comp) (inCh : List (Port × V)) (st : SimSt) (r : SimSt × List (Port × V))
    (h : tickLevel S orc fuel lvl t roots inCh st = .ok r) :
    TickLevelAny S orc lvl t roots inCh st r :=
  tickLevel_any fuel lvl t roots inCh st r h

/-- **3. Frame**: a tick of level `lvl`, whatever the answer orders, changes nothing that is kept
under a key which is neither `lvl` nor below `lvl`; all wakeup maps stay dicts; the exposed output
changes form a dict. -/
theorem any_order_frame (S : Static) (hS : S.Valid) (orc : Oracle) (lvl : Comp) (t : SimTime)
    (roots : List Comp) (inCh : List (Port × V)) (st : SimSt) (r : SimSt × List (Port × V))
    (h : TickLevelAny S orc lvl t roots inCh st r) :
    (∀ x, x ≠ lvl → ¬ S.Below lvl x → r.1.loc x = st.loc x) ∧ (st.WakeWF → r.1.WakeWF) ∧
      (akeys r.2).Nodup :=
  let p := tickLevelAny_post1 hS h
  ⟨p.frame, p.wf, p.nodup⟩

/-- **2. Schedule independence through nesting.**  On a valid configuration (acyclic well-formed
wiring with one source per input at every level, unique names, …), two executions of the same
tick of the same level — the same time, root sets equal as sets, input changes equal as mappings
— started in equivalent states end in equivalent states and expose the same output changes (as a
mapping), WHATEVER the order in which pending dispatches were answered at this level and inside
every system component at every depth.  For the code: the outcome of a tick does not depend on
the order and latency with which the bus delivers the components' outputs, also inside system
simulations. -/
theorem nested_any_order_deterministic (S : Static) (hS : S.Valid) (orc : Oracle) (lvl : Comp)
    (t : SimTime) (roots roots' : List Comp) (inCh inCh' : List (Port × V)) (st st' : SimSt)
    (r r' : SimSt × List (Port × V))
    (hroots : ∀ c, c ∈ roots ↔ c ∈ roots') (hin : MapEq inCh inCh')
    (hn : (akeys inCh).Nodup) (hn' : (akeys inCh').Nodup) (hst : st.Equiv st')
    (h1 : TickLevelAny S orc lvl t roots inCh st r)
    (h2 : TickLevelAny S orc lvl t roots' inCh' st' r') :
    r.1.Equiv r'.1 ∧ MapEq r.2 r'.2 := by
  obtain ⟨hd, hout⟩ := tickLevelAny_det hS h1 roots' inCh' st' r' hroots hin hn hn'
    (fun x _ => hst x) h2
  refine ⟨fun x => ?_, hout⟩
  by_cases hx : AtOrBelow S lvl x
  · exact hd x hx
  · have hne : x ≠ lvl := fun h => hx (Or.inl h)
    have hnb : ¬ S.Below lvl x := fun h => hx (Or.inr h)
    rw [(tickLevelAny_post1 hS h1).frame x hne hnb, (tickLevelAny_post1 hS h2).frame x hne hnb]
    exact hst x

/-- two executions of the same tick from the SAME state (whose wakeup maps are dicts). -/
theorem any_order_same_start (S : Static) (hS : S.Valid) (orc : Oracle) (lvl : Comp) (t : SimTime)
    (roots : List Comp) (inCh : List (Port × V)) (hn : (akeys inCh).Nodup) (st : SimSt)
    (hwf : st.WakeWF) (r r' : SimSt × List (Port × V))
    (h1 : TickLevelAny S orc lvl t roots inCh st r) (h2 : TickLevelAny S orc lvl t roots inCh st r') :
    r.1.Equiv r'.1 ∧ MapEq r.2 r'.2 :=
  nested_any_order_deterministic S hS orc lvl t roots roots inCh inCh st st r r' (fun _ => Iff.rfl)
    (mapEq_refl _) hn hn (.refl hwf) h1 h2

/-- **every any-order execution agrees with the FIFO model**: if `tickLevel` completes the tick,
every execution of that tick, whatever its answer orders, ends in a state equivalent to the FIFO
model's and exposes the same output changes. -/
theorem any_order_agrees_with_fifo (S : Static) (hS : S.Valid) (orc : Oracle) (fuel : Nat)
    (lvl : Comp) (t : SimTime) (roots : List Comp) (inCh : List (Port × V))
    (hn : (akeys inCh).Nodup) (st : SimSt) (hwf : st.WakeWF) (rf r : SimSt × List (Port × V))
    (hf : tickLevel S orc fuel lvl t roots inCh st = .ok rf)
    (h : TickLevelAny S orc lvl t roots inCh st r) :
    r.1.Equiv rf.1 ∧ MapEq r.2 rf.2 :=
  any_order_same_start S hS orc lvl t roots inCh hn st hwf r rf h
    (fifo_is_any S orc fuel lvl t roots inCh st rf hf)

/-- **C08 through nesting, observations.**  The sequence of `(time, inputs)` observations made by
each device is the same in all executions of a tick, at whatever depth the device lives and
whatever the answer orders were at every level. -/
theorem any_order_same_observations (S : Static) (hS : S.Valid) (orc : Oracle) (lvl : Comp)
    (t : SimTime) (roots roots' : List Comp) (inCh inCh' : List (Port × V)) (st st' : SimSt)
    (r r' : SimSt × List (Port × V))
    (hroots : ∀ c, c ∈ roots ↔ c ∈ roots') (hin : MapEq inCh inCh')
    (hn : (akeys inCh).Nodup) (hn' : (akeys inCh').Nodup) (hst : st.Equiv st')
    (h1 : TickLevelAny S orc lvl t roots inCh st r)
    (h2 : TickLevelAny S orc lvl t roots' inCh' st' r') (d : Comp) :
    ObsEq (r.1.obsOf d) (r'.1.obsOf d) :=
  ((nested_any_order_deterministic S hS orc lvl t roots roots' inCh inCh' st st' r r' hroots hin hn
    hn' hst h1 h2).1 d).ob

/-- **the FIFO model completes every tick that has an any-order execution, and agrees with it.**
If a tick has SOME execution (any answer orders), then for every sufficiently large fuel the FIFO
model `tickLevel` completes the same tick from the same state, in an equivalent state with the same
exposed output changes.  So "every any-order execution agrees with the FIFO model" needs no
assumption about the FIFO model. -/
theorem any_order_fifo_exists (S : Static) (hS : S.Valid) (orc : Oracle) (lvl : Comp) (t : SimTime)
    (roots : List Comp) (inCh : List (Port × V)) (hn : (akeys inCh).Nodup) (st : SimSt)
    (hwf : st.WakeWF) (r : SimSt × List (Port × V))
    (h : TickLevelAny S orc lvl t roots inCh st r) :
    ∃ F, ∀ fuel, F ≤ fuel → ∃ rf, tickLevel S orc fuel lvl t roots inCh st = .ok rf ∧
      r.1.Equiv rf.1 ∧ MapEq r.2 rf.2 := by
  obtain ⟨F, hF⟩ := tickLevelAny_live hS h hn
  refine ⟨F, fun fuel hfu => ?_⟩
  obtain ⟨rf, hrf⟩ := hF roots inCh st (fun _ => Iff.rfl) (mapEq_refl _) hn
    (fun x _ => SLoc.Equiv.refl (hwf x)) fuel hfu
  exact ⟨rf, hrf, any_order_agrees_with_fifo S hS orc fuel lvl t roots inCh hn st hwf rf r hrf h⟩

end Tickit
