/-
C14 — what acceptance of a trace by the TCP resource model means.

The driver's `tcpres` op steps `TcpSt` STRICTLY through the observed events of real connections (every event
must be enabled).  An accepted trace is therefore a history in the sense of `TcpSt.run` (which skips events that
are not enabled - none is skipped here), so everything `tcp_bounded` / `tcp_quiescent` prove for every history
holds for the state the model is in after every accepted prefix - and that state's `tasks` / `retained` are what
the check compares with the live tasks / still-referenced finished tasks measured on the real io.
-/
import TickitModel.Core.RaceRes
import TickitModel.Props.C14Race

namespace Tickit

/-- strict stepping: `none` as soon as an event is not enabled -/
def TcpSt.accept (fixed : Bool) : TcpSt → List TcpAct → Option TcpSt
  | s, [] => some s
  | s, a :: as => match s.step fixed a with
    | some s' => TcpSt.accept fixed s' as
    | none => none

theorem TcpSt.accept_is_run (fixed : Bool) (s s' : TcpSt) (acts : List TcpAct)
    (h : TcpSt.accept fixed s acts = some s') : s.run fixed acts = s' := by
  induction acts generalizing s with
  | nil => simp only [TcpSt.accept, Option.some.injEq] at h; simp [TcpSt.run, h]
  | cons a as ih =>
    simp only [TcpSt.accept] at h
    simp only [TcpSt.run]
    cases hs : s.step fixed a with
    | none => simp [hs] at h
    | some s1 => simp only [hs] at h ⊢; exact ih s1 h

/-- every prefix of an accepted trace is accepted -/
theorem TcpSt.accept_prefix (fixed : Bool) (s s' : TcpSt) (xs ys : List TcpAct)
    (h : TcpSt.accept fixed s (xs ++ ys) = some s') : ∃ m, TcpSt.accept fixed s xs = some m ∧ TcpSt.accept fixed m ys = some s' := by
  induction xs generalizing s with
  | nil => exact ⟨s, rfl, h⟩
  | cons a as ih =>
    simp only [List.cons_append, TcpSt.accept] at h ⊢
    cases hs : s.step fixed a with
    | none => simp [hs] at h
    | some s1 => simp only [hs] at h ⊢; exact ih s1 h

/-- **what the acceptor establishes**: after every accepted prefix of the observed events of the io (code as it is),
the model's live tasks are one handler per open connection plus the replies in flight on open connections, it
retains exactly the handles of those replies - no finished task - and nothing server-wide. -/
theorem accepted_trace_resources (xs ys : List TcpAct) (s' : TcpSt)
    (h : TcpSt.accept true {} (xs ++ ys) = some s') :
    ∃ m, TcpSt.accept true {} xs = some m ∧
      m.tasks = m.openConns + m.replyLiveOpen ∧ m.retained = m.replyLiveOpen ∧ m.legacyHeld = 0 ∧
      (m.replyLive = 0 → m.retained = 0) := by
  obtain ⟨m, hm, _⟩ := TcpSt.accept_prefix true {} s' xs ys h
  have hr := TcpSt.accept_is_run true {} m xs hm
  have hb := tcp_bounded xs
  have hq := tcp_quiescent xs
  simp only at hb hq
  rw [hr] at hb hq
  exact ⟨m, hm, hb.2.2.1, hb.2.1, hb.2.2.2, fun h0 => (hq h0).1⟩

/-- non-vacuity: two connections, interleaved -/
example : (TcpSt.accept true {} [.connect, .connect, .chunk 1, .replyDone 0, .eof 0, .finish 0, .replyDone 1, .replyDone 1]).map (fun s => (s.tasks, s.retained))
    = some (1, 0) := by decide

end Tickit
