/-
C05, C09, C04, C06 for EVERY any-order execution, at every nesting level.

`Core/Sim.lean` answers the pending dispatches of every scheduler level first-in first-out; the
whole-simulation theorems `Props/C05` (initial tick), `Props/C09` (nesting is transparent),
`Props/C04Mono` (time never runs backwards), `Props/C06` (a system reports its minimal inner wakeup)
are stated for that model.  `Core/SimAny.lean` (`TickLevelAny` / `MasterInitialAny` / `MasterRunAny`)
lets every level, at every depth, answer ANY pending dispatch next, which is what the code does:

    # core/management/schedulers/base.py
    async def handle_message(self, message):          # runs for whichever message the bus delivers next
        if isinstance(message, Output):
            await self.ticker.propagate(message)
            if message.call_at is not None:
                self.add_wakeup(message.source, message.call_at)
        elif isinstance(message, Skip):
            await self.ticker.propagate(message)

This file transfers the FIFO theorems to every any-order execution.  Nothing is re-proved: each
corollary combines the FIFO theorem with
 * `masterInitialAny_fifo` / `masterRunAny_fifo` / `tickLevelAny_fifo` (`Lemmas/AnyTransferFifo.lean`,
   from `any_order_fifo_exists`, `any_order_run_has_fifo`): the FIFO model completes whatever has an
   any-order execution, so NO corollary assumes anything about the FIFO model;
 * determinism (`nested_any_order_deterministic`, `any_order_run_deterministic`): every execution ends
   in a state equivalent to the FIFO model's; and
 * `Lemmas/AnyTransferLemmas.lean`: what the FIFO theorems talk about (update counts, observation
   times, `SimSt.Good`, `RunNoPast`, wakeups as mappings) is invariant under that equivalence.

The C02 part (same dispatches in every execution) is in `Props/AnyTransferC02.lean`, the run-level
C06 part in `Props/AnyTransferC06.lean`, the non-vacuity examples in `Props/AnyTransferEx.lean`.
-/
import TickitModel.Lemmas.AnyTransferFifo
import TickitModel.Props.C08NestedAny
import TickitModel.Props.C08NestedAnyRun
import TickitModel.Props.C01NestedAny
import TickitModel.Props.C05
import TickitModel.Props.C09
import TickitModel.Props.C04Mono
import TickitModel.Props.C06

namespace Tickit

open TimeMono

/-! ## C05 — the initial tick -/

/-- **C05 for every answer order.**  In EVERY execution of the initial tick of a valid
configuration — whatever the order in which the master and every system simulation, at every depth,
handle their components' answers — every device at every depth has been updated exactly once, at the
initial time (its observation sequence is one entry stamped `t0`), nothing else was updated (every
entry of the global observation log is a device's, at `t0`), every system simulation's scheduler
has done its own initial tick (`firstDone`), and the tick is recorded at `t0`.  For the code:
`MasterScheduler.run_forever` → `_do_initial_tick` reaches every device exactly once, however the
bus interleaves the messages. -/
theorem any_order_initial_tick_complete (S : Static) (hS : S.Valid) (orc : Oracle) (t0 : SimTime)
    (now : Int) (r0 : MasterSt × TickRec) (h : MasterInitialAny S orc t0 now r0) :
    (∀ d, S.isDevice d → ∃ ins, r0.1.sim.obsOf d = [(t0, ins)]) ∧
    (∀ d, S.isDevice d → r0.1.sim.updates d = 1) ∧
    (∀ o ∈ r0.1.sim.obs, o.time = t0 ∧ S.isDevice o.comp) ∧
    (∀ s, S.isSys s = true → (r0.1.sim.sched s).firstDone = true) ∧
    r0.2.time = t0 := by
  obtain ⟨F, hF⟩ := masterInitialAny_fifo hS h
  obtain ⟨m, tr, hmi, heq, htr⟩ := hF F (Nat.le_refl _)
  obtain ⟨c1, c2, c3⟩ := initial_tick_complete S hS.toWF orc F t0 now m tr hmi
  have hone : ∀ d, S.isDevice d → ∃ ins, r0.1.sim.obsOf d = [(t0, ins)] := by
    intro d hd
    have hlen : (m.sim.obsOf d).length = 1 := by rw [SimSt.obsOf_length]; exact c1 d hd
    obtain ⟨⟨t, i⟩, hti⟩ := List.length_eq_one_iff.1 hlen
    have hmem : (t, i) ∈ m.sim.obsOf d := by rw [hti]; simp
    obtain ⟨o, ho, _, he⟩ := SimSt.mem_obsOf.1 hmem
    have ht : t = t0 := by
      have := (c2 o ho).1
      cases he
      exact this
    subst ht
    have hob : ObsEq (r0.1.sim.obsOf d) (m.sim.obsOf d) := (heq.sim d).ob
    rw [hti] at hob
    obtain ⟨i', hi', _⟩ := obsEq_singleton hob
    exact ⟨i', hi'⟩
  refine ⟨hone, ?_, ?_, ?_, ?_⟩
  · intro d hd
    obtain ⟨ins, hins⟩ := hone d hd
    rw [← SimSt.obsOf_length, hins]
    rfl
  · intro o ho
    obtain ⟨o', ho', hc, ht, _⟩ := heq.sim.obs_mem ho
    obtain ⟨h1, h2⟩ := c2 o' ho'
    exact ⟨ht ▸ h1, hc ▸ h2⟩
  · intro s hs
    have hf : (r0.1.sim.sched s).firstDone = (m.sim.sched s).firstDone := (heq.sim s).sch.first
    rw [hf]
    exact initial_tick_marks_systems S hS.toWF orc F t0 now m tr hmi s hs (hS.sys_parent s hs)
  · rw [htr]; exact c3

/-- **`tickLevel_once` for every answer order** (the inner tick lies inside the outer tick, at the
same time — C04's nesting clause): an execution of a tick of any level appends observations to the
global log, every one of them made by a component below the level and stamped with the tick's
time, at most one per device.  So a tick, at whatever depth, has ONE time. -/
theorem any_order_tick_one_time (S : Static) (hS : S.Valid) (orc : Oracle) (lvl : Comp) (t : SimTime)
    (roots : List Comp) (inCh : List (Port × V)) (hn : (akeys inCh).Nodup) (st : SimSt)
    (r : SimSt × List (Port × V)) (h : TickLevelAny S orc lvl t roots inCh st r) :
    (∀ d, r.1.updates d ≤ st.updates d + 1) ∧
    ∃ new, r.1.obs = st.obs ++ new ∧ ∀ o ∈ new, o.time = t ∧ S.Below lvl o.comp := by
  refine ⟨fun d => ?_, ?_⟩
  · rw [← SimSt.obsOf_length, ← SimSt.obsOf_length]
    exact any_order_updates_le S hS orc lvl t roots inCh hn st r h d
  · obtain ⟨new, hnew, hbelow, _⟩ := any_order_update_order S hS orc lvl t roots inCh hn st r h
    refine ⟨new, hnew, fun o ho => ⟨?_, hbelow o ho⟩⟩
    have hap := SimSt.obsOf_append hnew o.comp
    have hmem : (o.time, o.inputs) ∈
        (new.filter (fun o' => o'.comp == o.comp)).map (fun o => (o.time, o.inputs)) :=
      List.mem_map.2 ⟨o, List.mem_filter.2 ⟨ho, by simp⟩, rfl⟩
    rcases any_order_update_at_most_once S hS orc lvl t roots inCh hn st r h o.comp with h0 | ⟨m, h1⟩
    · rw [h0] at hap
      have := List.self_eq_append_right.1 hap
      rw [this] at hmem
      cases hmem
    · rw [h1] at hap
      have := List.append_cancel_left hap
      rw [← this] at hmem
      simp only [List.mem_singleton, Prod.mk.injEq] at hmem
      exact hmem.1

/-! ## C09 — nesting is transparent -/

/-- the flattening of a valid configuration whose initial tick has an any-order execution is a valid
configuration -/
theorem any_order_flatten_valid (S : Static) (hS : S.Valid) (orc : Oracle) (rfuel : Nat)
    (hr : S.ResolveStable rfuel) (t0 : SimTime) (now : Int) (r0 : MasterSt × TickRec)
    (h : MasterInitialAny S orc t0 now r0) : (S.flatten rfuel).Valid := by
  obtain ⟨F, hF⟩ := masterInitialAny_fifo hS h
  obtain ⟨m, tr, hmi, _, _⟩ := hF F (Nat.le_refl _)
  exact hS.flatten (masterInitial_facts hS hr hmi).flatRank

/-- **C09 for every answer order, initial tick.**  ANY execution of the initial tick of a valid
nested configuration and ANY execution of the initial tick of its flattening give every device the
same observation (same time, same inputs as a mapping): values cross system boundaries within the
tick whatever the message orders inside the system simulations. -/
theorem any_order_nesting_transparent_initial (S : Static) (hS : S.Valid) (orc : Oracle) (rfuel : Nat)
    (hr : S.ResolveStable rfuel) (t0 : SimTime) (now : Int) (r0 q0 : MasterSt × TickRec)
    (h : MasterInitialAny S orc t0 now r0) (g : MasterInitialAny (S.flatten rfuel) orc t0 now q0) :
    ∀ d, ObsEq (r0.1.sim.obsOf d) (q0.1.sim.obsOf d) := by
  obtain ⟨F, hF⟩ := masterInitialAny_fifo hS h
  obtain ⟨m, tr, hmi, heq, _⟩ := hF F (Nat.le_refl _)
  have hS' : (S.flatten rfuel).Valid := hS.flatten (masterInitial_facts hS hr hmi).flatRank
  obtain ⟨fuel', m', tr', hmi', hobs⟩ := nesting_transparent_initial S hS orc F rfuel hr t0 now m tr hmi
  obtain ⟨e1, _⟩ := masterInitialAny_det hS' g (masterInitial_any _ orc fuel' t0 now _ hmi')
  intro d
  exact obsEq_trans (heq.sim d).ob (obsEq_trans (hobs d) (obsEq_symm (e1.sim d).ob))

/-- **C09 for every answer order, whole runs (callbacks).**  For a valid nested configuration `S` and
its flattening `S.flatten rfuel` (resolution fuel sufficient): ANY any-order run of `S` and ANY
any-order run of the flattening — same recorded device responses, initial time, speed, step and tick
bounds, no external stimuli; every tick of either run an arbitrary execution, any answer order at
every level — have the same tick times (simulation and real) and give every device, at whatever
depth it lives in `S`, the same sequence of observations.  For the code: wrapping devices into
system simulations changes nothing observable, whatever the delivery orders on either side. -/
theorem any_order_nesting_transparent_run (S : Static) (hS : S.Valid) (orc : Oracle)
    (fuel1 fuel2 rfuel : Nat) (hr : S.ResolveStable rfuel) (t0 : SimTime) (now : Int) (sp : Speed)
    (steps nTicks : Nat) (r0 q0 : MasterSt × TickRec) (r q : MasterSt × List TickRec)
    (h1 : MasterInitialAny S orc t0 now r0)
    (h2 : MasterRunAny S orc fuel1 sp steps nTicks r0.1 [] [r0.2] r)
    (g1 : MasterInitialAny (S.flatten rfuel) orc t0 now q0)
    (g2 : MasterRunAny (S.flatten rfuel) orc fuel2 sp steps nTicks q0.1 [] [q0.2] q) :
    r.2.map (·.time) = q.2.map (·.time) ∧ r.2.map (·.real) = q.2.map (·.real) ∧
      ∀ d, ObsEq (r.1.sim.obsOf d) (q.1.sim.obsOf d) := by
  obtain ⟨F, hF⟩ := masterRunAny_fifo hS h1 h2
  obtain ⟨m, tr, m2, ticks, hmi, hmr, _, _, heq, hticks⟩ := hF F (Nat.le_refl _)
  have hS' : (S.flatten rfuel).Valid := hS.flatten (masterInitial_facts hS hr hmi).flatRank
  obtain ⟨fuel', m', tr', m2', ticks', hmi', hmr', ht, hre, hobs⟩ :=
    nesting_transparent_run S hS orc F rfuel hr t0 now sp steps nTicks m m2 tr ticks hmi hmr
  obtain ⟨_, qt, qo⟩ := any_order_run_agrees_with_fifo (S.flatten rfuel) hS' orc fuel' t0 now sp steps
    nTicks [] m' m2' tr' ticks' hmi' hmr' q0 q g1 (masterRunAny_fuel_irrel g2)
  refine ⟨?_, ?_, fun d => ?_⟩
  · rw [hticks.times.1, ht, qt.times.1]
  · rw [hticks.times.2, hre, qt.times.2]
  · exact obsEq_trans (heq.sim d).ob (obsEq_trans (hobs d) (obsEq_symm (qo d)))

/-- C09 for every answer order, with the computable resolution fuel bound `S.resolveFuel`. -/
theorem any_order_nesting_transparent_run_fuel (S : Static) (hS : S.Valid) (orc : Oracle)
    (fuel1 fuel2 rfuel : Nat) (hr : S.resolveFuel ≤ rfuel) (t0 : SimTime) (now : Int) (sp : Speed)
    (steps nTicks : Nat) (r0 q0 : MasterSt × TickRec) (r q : MasterSt × List TickRec)
    (h1 : MasterInitialAny S orc t0 now r0)
    (h2 : MasterRunAny S orc fuel1 sp steps nTicks r0.1 [] [r0.2] r)
    (g1 : MasterInitialAny (S.flatten rfuel) orc t0 now q0)
    (g2 : MasterRunAny (S.flatten rfuel) orc fuel2 sp steps nTicks q0.1 [] [q0.2] q) :
    r.2.map (·.time) = q.2.map (·.time) ∧ r.2.map (·.real) = q.2.map (·.real) ∧
      ∀ d, ObsEq (r.1.sim.obsOf d) (q.1.sim.obsOf d) :=
  any_order_nesting_transparent_run S hS orc fuel1 fuel2 rfuel (hS.resolveStable hr) t0 now sp steps
    nTicks r0 q0 r q h1 h2 g1 g2

/-- **the flattening can follow**: whenever the nested configuration has an any-order run, its
flattening has one of the same length (so the previous theorem is not vacuous on the flat side);
by the previous theorem ALL runs of the flattening then agree with it. -/
theorem any_order_flatten_run_exists (S : Static) (hS : S.Valid) (orc : Oracle) (fuel1 rfuel : Nat)
    (hr : S.ResolveStable rfuel) (t0 : SimTime) (now : Int) (sp : Speed) (steps nTicks : Nat)
    (r0 : MasterSt × TickRec) (r : MasterSt × List TickRec)
    (h1 : MasterInitialAny S orc t0 now r0)
    (h2 : MasterRunAny S orc fuel1 sp steps nTicks r0.1 [] [r0.2] r) :
    ∃ fuel2 q0 q, MasterInitialAny (S.flatten rfuel) orc t0 now q0 ∧
      MasterRunAny (S.flatten rfuel) orc fuel2 sp steps nTicks q0.1 [] [q0.2] q := by
  obtain ⟨F, hF⟩ := masterRunAny_fifo hS h1 h2
  obtain ⟨m, tr, m2, ticks, hmi, hmr, _⟩ := hF F (Nat.le_refl _)
  obtain ⟨fuel', m', tr', m2', ticks', hmi', hmr', _⟩ :=
    nesting_transparent_run S hS orc F rfuel hr t0 now sp steps nTicks m m2 tr ticks hmi hmr
  obtain ⟨a1, a2⟩ := fifo_run_is_any (S.flatten rfuel) orc fuel' t0 now sp steps nTicks m' m2' tr' []
    ticks' hmi' hmr'
  exact ⟨fuel', (m', tr'), (m2', ticks'), a1, a2⟩

/-! ## C04 — time never runs backwards -/

/-- every state reached by an any-order run (no external stimuli) satisfies the bookkeeping invariant
(update counter = number of observations, every wakeup map a dict); if no device asks to be called
back in the past, no master wakeup lies before the ticker time and no recorded tick after it. -/
theorem any_order_wake_not_before (S : Static) (hS : S.Valid) (orc : Oracle) (fuel0 : Nat)
    (t0 : SimTime) (now : Int) (sp : Speed) (steps nTicks : Nat) (r0 : MasterSt × TickRec)
    (r : MasterSt × List TickRec) (h1 : MasterInitialAny S orc t0 now r0)
    (h2 : MasterRunAny S orc fuel0 sp steps nTicks r0.1 [] [r0.2] r)
    (hnp : RunNoPast orc r.1.sim) :
    r.1.sim.Good ∧ (∀ e ∈ (r.1.sim.sched "").wake, r.1.tickerTime ≤ e.2) ∧
    (∀ x ∈ r.2, x.time ≤ r.1.tickerTime) ∧ (r.2.map (·.time)).Pairwise (· ≤ ·) := by
  obtain ⟨F, hF⟩ := masterRunAny_fifo hS h1 h2
  obtain ⟨m, tr, m2, ticks, hmi, hmr, _, _, heq, hticks⟩ := hF F (Nat.le_refl _)
  obtain ⟨g1, g2, g3, g4⟩ := sim_wake_not_before S orc F t0 now sp steps nTicks [] m m2 tr ticks hmi hmr
    (RunNoPast.of_equiv heq.sim hnp)
  refine ⟨SimSt.Good.of_equiv heq.sim g1, ?_, ?_, ?_⟩
  · intro e he
    have hs : (r.1.sim.sched "").Equiv (m2.sim.sched "") := (heq.sim "").sch
    have hl : alookup (r.1.sim.sched "").wake e.1 = some e.2 :=
      (alookup_eq_some_iff _ hs.ua e.1 e.2).2 he
    have hl' : alookup (m2.sim.sched "").wake e.1 = some e.2 := by rw [← hs.wake e.1]; exact hl
    rw [heq.tickerTime]
    exact g2 (e.1, e.2) ((alookup_eq_some_iff _ hs.ub e.1 e.2).1 hl')
  · intro x hx
    have hxm : x.time ∈ r.2.map (·.time) := List.mem_map.2 ⟨x, hx, rfl⟩
    rw [hticks.times.1] at hxm
    obtain ⟨y, hy, hyt⟩ := List.mem_map.1 hxm
    rw [heq.tickerTime, ← hyt]
    exact g3 y hy
  · rw [hticks.times.1]; exact g4

/-- **C04 for every answer order.**  In EVERY any-order run of a valid configuration (initial tick +
callback ticks, nested schedulers at any depth, every tick an arbitrary execution), provided no
device asks to be called back in the past (`RunNoPast` on the run's own final state), successive
tick times never decrease.  No assumption on the FIFO model. -/
theorem any_order_time_monotone (S : Static) (hS : S.Valid) (orc : Oracle) (fuel0 : Nat)
    (t0 : SimTime) (now : Int) (sp : Speed) (steps nTicks : Nat) (r0 : MasterSt × TickRec)
    (r : MasterSt × List TickRec) (h1 : MasterInitialAny S orc t0 now r0)
    (h2 : MasterRunAny S orc fuel0 sp steps nTicks r0.1 [] [r0.2] r)
    (hnp : RunNoPast orc r.1.sim) :
    (r.2.map (·.time)).Pairwise (· ≤ ·) :=
  (any_order_wake_not_before S hS orc fuel0 t0 now sp steps nTicks r0 r h1 h2 hnp).2.2.2

/-! ### C04 inside one tick: no `call_at` before the tick's time, at any depth -/

/-- **`system_callAt_not_past` for every answer order.**  One tick of scheduler level `lvl` at time
`t`, any answer order at the level and at every level below, started in a well-formed state; no
device asks to be called back in the past.  Then the state stays well-formed, every wakeup entry of
every scheduler level after the tick was there before or is `≥ t`, and if no entry of level `lvl`
was before `t` when the tick began, none is afterwards. -/
theorem any_order_system_callAt_not_past (S : Static) (hS : S.Valid) (orc : Oracle) (lvl : Comp)
    (t : SimTime) (roots : List Comp) (inCh : List (Port × V)) (hn : (akeys inCh).Nodup) (st : SimSt)
    (r : SimSt × List (Port × V)) (h : TickLevelAny S orc lvl t roots inCh st r)
    (hg : st.Good) (hnp : RunNoPast orc r.1) :
    r.1.Good ∧
    (∀ l e, e ∈ (r.1.sched l).wake → e ∈ (st.sched l).wake ∨ t ≤ e.2) ∧
    ((∀ e ∈ (st.sched lvl).wake, t ≤ e.2) → ∀ e ∈ (r.1.sched lvl).wake, t ≤ e.2) := by
  obtain ⟨F, hF⟩ := tickLevelAny_fifo hS hn hg.wakeWF h
  obtain ⟨⟨st', out⟩, hrf, heq, _⟩ := hF F (Nat.le_refl _)
  obtain ⟨g1, g2, g3⟩ := system_callAt_not_past S orc F lvl t roots inCh st st' out hrf hg
    (RunNoPast.of_equiv heq hnp)
  refine ⟨SimSt.Good.of_equiv heq g1, ?_, ?_⟩
  · intro l e he
    exact g2 l e (((heq.sched l).mem_wake e).1 he)
  · intro hall e he
    exact g3 hall e (((heq.sched lvl).mem_wake e).1 he)

/-- **`nested_tick_callAt_not_past` for every answer order.**  `sysPre st c t` is the state in which
`NestedScheduler.on_tick` starts the inner tick of system `c` at time `t` (due wakeups removed,
queued interrupts taken).  After ANY execution of that inner tick no wakeup of the nested level lies
before `t`, hence the `call_at` with which the system component answers its enclosing level
(`sysCallAt`) is never before `t`. -/
theorem any_order_nested_tick_callAt_not_past (S : Static) (hS : S.Valid) (orc : Oracle) (c : Comp)
    (t : SimTime) (roots : List Comp) (ins : List (Port × V)) (hn : (akeys ins).Nodup) (st : SimSt)
    (r : SimSt × List (Port × V)) (hg : st.Good)
    (h : TickLevelAny S orc c t roots ins (sysPre st c t) r) (hnp : RunNoPast orc r.1) :
    (∀ e ∈ (r.1.sched c).wake, t ≤ e.2) ∧ ∀ w, sysCallAt r.1 c t = some w → t ≤ w := by
  obtain ⟨hg1, _, _⟩ := nestedPrep_ok st c t hg
  obtain ⟨F, hF⟩ := tickLevelAny_fifo hS hn (sysPre_eq_nestedPrep st c t ▸ hg1.wakeWF) h
  obtain ⟨⟨st2, out⟩, hrf, heq, _⟩ := hF F (Nat.le_refl _)
  rw [sysPre_eq_nestedPrep] at hrf
  obtain ⟨g1, g2⟩ := nested_tick_callAt_not_past S orc F c t roots ins st st2 out hg hrf
    (RunNoPast.of_equiv heq hnp)
  refine ⟨fun e he => g1 e (((heq.sched c).mem_wake e).1 he), fun w hw => ?_⟩
  rw [sysCallAt_congr (heq.sched c) t] at hw
  exact g2 w hw

/-- **`answer_callAt_not_past` for every answer order**: the `call_at` that ANY component — device
or system simulation, at any depth, its inner tick any execution — returns to its enclosing level
in a tick at time `t` is `≥ t`, provided no device asks to be called back in the past. -/
theorem any_order_answer_callAt_not_past (S : Static) (hS : S.Valid) (orc : Oracle) (L : Level)
    (inCh : List (Port × V)) (st : SimSt) (out0 : List (Port × V)) (d : Dispatch V)
    (hd : Det.InsNodup d) (st' : SimSt) (outCh' changes : List (Port × V)) (w : SimTime)
    (h : AnswerAny S orc L inCh st out0 d (st', outCh', changes, some w))
    (hg : st.Good) (hnp : RunNoPast orc st') : d.time ≤ w := by
  generalize hca : (some w : Option SimTime) = ca at h
  cases h with
  | skip => cases hca
  | external _ => cases hca
  | expose _ _ => cases hca
  | @sys _ _ _ _ c t ins st2 outCh _ _ _ htl =>
    exact (any_order_nested_tick_callAt_not_past S hS orc c t _ ins hd st (st', changes) hg htl hnp).2 w
      hca.symm
  | @dev _ _ _ _ c t ins resp _ _ _ hresp _ =>
    exact hnp c (agetD st.count c 0) w ⟨resp, hresp, hca.symm⟩ _ (devAfter_obs_getElem? hg c t ins resp)

/-! ## C06 — what a system component reports upward -/

/-- **`system_callback_is_min` for every answer order.**  When a system component `c` answers its
enclosing level at tick time `t` — its inner tick ANY execution, from a state whose wakeup maps are
dicts — the `call_at` it reports is: the tick time `t` while interrupts are queued in its scheduler;
otherwise the MINIMUM of its scheduler's wakeups (some inner component holds exactly that time, none
holds an earlier one), and nothing if it has no wakeups.  The wakeups of `c`'s scheduler form a dict.
(`nested.py`: `_, call_at = self.get_first_wakeups()`.) -/
theorem any_order_system_callback_is_min (S : Static) (hS : S.Valid) (orc : Oracle) (L : Level)
    (inCh : List (Port × V)) (st : SimSt) (hwf : st.WakeWF) (out0 : List (Port × V)) (c : Comp)
    (t : SimTime) (ins : List (Port × V))
    (h1 : (L.name != "" && c == pseudoExternal) = false)
    (h2 : (L.name != "" && c == pseudoExpose) = false) (h3 : S.isSys c = true)
    (st2 : SimSt) (outCh' changes : List (Port × V)) (ca : Option SimTime)
    (h : AnswerAny S orc L inCh st out0 (.input c t ins) (st2, outCh', changes, ca)) :
    UniqueKeys (st2.sched c).wake ∧
    ((st2.sched c).interrupts ≠ [] → ca = some t) ∧
    ((st2.sched c).interrupts = [] →
      (∀ m, ca = some m → (∃ x, alookup (st2.sched c).wake x = some m) ∧
        ∀ x t', alookup (st2.sched c).wake x = some t' → m ≤ t') ∧
      (ca = none → (st2.sched c).wake = [])) := by
  cases h with
  | external e1 => rw [h1] at e1; cases e1
  | expose _ e2 => rw [h2] at e2; cases e2
  | dev _ _ e3 _ _ => rw [h3] at e3; cases e3
  | sys _ _ _ htl =>
    have hu : UniqueKeys (st2.sched c).wake :=
      (any_order_frame S hS orc c t _ ins _ _ htl).2.1 (hwf.sysPre c t) c
    refine ⟨hu, ?_, ?_⟩
    · intro hne
      unfold sysCallAt
      simp only []
      rw [if_neg (by simpa using hne)]
    · intro he
      have hca : sysCallAt st2 c t = (firstWakeups (st2.sched c).wake).2 := by
        unfold sysCallAt
        simp only []
        rw [if_pos (by simp [he])]
      rw [hca]
      exact ⟨fun m hm => system_callback_is_min _ hu m hm, fun hn => (firstWakeups_none _).1 hn⟩

/-- **`nestedDue_exact` for every answer order**: in a state whose wakeup maps are dicts (every state
of an any-order run, `any_order_run_wakeWF`), if the minimum wakeup of system `c` — what `c` reported
to its parent — is the tick time `t`, the roots `NestedScheduler.on_tick` selects for the inner tick
are exactly: the queued interrupts, the components whose wakeup is exactly `t`, `external`, and (in
the system's first tick only) all components. -/
theorem any_order_nestedDue_exact (S : Static) (st : SimSt) (hwf : st.WakeWF) (c : Comp) (t : SimTime)
    (hmin : (firstWakeups (st.sched c).wake).2 = some t) (x : Comp) :
    x ∈ sysRoots S st c t ↔
      x ∈ (st.sched c).interrupts ∨ alookup (st.sched c).wake x = some t ∨ x = pseudoExternal ∨
        ((st.sched c).firstDone = false ∧ ∃ Lc, S.level c = some Lc ∧ x ∈ Lc.wiring.components) := by
  unfold sysRoots
  simp only [mem_sunion, List.mem_singleton]
  rw [nestedDue_exact _ (hwf c) t hmin x]
  cases hfd : (st.sched c).firstDone with
  | true => simp [or_assoc]
  | false =>
    cases hl : S.level c with
    | none => simp [or_assoc]
    | some Lc => simp [or_assoc]

/-- in every state reached by an any-order run every scheduler's wakeup map, at every depth, is a dict
(one entry per component) — without any hypothesis on the devices -/
theorem any_order_run_wakeWF (S : Static) (hS : S.Valid) (orc : Oracle) (fuel0 : Nat)
    (t0 : SimTime) (now : Int) (sp : Speed) (steps nTicks : Nat) (stims : List Stim)
    (r0 : MasterSt × TickRec) (r : MasterSt × List TickRec) (h1 : MasterInitialAny S orc t0 now r0)
    (h2 : MasterRunAny S orc fuel0 sp steps nTicks r0.1 stims [r0.2] r) : r.1.sim.WakeWF :=
  (any_order_run_deterministic S hS orc fuel0 t0 now sp steps nTicks stims r0 r0 r r h1 h1 h2
    h2).1.sim.wakeWF_left

end Tickit
