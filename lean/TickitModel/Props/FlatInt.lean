/-
The flat multi-tick system WITH INTERRUPTS BETWEEN TICKS (`FlatRunI`, `Core/FlatInt.lean`): the
run-level theorems proved for `FlatRun` (callback ticks only) transferred to histories of callbacks
AND external stimuli.

A history is the initial tick followed by a script of `FAct`s in chronological order:
`.tick` = the scheduler step of `FlatRun.tick`; `.interrupt c stamp` = an adapter of `c` raises an
interrupt, the master scheduler stamps it and records the wakeup `min (wakeup of c) stamp`
(`intWake`, the `.interrupt` case of `MSt.step`).

* T0 `flatRun_is_flatRunI`, `flatRunI_no_interrupt` — `FlatRun` is exactly the interrupt-free part.
* T1 `synced_runI`, `inputs_latest_tickI`, `inputs_latest_runI` — C03 with interrupts.
* T2 `schedule_independentI` — C08 with the same stimuli at the same points of the history.
* T3 `wake_not_beforeI`, `time_monotoneI`, `pending_not_overtakenI` — C04 under `StampsTimely`;
  `time_not_monotone_untimely` is the checked counterexample without it.
* T4 `interrupt_served` (+ `wakeup_exactI`, `wakeup_never_overtakenI`, `wakeup_first_updateI`,
  `interrupt_never_overtaken`, `interrupt_first_update`) — C07 at flat run level: an interrupt is
  never lost and never overtaken.  What is true about the entry: it may be LOWERED by a later
  interrupt of the same component, never raised: while `c` is not updated its entry is exactly
  `lowered c e script` (the minimum of `e` and the stamps of `c`'s later interrupts).
  `entry_below_earlier_tick` is the checked counterexample to "all tick times so far are `<` the
  CURRENT entry" (true only for `e`, the entry when the interrupt was recorded, and — with `≤` —
  under `StampsTimely`/`NoPastCallbacks`: `pending_not_overtakenI`).
* T5 `wake_entry_provenanceI`, `tick_provenanceI` — C06 "never invented" with interrupts.
* also: `wakeups_served_one_tickI` (C06 R2: simultaneous wakeups — callbacks and interrupts — are
  served by ONE tick), `flatRunI_can_continue`, `interrupt_next_tick`.
* non-vacuity: `exI_run` and the `example`s at the end.

Helper lemmas: `Lemmas/FlatIntLemmas.lean` (namespace `Tickit.FlatInt`).
-/
import TickitModel.Lemmas.FlatIntLemmas
import TickitModel.Props.C03
import TickitModel.Props.C06Run

namespace Tickit

open Callback

variable {Val : Type} [DecidableEq Val]

/-! ### T0: `FlatRun` is the interrupt-free fragment of `FlatRunI` -/

/-- **T0.**  A `FlatRun` of `n` callback ticks is the same thing as a `FlatRunI` whose script is
`n` times `.tick`. -/
theorem flatRun_is_flatRunI (w : Wiring) (devs : DevSeq Val) (t0 : SimTime) (n : Nat)
    (st : FlatSt Val) (times : List SimTime) :
    FlatRun w devs t0 n st times ↔
      FlatRunI w devs t0 (List.replicate n FAct.tick) n st times := by
  constructor
  · exact FlatInt.of_flatRun
  · intro h
    exact (FlatInt.to_flatRun h (fun a ha => (List.mem_replicate.1 ha).2)).1

/-- conversely, a `FlatRunI` whose script contains no interrupt is a `FlatRun` (and its script is
`n` times `.tick`). -/
theorem flatRunI_no_interrupt (w : Wiring) (devs : DevSeq Val) (t0 : SimTime) (sc : List FAct)
    (n : Nat) (st : FlatSt Val) (times : List SimTime) (h : FlatRunI w devs t0 sc n st times)
    (hsc : ∀ c stamp, FAct.interrupt c stamp ∉ sc) :
    FlatRun w devs t0 n st times ∧ sc = List.replicate n FAct.tick := by
  refine FlatInt.to_flatRun h (fun a ha => ?_)
  cases a with
  | tick => rfl
  | interrupt c stamp => exact absurd ha (hsc c stamp)

/-- bookkeeping: `n` is the number of ticks of the script; there are `n + 1` tick times. -/
theorem flatRunI_counts (w : Wiring) (devs : DevSeq Val) (t0 : SimTime) (sc : List FAct) (n : Nat)
    (st : FlatSt Val) (times : List SimTime) (h : FlatRunI w devs t0 sc n st times) :
    sc.count FAct.tick = n ∧ times.length = n + 1 := by
  exact FlatInt.flatRunI_counts h

/-! ### continuations -/

/-- a continuation of a run is a run (scripts are concatenated) … -/
theorem continuationI_is_run (w : Wiring) (devs : DevSeq Val) (t0 : SimTime) (sc0 sc : List FAct)
    (n n' : Nat) (st st' : FlatSt Val) (times times' : List SimTime)
    (hrun : FlatRunI w devs t0 sc0 n st times)
    (hext : FlatExtI w devs n st times sc n' st' times') :
    FlatRunI w devs t0 (sc0 ++ sc) n' st' times' := by
  exact FlatInt.FlatExtI.flatRunI hext hrun

/-- … and every run whose script has the prefix `sc0` is a continuation of a run with script
`sc0`: quantifying over continuations is quantifying over all longer scripts. -/
theorem runI_is_continuation (w : Wiring) (devs : DevSeq Val) (t0 : SimTime) (sc0 sc : List FAct)
    (n' : Nat) (st' : FlatSt Val) (times' : List SimTime)
    (hrun : FlatRunI w devs t0 (sc0 ++ sc) n' st' times') :
    ∃ n st times, FlatRunI w devs t0 sc0 n st times ∧
      FlatExtI w devs n st times sc n' st' times' := by
  exact FlatInt.flatRunI_split hrun sc0 sc rfl

/-! ### T1: C03 with interrupts -/

/-- **T1.**  The invariant of C03 holds after every action of every run with interrupts
(an interrupt changes only `wake`, which `Synced` does not mention). -/
theorem synced_runI (w : Wiring) (hw : RouterOK w) (devs : DevSeq Val) (t0 : SimTime)
    (sc : List FAct) (n : Nat) (st : FlatSt Val) (times : List SimTime)
    (hrun : FlatRunI w devs t0 sc n st times) : Synced w st := by
  exact (FlatInt.runI_inv hw hrun).1

/-- only components of the wiring ever have a wakeup entry. -/
theorem wake_keys_componentsI (w : Wiring) (hw : RouterOK w) (devs : DevSeq Val) (t0 : SimTime)
    (sc : List FAct) (n : Nat) (st : FlatSt Val) (times : List SimTime)
    (hrun : FlatRunI w devs t0 sc n st times) : ∀ c ∈ akeys st.wake, c ∈ w.components := by
  exact (FlatInt.runI_inv hw hrun).2

/-- **C03 for a tick after any history of callbacks and interrupts**: every observation made in
the tick — whether the tick serves a callback or an interrupt — holds for each wired input port the
most recent value ever reported on the upstream output, and has no other key. -/
theorem inputs_latest_tickI (w : Wiring) (hw : RouterOK w) (hacyc : w.Acyclic) (devs : DevSeq Val)
    (t0 : SimTime) (sc : List FAct) (n : Nat) (st : FlatSt Val) (times : List SimTime)
    (hrun : FlatRunI w devs t0 sc n st times) (cs : List Comp) (m : SimTime) (st' : FlatSt Val)
    (hf : firstWakeups st.wake = (cs, some m))
    (htick : TickRun w (devs (n + 1)) { st with wake := delWakeups st.wake cs } m cs st')
    (c : Comp) (t' : SimTime) (given : List (Port × Val))
    (hobs : (c, t', given) ∈ st'.obs) (hnew : (c, t', given) ∉ st.obs) :
    t' = m ∧
    (∀ a p q, w.Conn a p c q → alookup given q = alookup st'.reported (a, p)) ∧
    (∀ q v, alookup given q = some v → ∃ a p, w.Conn a p c q) := by
  obtain ⟨hsy, hkeys⟩ := FlatInt.runI_inv hw hrun
  exact inputs_latest w hw hacyc (devs (n + 1)) { st with wake := delWakeups st.wake cs } st' m cs
    (Sync.hroots_of_components (fun r hr => hkeys r (Sync.firstWakeups_sub hf r hr)))
    ⟨hsy.wired, hsy.noExtra, hsy.lastSub⟩ htick c t' given hobs hnew

/-- **C03 over a whole run with interrupts**: EVERY observation `(c, t', given)` in the log of the
final state was made by the tick that ends a prefix `sc1` of the script (the initial tick if
`sc1 = []`), at that tick's time `t'`, and `given` holds exactly the latest values reported on the
wired upstream outputs at the end of that tick. -/
theorem inputs_latest_runI (w : Wiring) (hw : RouterOK w) (hacyc : w.Acyclic) (devs : DevSeq Val)
    (t0 : SimTime) (sc : List FAct) (n : Nat) (st : FlatSt Val) (times : List SimTime)
    (hrun : FlatRunI w devs t0 sc n st times)
    (c : Comp) (t' : SimTime) (given : List (Port × Val)) (hobs : (c, t', given) ∈ st.obs) :
    ∃ (sc1 sc2 : List FAct) (n1 : Nat) (st1 : FlatSt Val) (times1 : List SimTime),
      sc = sc1 ++ sc2 ∧ (sc1 = [] ∨ ∃ sc0, sc1 = sc0 ++ [FAct.tick]) ∧
      FlatRunI w devs t0 sc1 n1 st1 times1 ∧ FlatExtI w devs n1 st1 times1 sc2 n st times ∧
      times1.head? = some t' ∧ (c, t', given) ∈ st1.obs ∧
      (∀ a p q, w.Conn a p c q → alookup given q = alookup st1.reported (a, p)) ∧
      (∀ q v, alookup given q = some v → ∃ a p, w.Conn a p c q) := by
  induction hrun with
  | @initial st htick =>
    obtain ⟨rfl, h1, h2⟩ := inputs_latest w hw hacyc (devs 0) {} st t0 w.components
      (Sync.hroots_of_components (fun r h => h)) (synced_init w) htick c t' given hobs (by simp)
    exact ⟨[], [], 0, st, [t'], rfl, Or.inl rfl, .initial htick, .refl, rfl, hobs, h1, h2⟩
  | @tick sc n st st' times cs m hprev hf htick ih =>
    by_cases hold : (c, t', given) ∈ st.obs
    · obtain ⟨sc1, sc2, n1, st1, times1, rfl, hsc1, hr, he, hh, ho, h1, h2⟩ := ih hold
      exact ⟨sc1, sc2 ++ [.tick], n1, st1, times1, by simp, hsc1, hr, he.tick hf htick, hh, ho,
        h1, h2⟩
    · obtain ⟨rfl, h1, h2⟩ := inputs_latest_tickI w hw hacyc devs t0 sc n st times hprev cs m st'
        hf htick c t' given hobs hold
      exact ⟨sc ++ [.tick], [], n + 1, st', t' :: times, by simp, Or.inr ⟨sc, rfl⟩,
        .tick hprev hf htick, .refl, rfl, hobs, h1, h2⟩
  | @interrupt sc n st times c' stamp hprev hc' ih =>
    obtain ⟨sc1, sc2, n1, st1, times1, rfl, hsc1, hr, he, hh, ho, h1, h2⟩ := ih hobs
    exact ⟨sc1, sc2 ++ [.interrupt c' stamp], n1, st1, times1, by simp, hsc1, hr,
      he.interrupt hc', hh, ho, h1, h2⟩

/-! ### T2: C08 with stimuli between ticks -/

/-- **T2.**  Two runs of the same flat simulation (same wiring, same deterministic devices, same
initial time) with the SAME script — the same stimuli at the same points of the history with the
same stamps — have the same number of ticks, the same tick times, and every device has the same
sequence of (time, inputs) observations, whatever the answer orders inside the ticks were. -/
theorem schedule_independentI (w : Wiring) (hw : RouterOK w) (hacyc : w.Acyclic)
    (devs : DevSeq Val) (hdev : ∀ k, DevExt (devs k)) (t0 : SimTime) (sc : List FAct)
    (n1 n2 : Nat) (st1 st2 : FlatSt Val) (times1 times2 : List SimTime)
    (h1 : FlatRunI w devs t0 sc n1 st1 times1) (h2 : FlatRunI w devs t0 sc n2 st2 times2) :
    n1 = n2 ∧ times1 = times2 ∧ (∀ c, ObsEq (st1.obsOf c) (st2.obsOf c)) ∧
      MapEq st1.wake st2.wake := by
  obtain ⟨hn, ht, h⟩ := FlatInt.flatRunI_loc_equiv hw hacyc hdev h1 h2
  exact ⟨hn, ht, fun c => (h c).ob, fun c => (h c).wk⟩

/-! ### T3: C04 with interrupts -/

/-- **T3a.**  If no device asks to be called back in the past and every interrupt is stamped with
a time not before the last tick that precedes it, every pending wakeup — callback or interrupt —
is at or after the time of the last tick … -/
theorem wake_not_beforeI (w : Wiring) (devs : DevSeq Val) (hpast : NoPastCallbacks devs)
    (t0 : SimTime) (sc : List FAct) (n : Nat) (st : FlatSt Val) (times : List SimTime)
    (hrun : FlatRunI w devs t0 sc n st times) (htimely : StampsTimely sc times) :
    ∃ tl rest, times = tl :: rest ∧ ∀ c t, alookup st.wake c = some t → tl ≤ t := by
  exact FlatInt.flatRunI_wake_ge hpast hrun htimely

/-- **T3b.**  … hence successive tick times never decrease, with interrupts anywhere between the
ticks. -/
theorem time_monotoneI (w : Wiring) (devs : DevSeq Val) (hpast : NoPastCallbacks devs)
    (t0 : SimTime) (sc : List FAct) (n : Nat) (st : FlatSt Val) (times : List SimTime)
    (hrun : FlatRunI w devs t0 sc n st times) (htimely : StampsTimely sc times) :
    times.Pairwise (fun later earlier => earlier ≤ later) := by
  exact FlatInt.flatRunI_time_monotone hpast hrun htimely

/-- under the same hypotheses NO tick that has happened is later than any pending wakeup. -/
theorem pending_not_overtakenI (w : Wiring) (devs : DevSeq Val) (hpast : NoPastCallbacks devs)
    (t0 : SimTime) (sc : List FAct) (n : Nat) (st : FlatSt Val) (times : List SimTime)
    (hrun : FlatRunI w devs t0 sc n st times) (htimely : StampsTimely sc times)
    (c : Comp) (t : SimTime) (hc : alookup st.wake c = some t) : ∀ m ∈ times, m ≤ t := by
  obtain ⟨tl, rest, rfl, hge⟩ := FlatInt.flatRunI_wake_ge hpast hrun htimely
  have hmono := FlatInt.flatRunI_time_monotone hpast hrun htimely
  intro m hm
  rcases List.mem_cons.1 hm with rfl | hm
  · exact hge c t hc
  · exact Int.le_trans ((List.pairwise_cons.1 hmono).1 m hm) (hge c t hc)

/-- unfolding `StampsTimely` (a recursive predicate on the script and the tick times). -/
theorem stampsTimely_iff (sc : List FAct) (times : List SimTime) :
    StampsTimely [] times ∧
    (StampsTimely (sc ++ [FAct.tick]) times ↔ StampsTimely sc times.tail) ∧
    (∀ c stamp, StampsTimely (sc ++ [FAct.interrupt c stamp]) times ↔
      (∀ tl, times.head? = some tl → tl ≤ stamp) ∧ StampsTimely sc times) := by
  exact ⟨FlatInt.stampsTimely_nil times, FlatInt.stampsTimely_snoc_tick,
    fun _ _ => FlatInt.stampsTimely_snoc_interrupt⟩

/-! ### T4: C07 at flat run level — an interrupt is never lost and never overtaken -/

/-- **R1 with interrupts.**  Let `c` have a pending wakeup `t` (callback or interrupt) after a run.
For EVERY continuation — ticks and further interrupts of any component — exactly one of the
following holds: (i) `StillPendingI`: `c` has no new observation, its entry is
`lowered c t script ≤ t`, and every new tick time is `< t`; (ii) `FirstUpdateI`: `c` was updated;
its first new observation is at `t1 ≤ lowered c t scA ≤ t`, made by the tick after the prefix `scA`
of the continuation up to which the wakeup was still pending, and `c` is a root of that tick iff
`t1` is the entry then pending. -/
theorem wakeup_exactI (w : Wiring) (hw : RouterOK w) (devs : DevSeq Val) (t0 : SimTime)
    (sc0 : List FAct) (n : Nat) (st : FlatSt Val) (times : List SimTime)
    (hrun : FlatRunI w devs t0 sc0 n st times)
    (c : Comp) (t : SimTime) (hc : alookup st.wake c = some t)
    (sc : List FAct) (n' : Nat) (st' : FlatSt Val) (times' : List SimTime)
    (hext : FlatExtI w devs n st times sc n' st' times') :
    (StillPendingI st times sc st' times' c t ∨
      FirstUpdateI w devs n st times sc n' st' times' c t) ∧
    ¬ (StillPendingI st times sc st' times' c t ∧
      FirstUpdateI w devs n st times sc n' st' times' c t) := by
  exact ⟨FlatInt.pending_or_servedI hw (FlatInt.flatRunI_uniqueKeys hrun) hc hext,
    fun h => FlatInt.not_bothI h.1 h.2⟩

/-- what `lowered` is: never above the old entry, the old entry itself if `c` was not interrupted
again, and in any case the old entry or the stamp of one of `c`'s interrupts in the script. -/
theorem lowered_spec (c : Comp) (t : SimTime) (sc sc' : List FAct) :
    lowered c t sc ≤ t ∧ lowered c t (sc ++ sc') ≤ lowered c t sc ∧
    ((∀ s, FAct.interrupt c s ∉ sc) → lowered c t sc = t) ∧
    (lowered c t sc = t ∨ FAct.interrupt c (lowered c t sc) ∈ sc) := by
  exact ⟨FlatInt.lowered_le c t sc, FlatInt.lowered_append_le c t sc sc',
    FlatInt.lowered_eq_of_no_interrupt c t sc, FlatInt.lowered_cases c t sc⟩

/-- **never overtaken**: as long as `c` has not been updated since its wakeup `t` was pending, the
wakeup is still pending — with entry `lowered c t sc ≤ t` — and no tick at a time `≥ t` has
happened. -/
theorem wakeup_never_overtakenI (w : Wiring) (hw : RouterOK w) (devs : DevSeq Val) (t0 : SimTime)
    (sc0 : List FAct) (n : Nat) (st : FlatSt Val) (times : List SimTime)
    (hrun : FlatRunI w devs t0 sc0 n st times)
    (c : Comp) (t : SimTime) (hc : alookup st.wake c = some t)
    (sc : List FAct) (n' : Nat) (st' : FlatSt Val) (newT : List SimTime)
    (hext : FlatExtI w devs n st times sc n' st' (newT ++ times))
    (hobs : st'.obsOf c = st.obsOf c) :
    alookup st'.wake c = some (lowered c t sc) ∧ lowered c t sc ≤ t ∧ ∀ m ∈ newT, m < t := by
  rcases FlatInt.pending_or_servedI hw (FlatInt.flatRunI_uniqueKeys hrun) hc hext with hp | hfu
  · obtain ⟨newT', heq, hall⟩ := hp.earlier
    have : newT = newT' := List.append_cancel_right heq
    subst this
    exact ⟨hp.pending, FlatInt.lowered_le c t sc, hall⟩
  · obtain ⟨_, _, _, _, _, _, _, _, _, rest, _, _, _, _, _, _, _, _, _, hob⟩ := hfu
    have := congrArg List.length (hobs.symm.trans hob)
    simp at this

/-- **the first update is not late**: if `c`'s first new observation in a continuation is at `t1`
then `t1 ≤ t`, a tick at `t1` is part of the continuation, and in the tick that made it `c` is a
root iff `t1` equals the entry pending then. -/
theorem wakeup_first_updateI (w : Wiring) (hw : RouterOK w) (devs : DevSeq Val) (t0 : SimTime)
    (sc0 : List FAct) (n : Nat) (st : FlatSt Val) (times : List SimTime)
    (hrun : FlatRunI w devs t0 sc0 n st times)
    (c : Comp) (t : SimTime) (hc : alookup st.wake c = some t)
    (sc : List FAct) (n' : Nat) (st' : FlatSt Val) (times' : List SimTime)
    (hext : FlatExtI w devs n st times sc n' st' times')
    (t1 : SimTime) (given : List (Port × Val)) (rest : List (SimTime × List (Port × Val)))
    (hobs : st'.obsOf c = st.obsOf c ++ (t1, given) :: rest) :
    t1 ≤ t ∧ (∃ newT, times' = newT ++ times ∧ t1 ∈ newT) ∧
    ∃ (scA scB : List FAct) (k : Nat) (stA stB : FlatSt Val) (timesA : List SimTime)
      (cs : List Comp),
      sc = scA ++ FAct.tick :: scB ∧
      FlatExtI w devs n st times scA k stA timesA ∧
      alookup stA.wake c = some (lowered c t scA) ∧ stA.obsOf c = st.obsOf c ∧
      firstWakeups stA.wake = (cs, some t1) ∧
      TickRun w (devs (k + 1)) { stA with wake := delWakeups stA.wake cs } t1 cs stB ∧
      FlatExtI w devs (k + 1) stB (t1 :: timesA) scB n' st' times' ∧
      t1 ≤ lowered c t scA ∧ (c ∈ cs ↔ t1 = lowered c t scA) := by
  rcases FlatInt.pending_or_servedI hw (FlatInt.flatRunI_uniqueKeys hrun) hc hext with hp | hfu
  · have := congrArg List.length (hp.no_new_obs.symm.trans hobs)
    simp at this
  · obtain ⟨scA, scB, k, stA, stB, timesA, cs, t1', given', rest', hsc, hA, hpA, hfA, htA, hB, hle,
      hroot, _, hob⟩ := hfu
    have heq := List.append_cancel_left (hob.symm.trans hobs)
    simp only [List.cons.injEq, Prod.mk.injEq] at heq
    obtain ⟨⟨rfl, _⟩, _⟩ := heq
    refine ⟨Int.le_trans hle (FlatInt.lowered_le c t scA), ?_, scA, scB, k, stA, stB, timesA, cs,
      hsc, hA, hpA.pending, hpA.no_new_obs, hfA, htA, hB, hle, hroot⟩
    obtain ⟨n1, h1, _⟩ := FlatInt.FlatExtI.times_eq hA
    obtain ⟨n2, h2, _⟩ := FlatInt.FlatExtI.times_eq hB
    exact ⟨n2 ++ t1' :: n1, by rw [h2, h1]; simp, by simp⟩

/-- **T4.**  After `.interrupt c stamp` the component `c` has a wakeup entry `e ≤ stamp` (`e` is
the stamp, or `c`'s earlier entry if that was lower).  In EVERY continuation of the run exactly one
of the following holds: (i) the wakeup is still pending (`StillPendingI`): `c` has not been
updated, its entry is `lowered c e script ≤ e ≤ stamp` (lowered only by further interrupts of `c`),
and all ticks since the interrupt happened at times `< e` — the interrupt is not lost and not
overtaken; (ii) `c` has been updated (`FirstUpdateI`), first by a tick at a time
`t1 ≤ lowered c e scA ≤ stamp`, of which `c` is a ROOT unless `t1` is strictly earlier than the
entry then pending (then `c` was updated as a dependant of another root). -/
theorem interrupt_served (w : Wiring) (hw : RouterOK w) (devs : DevSeq Val) (t0 : SimTime)
    (sc0 : List FAct) (c : Comp) (stamp : SimTime) (n : Nat) (st1 : FlatSt Val)
    (times : List SimTime)
    (hrun : FlatRunI w devs t0 (sc0 ++ [FAct.interrupt c stamp]) n st1 times) :
    ∃ e, alookup st1.wake c = some e ∧ e ≤ stamp ∧ c ∈ w.components ∧
      ∀ (sc : List FAct) (n' : Nat) (st' : FlatSt Val) (times' : List SimTime),
        FlatExtI w devs n st1 times sc n' st' times' →
        (StillPendingI st1 times sc st' times' c e ∨
          FirstUpdateI w devs n st1 times sc n' st' times' c e) ∧
        ¬ (StillPendingI st1 times sc st' times' c e ∧
          FirstUpdateI w devs n st1 times sc n' st' times' c e) := by
  obtain ⟨st, rfl, hcomp, _⟩ := FlatInt.inv_interrupt hrun
  obtain ⟨e, he, hle, _, _⟩ := FlatInt.intWake_self st.wake c stamp
  exact ⟨e, he, hle, hcomp, fun sc n' st' times' hext =>
    wakeup_exactI w hw devs t0 _ n _ times hrun c e he sc n' st' times' hext⟩

/-- the entry recorded by an interrupt: the stamp, unless `c` already had an earlier wakeup, which
is kept (an already due callback is not displaced, F15). -/
theorem interrupt_entry (w : Wiring) (devs : DevSeq Val) (t0 : SimTime)
    (sc0 : List FAct) (c : Comp) (stamp : SimTime) (n : Nat) (st1 : FlatSt Val)
    (times : List SimTime)
    (hrun : FlatRunI w devs t0 (sc0 ++ [FAct.interrupt c stamp]) n st1 times) :
    ∃ st, FlatRunI w devs t0 sc0 n st times ∧
      st1 = { st with wake := intWake st.wake c stamp } ∧
      (∀ c', c' ≠ c → alookup st1.wake c' = alookup st.wake c') ∧
      alookup st1.wake c = some (match alookup st.wake c with
        | some w0 => if w0 < stamp then w0 else stamp
        | none => stamp) := by
  obtain ⟨st, rfl, _, hprev⟩ := FlatInt.inv_interrupt hrun
  refine ⟨st, hprev, rfl, fun c' hc' => FlatInt.intWake_lookup_ne _ _ hc', ?_⟩
  show alookup (intWake st.wake c stamp) c = _
  rw [FlatInt.intWake_lookup, if_pos rfl]
  cases alookup st.wake c <;> rfl

/-- T4 in terms of observations, part 1: as long as `c` has not been updated since the interrupt,
it still has an entry `≤ stamp` and every tick since the interrupt happened strictly before the
stamp. -/
theorem interrupt_never_overtaken (w : Wiring) (hw : RouterOK w) (devs : DevSeq Val)
    (t0 : SimTime) (sc0 : List FAct) (c : Comp) (stamp : SimTime) (n : Nat) (st1 : FlatSt Val)
    (times : List SimTime)
    (hrun : FlatRunI w devs t0 (sc0 ++ [FAct.interrupt c stamp]) n st1 times)
    (sc : List FAct) (n' : Nat) (st' : FlatSt Val) (newT : List SimTime)
    (hext : FlatExtI w devs n st1 times sc n' st' (newT ++ times))
    (hobs : st'.obsOf c = st1.obsOf c) :
    (∃ e', alookup st'.wake c = some e' ∧ e' ≤ stamp) ∧ ∀ m ∈ newT, m < stamp := by
  obtain ⟨e, he, hle, _, _⟩ := interrupt_served w hw devs t0 sc0 c stamp n st1 times hrun
  obtain ⟨h1, h2, h3⟩ := wakeup_never_overtakenI w hw devs t0 _ n st1 times hrun c e he sc n' st'
    newT hext hobs
  exact ⟨⟨_, h1, Int.le_trans h2 hle⟩, fun m hm => Int.lt_of_lt_of_le (h3 m hm) hle⟩

/-- T4 in terms of observations, part 2: the first update of `c` after the interrupt happens at a
time `≤ stamp`, in a tick of the continuation. -/
theorem interrupt_first_update (w : Wiring) (hw : RouterOK w) (devs : DevSeq Val)
    (t0 : SimTime) (sc0 : List FAct) (c : Comp) (stamp : SimTime) (n : Nat) (st1 : FlatSt Val)
    (times : List SimTime)
    (hrun : FlatRunI w devs t0 (sc0 ++ [FAct.interrupt c stamp]) n st1 times)
    (sc : List FAct) (n' : Nat) (st' : FlatSt Val) (times' : List SimTime)
    (hext : FlatExtI w devs n st1 times sc n' st' times')
    (t1 : SimTime) (given : List (Port × Val)) (rest : List (SimTime × List (Port × Val)))
    (hobs : st'.obsOf c = st1.obsOf c ++ (t1, given) :: rest) :
    t1 ≤ stamp ∧ ∃ newT, times' = newT ++ times ∧ t1 ∈ newT := by
  obtain ⟨e, he, hle, _, _⟩ := interrupt_served w hw devs t0 sc0 c stamp n st1 times hrun
  obtain ⟨h1, h2, _⟩ := wakeup_first_updateI w hw devs t0 _ n st1 times hrun c e he sc n' st'
    times' hext t1 given rest hobs
  exact ⟨Int.le_trans h1 hle, h2⟩

/-! ### T5: C06 "never invented" with interrupts -/

/-- every wakeup entry `(c, x)` of every state of a run was requested by an update of `c` — in
tick `k ≤ n`, at that tick's time `t_req = times[n - k]`, with the logged inputs `ins`, the device
function of that tick returning `callAt = some x` — or `x` is the stamp of an interrupt of `c` in
the script. -/
theorem wake_entry_provenanceI (w : Wiring) (devs : DevSeq Val) (t0 : SimTime) (sc : List FAct)
    (n : Nat) (st : FlatSt Val) (times : List SimTime) (hrun : FlatRunI w devs t0 sc n st times)
    (c : Comp) (x : SimTime) (hx : alookup st.wake c = some x) :
    (∃ (k : Nat) (t_req : SimTime) (ins : List (Port × Val)),
      k ≤ n ∧ times[n - k]? = some t_req ∧ (c, t_req, ins) ∈ st.obs ∧
      ((devs k) c t_req ins).callAt = some x) ∨ FAct.interrupt c x ∈ sc := by
  rcases FlatInt.wake_prov hrun c x hx with ⟨k, t_req, ins, h1, h2, h3, h4⟩ | h
  · exact Or.inl ⟨k, t_req, ins, h1, h2, mem_obsOf.1 h3, h4⟩
  · exact Or.inr h

/-- **T5.**  Every tick time of a run with interrupts is the initial time, a callback time
requested by a device (an update of `c` in tick `k` of the run, at `t_req`, with the logged inputs
`ins`, returned `callAt = some m`), or the stamp of an interrupt in the script: no tick happens at
a time nobody asked for. -/
theorem tick_provenanceI (w : Wiring) (devs : DevSeq Val) (t0 : SimTime) (sc : List FAct)
    (n : Nat) (st : FlatSt Val) (times : List SimTime) (hrun : FlatRunI w devs t0 sc n st times)
    (m : SimTime) (hm : m ∈ times) :
    m = t0 ∨
    (∃ (c : Comp) (k : Nat) (t_req : SimTime) (ins : List (Port × Val)),
      k ≤ n ∧ times[n - k]? = some t_req ∧ (c, t_req, ins) ∈ st.obs ∧
      ((devs k) c t_req ins).callAt = some m) ∨
    ∃ c, FAct.interrupt c m ∈ sc := by
  rcases FlatInt.tick_prov hrun m hm with h | ⟨c, ⟨k, t_req, ins, h1, h2, h3, h4⟩ | h⟩
  · exact Or.inl h
  · exact Or.inr (Or.inl ⟨c, k, t_req, ins, h1, h2, mem_obsOf.1 h3, h4⟩)
  · exact Or.inr (Or.inr ⟨c, h⟩)

/-- the tick of a scheduler step is caused by its roots: every root's entry equals the tick time
(C06 `tick_time_provenance` with interrupts). -/
theorem tick_time_provenanceI (w : Wiring) (devs : DevSeq Val) (t0 : SimTime) (sc : List FAct)
    (n : Nat) (st : FlatSt Val) (times : List SimTime) (cs : List Comp) (m : SimTime)
    (hrun : FlatRunI w devs t0 sc n st times) (hf : firstWakeups st.wake = (cs, some m)) :
    cs ≠ [] ∧ (∀ c, c ∈ cs ↔ alookup st.wake c = some m) ∧
      ∀ c t, alookup st.wake c = some t → m ≤ t := by
  obtain ⟨hcs, hle, ⟨c, hc⟩, _⟩ := firstWakeups_spec _ (FlatInt.flatRunI_uniqueKeys hrun) cs m hf
  refine ⟨fun hnil => ?_, hcs, hle⟩
  have := (hcs c).2 hc
  rw [hnil] at this
  simp at this

/-! ### merging and continuability (C06 R2 and `flatRun_can_continue` with interrupts) -/

/-- **R2 with interrupts.**  In a scheduler step at time `m` the roots `cs` are exactly the
components whose pending wakeup — callback or interrupt — equals `m` (the minimum); every one of
them is really updated by this ONE tick: it gets exactly one new observation, at time `m`; its
wakeup is consumed, and its entry afterwards is what the device asked for in this update. -/
theorem wakeups_served_one_tickI (w : Wiring) (hw : RouterOK w) (devs : DevSeq Val) (t0 : SimTime)
    (sc : List FAct) (n : Nat) (st : FlatSt Val) (times : List SimTime)
    (hrun : FlatRunI w devs t0 sc n st times)
    (cs : List Comp) (m : SimTime) (hf : firstWakeups st.wake = (cs, some m)) (st' : FlatSt Val)
    (htick : TickRun w (devs (n + 1)) { st with wake := delWakeups st.wake cs } m cs st') :
    (∀ c, alookup st.wake c = some m ↔ c ∈ cs) ∧ cs.Nodup ∧
    ∀ c, alookup st.wake c = some m →
      ∃ given, st'.obsOf c = st.obsOf c ++ [(m, given)] ∧ (c, m, given) ∈ st'.obs ∧
        alookup st'.wake c = ((devs (n + 1)) c m given).callAt := by
  have huk := FlatInt.flatRunI_uniqueKeys hrun
  obtain ⟨hcs, _, _, hnd⟩ := firstWakeups_spec _ huk cs m hf
  refine ⟨fun c => (hcs c).symm, hnd, fun c hc => ?_⟩
  have hmem : c ∈ cs := (hcs c).2 hc
  obtain ⟨given, hob, hwk⟩ := tickRun_root hw htick hmem
  refine ⟨given, hob, ?_, ?_⟩
  · rw [← mem_obsOf, hob]
    simp
  · rw [hwk]
    have hdel : alookup (delWakeups st.wake cs) c = none := by
      rw [delWakeups_lookup _ huk, if_pos hmem]
    cases hcall : ((devs (n + 1)) c m given).callAt with
    | none => exact hdel
    | some x => rfl

/-- a run can always be continued by a tick while a wakeup is pending (and by an interrupt of any
component at any time: constructor `FlatRunI.interrupt`). -/
theorem flatRunI_can_continue (w : Wiring) (hw : RouterOK w) (hacyc : w.Acyclic)
    (devs : DevSeq Val) (t0 : SimTime) (sc : List FAct) (n : Nat) (st : FlatSt Val)
    (times : List SimTime) (hrun : FlatRunI w devs t0 sc n st times) (hne : st.wake ≠ []) :
    ∃ st' m, FlatRunI w devs t0 (sc ++ [FAct.tick]) (n + 1) st' (m :: times) := by
  have hsome : (firstWakeups st.wake).2 ≠ none := fun h => hne ((firstWakeups_none _).1 h)
  obtain ⟨m, hm⟩ := Option.ne_none_iff_exists'.1 hsome
  have hf : firstWakeups st.wake = ((firstWakeups st.wake).1, some m) := by rw [← hm]
  have hroots := Sync.hroots_of_components (w := w) (roots := (firstWakeups st.wake).1)
    (fun r hr => (FlatInt.runI_inv hw hrun).2 r (Sync.firstWakeups_sub hf r hr))
  obtain ⟨st', h⟩ := tickRun_exists w hacyc (devs (n + 1))
    { st with wake := delWakeups st.wake (firstWakeups st.wake).1 } m _ hroots
  exact ⟨st', m, .tick hrun hf h⟩

/-- after an interrupt stamped `stamp` a next tick is always possible, and the next scheduler step
(whatever it serves) happens at a time `≤ stamp`, with `c` as a root iff that time is `c`'s entry. -/
theorem interrupt_next_tick (w : Wiring) (hw : RouterOK w) (hacyc : w.Acyclic)
    (devs : DevSeq Val) (t0 : SimTime) (sc0 : List FAct) (c : Comp) (stamp : SimTime) (n : Nat)
    (st1 : FlatSt Val) (times : List SimTime)
    (hrun : FlatRunI w devs t0 (sc0 ++ [FAct.interrupt c stamp]) n st1 times) :
    (∃ st' m, FlatRunI w devs t0 (sc0 ++ [FAct.interrupt c stamp] ++ [FAct.tick]) (n + 1) st'
      (m :: times)) ∧
    ∀ cs m, firstWakeups st1.wake = (cs, some m) →
      m ≤ stamp ∧ (c ∈ cs ↔ alookup st1.wake c = some m) := by
  obtain ⟨e, he, hle, _, _⟩ := interrupt_served w hw devs t0 sc0 c stamp n st1 times hrun
  refine ⟨flatRunI_can_continue w hw hacyc devs t0 _ n st1 times hrun
    (wake_ne_nil_of_lookup he), fun cs m hf => ?_⟩
  obtain ⟨hcs, hmin, _, _⟩ := firstWakeups_spec _ (FlatInt.flatRunI_uniqueKeys hrun) cs m hf
  exact ⟨Int.le_trans (hmin c e he) hle, hcs c⟩

/-! ### non-vacuity and checked counterexamples

The wiring `exCW` and the devices `exCDev` of `Props/C06Run.lean`: device `a` (reports its update
time on port `o`, callback every 2 ns) is wired into `a2` (never asks for a callback); device `b`
has a callback every 3 ns. -/

theorem exCDev_ext : ∀ k : Nat, DevExt ((fun _ => exCDev : DevSeq Int) k) :=
  fun _ _ _ _ _ _ => rfl

/-- a run with interrupts, in two parts.  Initial tick at 0; callback tick at 2 (root `a`, `a2` is
updated as a dependant); `a2` raises an interrupt stamped 3 (it had no wakeup: entry 3) — state
`st1`.  Continuation: `b` raises an interrupt stamped 2, which LOWERS its callback entry 3 to 2;
tick at 2 (root `b`, served early because of the interrupt; it asks for 5); tick at 3 (root `a2`:
the interrupt of `a2` is served at exactly its stamp).  Tick times `[3, 2, 2, 0]`. -/
theorem exI_run : ∃ st1 st' : FlatSt Int,
    FlatRunI exCW (fun _ => exCDev) 0 ([.tick] ++ [.interrupt "a2" 3]) 1 st1 [2, 0] ∧
    FlatExtI exCW (fun _ => exCDev) 1 st1 [2, 0] [.interrupt "b" 2, .tick, .tick] 3 st'
      [3, 2, 2, 0] ∧
    st1.wake = [("b", 3), ("a", 4), ("a2", 3)] ∧
    st1.obsOf "a2" = [(0, [("i", 0)]), (2, [("i", 2)])] ∧
    st'.obsOf "a2" = [(0, [("i", 0)]), (2, [("i", 2)]), (3, [("i", 2)])] ∧
    st'.obsOf "b" = [(0, []), (2, [])] ∧ st'.wake = [("a", 4), ("b", 5)] := by
  refine ⟨_, _, .interrupt (sc := [.tick]) (c := "a2") (stamp := 3)
    (.tick (sc := []) (cs := ["a"]) (m := 2) (.initial
      ⟨_, .step (i := 0) (.step (i := 0) (.step (i := 0) (.init rfl) rfl) rfl) rfl, rfl, rfl⟩)
      rfl ⟨_, .step (i := 0) (.step (i := 0) (.init rfl) rfl) rfl, rfl, rfl⟩) (by decide),
    .tick (sc := [.interrupt "b" 2, .tick]) (cs := ["a2"]) (m := 3)
      (.tick (sc := [.interrupt "b" 2]) (cs := ["b"]) (m := 2)
        (.interrupt (sc := []) (c := "b") (stamp := 2) .refl (by decide))
        rfl ⟨_, .step (i := 0) (.init rfl) rfl, rfl, rfl⟩)
      rfl ⟨_, .step (i := 0) (.init rfl) rfl, rfl, rfl⟩, ?_, ?_, ?_, ?_, ?_⟩ <;> decide

def exIScript : List FAct := [.tick, .interrupt "a2" 3, .interrupt "b" 2, .tick, .tick]

theorem exIScript_timely : StampsTimely exIScript [3, 2, 2, 0] := by
  simp [exIScript, StampsTimely, stampsTimelyRev]

/-- T2, T3 and T5 applied to the whole run `exI_run`: every other run with the same script has the
same tick times and observations; the stamps are timely and time is monotone; every tick time is
accounted for. -/
example : ∃ st : FlatSt Int, FlatRunI exCW (fun _ => exCDev) 0 exIScript 3 st [3, 2, 2, 0] ∧
    (∀ n2 st2 times2, FlatRunI exCW (fun _ => exCDev) 0 exIScript n2 st2 times2 →
      3 = n2 ∧ [3, 2, 2, 0] = times2 ∧ (∀ c, ObsEq (st.obsOf c) (st2.obsOf c)) ∧
        MapEq st.wake st2.wake) ∧
    StampsTimely exIScript [3, 2, 2, 0] ∧
    ([3, 2, 2, 0] : List SimTime).Pairwise (fun later earlier => earlier ≤ later) ∧
    (∀ c t, alookup st.wake c = some t → ∀ m ∈ ([3, 2, 2, 0] : List SimTime), m ≤ t) ∧
    ∀ m ∈ ([3, 2, 2, 0] : List SimTime), m = 0 ∨
      (∃ (c : Comp) (k : Nat) (t_req : SimTime) (ins : List (Port × Int)),
        k ≤ 3 ∧ ([3, 2, 2, 0] : List SimTime)[3 - k]? = some t_req ∧ (c, t_req, ins) ∈ st.obs ∧
        (exCDev c t_req ins).callAt = some m) ∨
      ∃ c, FAct.interrupt c m ∈ exIScript := by
  obtain ⟨st1, st', hrun1, hext, _⟩ := exI_run
  have hrun : FlatRunI exCW (fun _ => exCDev) 0 exIScript 3 st' [3, 2, 2, 0] :=
    continuationI_is_run exCW _ 0 _ _ 1 3 st1 st' _ _ hrun1 hext
  refine ⟨st', hrun, fun n2 st2 times2 h2 => ?_, exIScript_timely, ?_, ?_, ?_⟩
  · exact schedule_independentI exCW exCW_routerOK exCW_acyclic _ exCDev_ext 0 exIScript 3 n2 st'
      st2 _ times2 hrun h2
  · exact time_monotoneI exCW _ exCDev_strict.noPast 0 exIScript 3 st' _ hrun exIScript_timely
  · exact fun c t hc => pending_not_overtakenI exCW _ exCDev_strict.noPast 0 exIScript 3 st' _ hrun
      exIScript_timely c t hc
  · exact fun m hm => tick_provenanceI exCW _ 0 exIScript 3 st' _ hrun m hm

/-- T4 applied to the interrupt of `a2` (stamp 3) in `exI_run`: its entry is 3; in EVERY
continuation exactly one of `StillPendingI`/`FirstUpdateI` holds; and in the continuation of
`exI_run` the interrupt is served (`FirstUpdateI`). -/
example : ∃ st1 : FlatSt Int,
    FlatRunI exCW (fun _ => exCDev) 0 ([.tick] ++ [.interrupt "a2" 3]) 1 st1 [2, 0] ∧
    alookup st1.wake "a2" = some 3 ∧
    (∀ sc n' st' times', FlatExtI exCW (fun _ => exCDev) 1 st1 [2, 0] sc n' st' times' →
      (StillPendingI st1 [2, 0] sc st' times' "a2" 3 ∨
        FirstUpdateI exCW (fun _ => exCDev) 1 st1 [2, 0] sc n' st' times' "a2" 3) ∧
      ¬ (StillPendingI st1 [2, 0] sc st' times' "a2" 3 ∧
        FirstUpdateI exCW (fun _ => exCDev) 1 st1 [2, 0] sc n' st' times' "a2" 3)) ∧
    ∃ st', FlatExtI exCW (fun _ => exCDev) 1 st1 [2, 0] [.interrupt "b" 2, .tick, .tick] 3 st'
        [3, 2, 2, 0] ∧
      FirstUpdateI exCW (fun _ => exCDev) 1 st1 [2, 0] [.interrupt "b" 2, .tick, .tick] 3 st'
        [3, 2, 2, 0] "a2" 3 := by
  obtain ⟨st1, st', hrun1, hext, hwk, hob1, hob', _⟩ := exI_run
  obtain ⟨e, he, _, _, hall⟩ :=
    interrupt_served exCW exCW_routerOK _ 0 [.tick] "a2" 3 1 st1 [2, 0] hrun1
  have h3 : alookup st1.wake "a2" = some 3 := by rw [hwk]; decide
  have : e = 3 := Option.some.inj (he.symm.trans h3)
  subst this
  refine ⟨st1, hrun1, h3, hall, st', hext, ?_⟩
  rcases (hall _ _ _ _ hext).1 with hp | hfu
  · have := congrArg List.length hp.no_new_obs
    rw [hob1, hob'] at this
    simp at this
  · exact hfu

/-- **checked counterexample: `StampsTimely` is needed for T3.**  `a2` raises an interrupt stamped
1 after the tick at 2 (a stamp before the last tick — impossible under the pacing law): the next
tick is at 1, time runs backwards, although no device asks for a callback in the past. -/
theorem time_not_monotone_untimely : ∃ st : FlatSt Int,
    FlatRunI exCW (fun _ => exCDev) 0 [.tick, .interrupt "a2" 1, .tick] 2 st [1, 2, 0] ∧
    NoPastCallbacks (fun _ => exCDev : DevSeq Int) ∧
    ¬ StampsTimely [.tick, .interrupt "a2" 1, .tick] [1, 2, 0] ∧
    ¬ ([1, 2, 0] : List SimTime).Pairwise (fun later earlier => earlier ≤ later) := by
  refine ⟨_, .tick (sc := [.tick, .interrupt "a2" 1]) (cs := ["a2"]) (m := 1)
    (.interrupt (sc := [.tick]) (c := "a2") (stamp := 1)
      (.tick (sc := []) (cs := ["a"]) (m := 2) (.initial
        ⟨_, .step (i := 0) (.step (i := 0) (.step (i := 0) (.init rfl) rfl) rfl) rfl, rfl, rfl⟩)
        rfl ⟨_, .step (i := 0) (.step (i := 0) (.init rfl) rfl) rfl, rfl, rfl⟩) (by decide))
    rfl ⟨_, .step (i := 0) (.init rfl) rfl, rfl, rfl⟩, exCDev_strict.noPast, ?_, ?_⟩
  · simp [StampsTimely, stampsTimelyRev]
  · decide

/-- **checked counterexample to "all tick times so far are `<` the CURRENT entry".**  After the
initial tick `b` has a callback entry 3.  Continuation: tick at 2 (`< 3`), then `b` raises an
(untimely) interrupt stamped 1: `b` has not been updated, its entry is now
`lowered "b" 3 [.tick, .interrupt "b" 1] = 1`, and the tick at 2 is not `< 1` (it is `< 3`, the
entry when the tick happened, as `StillPendingI` says). -/
theorem entry_below_earlier_tick : ∃ st st' : FlatSt Int,
    FlatRunI exCW (fun _ => exCDev) 0 [] 0 st [0] ∧ alookup st.wake "b" = some 3 ∧
    FlatExtI exCW (fun _ => exCDev) 0 st [0] [.tick, .interrupt "b" 1] 1 st' [2, 0] ∧
    st'.obsOf "b" = st.obsOf "b" ∧ alookup st'.wake "b" = some 1 ∧
    lowered "b" 3 [.tick, .interrupt "b" 1] = 1 := by
  refine ⟨_, _, .initial
      ⟨_, .step (i := 0) (.step (i := 0) (.step (i := 0) (.init rfl) rfl) rfl) rfl, rfl, rfl⟩, ?_,
    .interrupt (sc := [.tick]) (c := "b") (stamp := 1)
      (.tick (sc := []) (cs := ["a"]) (m := 2) .refl
        rfl ⟨_, .step (i := 0) (.step (i := 0) (.init rfl) rfl) rfl, rfl, rfl⟩) (by decide),
    ?_, ?_, ?_⟩ <;> decide

/-
Not done here (nothing is left unproved in this file):
* LIVENESS of interrupts ("the interrupt IS served after finitely many ticks", the analogue of
  `callback_eventually_served`): with interrupts tick times need not increase STRICTLY even under
  `StrictFuture` (`exI_run` has two ticks at time 2), so the counting argument of C06Run does not
  carry over as it stands; a bound would have to count ticks per (time, set of components).
  Safety (`interrupt_served`: never lost, never overtaken) and continuability
  (`interrupt_next_tick`) are proved.
* C02 and `one_time_per_tick`/`tick_complete` (C04) are statements about ONE tick (`TickRun`,
  `TickSys.Reachable`); they apply verbatim to every tick of a `FlatRunI` and need no transfer.
-/

end Tickit
