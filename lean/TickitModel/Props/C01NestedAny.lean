/-
C01 through nesting, for ANY answer order at every depth (`Core/SimAny.lean`).

In every any-order execution of a tick
 * no device, at whatever depth, is updated more than once, and every update carries the tick's
   time (`any_order_update_at_most_once`);
 * at every scheduler level that takes part — the level of the tick and, recursively, the level of
   every system component answered in it, whose inner tick is again such an execution — the
   level's ticker hands out at most one dispatch per component, only after every first-order
   upstream of the component that takes part in the tick has answered, and the tick ends only when
   every participant has answered (`any_order_level_c01`).
 * in the global observation list a device is updated only after every device that feeds it and
   is updated in the tick (`any_order_update_order` for the relation `S.Feeds`: wired into it,
   directly or through further components, at the scheduler level where the two devices' places in
   the nesting tree separate; `any_order_update_after_resolved_sources` for the wires of the
   resolved = flattened device-level wiring, each of which is such a pair).
All are proved directly for the relation `TickLevelAny`, not via the FIFO model.
-/
import TickitModel.Lemmas.AnyOnce
import TickitModel.Lemmas.AnyResolve

namespace Tickit

/-- **C01 through nesting, at most once.**  In every execution of a tick — any answer order at the
level of the tick and inside every system component at every depth — every component's observation
sequence grows by at most one entry, stamped with the tick's time: no device is updated twice in a
tick. -/
theorem any_order_update_at_most_once (S : Static) (hS : S.Valid) (orc : Oracle) (lvl : Comp)
    (t : SimTime) (roots : List Comp) (inCh : List (Port × V)) (hn : (akeys inCh).Nodup) (st : SimSt)
    (r : SimSt × List (Port × V)) (h : TickLevelAny S orc lvl t roots inCh st r) (x : Comp) :
    r.1.obsOf x = st.obsOf x ∨ ∃ m, r.1.obsOf x = st.obsOf x ++ [(t, m)] :=
  tickLevelAny_once hS hn h x

/-- in terms of update counts -/
theorem any_order_updates_le (S : Static) (hS : S.Valid) (orc : Oracle) (lvl : Comp)
    (t : SimTime) (roots : List Comp) (inCh : List (Port × V)) (hn : (akeys inCh).Nodup) (st : SimSt)
    (r : SimSt × List (Port × V)) (h : TickLevelAny S orc lvl t roots inCh st r) (x : Comp) :
    (r.1.obsOf x).length ≤ (st.obsOf x).length + 1 := by
  rcases tickLevelAny_once hS hn h x with h | ⟨m, h⟩
  · rw [h]; omega
  · rw [h]; simp

/-- **C01 at every level of an any-order execution.**  Every execution of a tick of level `lvl` has
a trace `tr` of its ticker's dispatches and the answers it took in such that
 * every component is dispatched at most once and answers at most as often as it was dispatched;
 * when a component is dispatched, every first-order upstream of it that takes part in the tick
   has already answered;
 * the tick is complete: every participant has answered; every dispatch is for a participant and
   carries the tick's time;
 * the trace is the execution's own: every answer in it was produced by the addressed component
   (`AnsP`: the device's oracle response, or — for a system component — a `TickLevelAny` execution
   of its inner level, to which this theorem applies again).  -/
theorem any_order_level_c01 (S : Static) (hS : S.Valid) (orc : Oracle) (lvl : Comp) (t : SimTime)
    (roots : List Comp) (inCh : List (Port × V)) (hn : (akeys inCh).Nodup) (st : SimSt)
    (r : SimSt × List (Port × V)) (h : TickLevelAny S orc lvl t roots inCh st r) :
    ∃ (L : Level) (tr : List (Ev V)), S.level lvl = some L ∧
      (∀ c, (tr.filter (Ev.isDispatchOf c)).length ≤ 1 ∧
        (tr.filter (Ev.isAnswerOf c)).length ≤ (tr.filter (Ev.isDispatchOf c)).length) ∧
      (∀ pre d post, tr = pre ++ Ev.dispatch d :: post → ∀ us, L.wiring.ups d.comp = some us →
        ∀ u ∈ us, u ∈ extent L.wiring roots → ∃ ch, Ev.answer u ch ∈ pre) ∧
      (∀ c ∈ extent L.wiring roots, ∃ ch, Ev.answer c ch ∈ tr) ∧
      (∀ d, Ev.dispatch d ∈ tr → d.comp ∈ extent L.wiring roots ∧ d.time = t) ∧
      (∀ a ch, Ev.answer a ch ∈ tr → ∃ d σ σ' ca, Ev.dispatch d ∈ tr ∧ d.comp = a ∧
        AnsP S orc (TickLevelAny S orc) L inCh σ d (σ', ch, ca)) := by
  obtain ⟨L, tk, ds, hLv, hcall, hloop⟩ := h.unfold
  obtain ⟨hL, hname⟩ := Static.level_some hLv
  subst hname
  have hp : ∀ c t ro i s r, TickLevelAny S orc c t ro i s r → LevelPost1 S c s r :=
    fun _ _ _ _ _ _ h => tickLevelAny_post1 hS h
  obtain ⟨ls1, tr1, recs1, inv1, _, hf, _⟩ :=
    hloop.run_inv2 hS hp hL hn (t := t) (roots := roots) (st0 := st) (Inv2.init hcall)
  refine ⟨L, tr1, hLv, inv1.pre.count, inv1.pre.order, ?_, inv1.pre.disp_ext, ?_⟩
  · intro c hc
    exact (inv1.pre.resolved c hc).1 (by rw [hf]; rfl)
  · intro a ch hm
    obtain ⟨r, hr, h1, h2⟩ := (inv1.recs_tr a ch).1 hm
    obtain ⟨hd, ha, _⟩ := inv1.recs_ok r hr
    exact ⟨r.d, r.pre, r.post, r.ca, hd, h1, h2 ▸ ha⟩

/-- **C01 through nesting, order (structural form).**  In every execution of a tick, any answer
order at every depth: the new observations are made by components below the level, and whenever
`x` feeds `y` (`S.Feeds x y`: `x` belongs to a component that is wired — directly or through other
components — into the component `y` belongs to, at the level where their places in the nesting tree
separate) and both are updated in the tick, the update of `x` comes before the update of `y` in the
observation list. -/
theorem any_order_update_order (S : Static) (hS : S.Valid) (orc : Oracle) (lvl : Comp)
    (t : SimTime) (roots : List Comp) (inCh : List (Port × V)) (hn : (akeys inCh).Nodup) (st : SimSt)
    (r : SimSt × List (Port × V)) (h : TickLevelAny S orc lvl t roots inCh st r) :
    ∃ new, r.1.obs = st.obs ++ new ∧ (∀ o ∈ new, S.Below lvl o.comp) ∧
      ∀ pre oy post, new = pre ++ oy :: post → ∀ ox ∈ new, S.Feeds ox.comp oy.comp → ox ∈ pre :=
  tickLevelAny_ordered hS hn h

/-- every wire of the resolved (flattened) device-level wiring is a `Feeds` pair -/
theorem resolved_wire_feeds (S : Static) (hS : S.Valid) (rfuel : Nat) (x : Comp) (p : Port) (y : Comp)
    (q : Port) (h : (Wiring.fromInverse (S.flatInverse rfuel)).Conn x p y q) : S.Feeds x y :=
  flat_wire_feeds hS rfuel h

/-- **C01 through nesting, order (resolved wiring).**  In every execution of a tick — any answer
order at every level — a device is updated only AFTER every device that feeds it through the
resolved (flattened) wiring and is updated in the same tick, at whatever depths the two devices
live: if output `p` of `ox.comp` is (after resolving `expose` / `external`) wired to input `q` of
`oy.comp` and both made an observation in this tick, the observation of `ox.comp` comes first. -/
theorem any_order_update_after_resolved_sources (S : Static) (hS : S.Valid) (orc : Oracle)
    (rfuel : Nat) (lvl : Comp) (t : SimTime) (roots : List Comp) (inCh : List (Port × V))
    (hn : (akeys inCh).Nodup) (st : SimSt) (r : SimSt × List (Port × V))
    (h : TickLevelAny S orc lvl t roots inCh st r) :
    ∃ new, r.1.obs = st.obs ++ new ∧
      ∀ pre oy post, new = pre ++ oy :: post → ∀ ox ∈ new, ∀ p q,
        (Wiring.fromInverse (S.flatInverse rfuel)).Conn ox.comp p oy.comp q → ox ∈ pre := by
  obtain ⟨new, h1, _, h3⟩ := tickLevelAny_ordered hS hn h
  exact ⟨new, h1, fun pre oy post hsp ox hox p q hc =>
    h3 pre oy post hsp ox hox (flat_wire_feeds hS rfuel hc)⟩

end Tickit
