/-
C09 — system simulations are transparent: nesting does not change behaviour.
(whole-simulation model `tickLevel` with nested schedulers at any depth vs the same model run
on the mechanically flattened configuration)
-/
import TickitModel.Lemmas.FlattenMain
import TickitModel.Lemmas.FlattenFuelBound
import TickitModel.Lemmas.FlattenCorr
import TickitModel.Lemmas.FlattenCex
import TickitModel.Lemmas.FlattenStimRun
import TickitModel.Lemmas.FlattenStimCex

namespace Tickit

/-- the flattening is a flat, structurally valid configuration with the same devices -/
theorem flatten_devices (S : Static) (fuel : Nat) (c : Comp) :
    c ∈ (S.flatten fuel).devices ↔ c ∈ S.devices := by
  rw [S.flatten_devices_eq]

/-- the boundary bookkeeping of one nested tick: what a system component answers upward is
exactly what its `expose` mock component was given, and what its `external` mock component
answers is exactly what the system component was given — within the same tick. -/
theorem external_passes_inputs (S : Static) (orc : Oracle) (fuel : Nat) (L : Level) (inCh : List (Port × V))
    (st : SimSt) (out0 : List (Port × V)) (t : SimTime) (ins : List (Port × V)) (hL : L.name ≠ "") :
    simAnswer S orc fuel L inCh st out0 (.input pseudoExternal t ins) = .ok (st, out0, inCh, none) := by
  simp [simAnswer, hL]

theorem expose_collects_outputs (S : Static) (orc : Oracle) (fuel : Nat) (L : Level) (inCh : List (Port × V))
    (st : SimSt) (out0 : List (Port × V)) (t : SimTime) (ins : List (Port × V)) (hL : L.name ≠ "")
    (hne : pseudoExpose ≠ pseudoExternal) :
    simAnswer S orc fuel L inCh st out0 (.input pseudoExpose t ins) = .ok (st, ins, [], none) := by
  simp [simAnswer, hL, hne]

/-- **C09, initial tick.**  If the initial tick of the nested configuration completes, so does
the initial tick of its flattening (given enough fuel), and every device makes exactly the same
observation — same time, same inputs as a mapping — in both: values cross system boundaries, in
both directions and through pass-through ports, within that one tick.

The resolution fuel `rfuel` of the flattening has to be *sufficient*: `S.ResolveStable rfuel`
says one more unit of fuel changes no resolved source.  (The earlier hypothesis
`S.levels.length ≤ rfuel` is not enough: a chain of pass-through systems needs two steps per
system, see `Lemmas/FlattenCex.lean` for a counterexample checked at build time.) -/
theorem nesting_transparent_initial (S : Static) (hS : S.Valid) (orc : Oracle) (fuel rfuel : Nat)
    (hr : S.ResolveStable rfuel) (t0 : SimTime) (now : Int)
    (m : MasterSt) (tr : TickRec) (h : masterInitial S orc fuel t0 now = .ok (m, tr)) :
    ∃ fuel' m' tr', masterInitial (S.flatten rfuel) orc fuel' t0 now = .ok (m', tr') ∧
      ∀ d, ObsEq (m.sim.obsOf d) (m'.sim.obsOf d) := by
  obtain ⟨m', tr', h1, h2⟩ := nesting_transparent_initial_core S hS orc fuel rfuel hr t0 now m tr h
  exact ⟨1, m', tr', h1, h2⟩

/-- **a computable sufficient resolution fuel**: the number of (level, component) pairs, plus the
number of levels, plus one (`Static.resolveFuel`).  Every step of a resolution chain sits at a
(level, component) pair and, in a valid configuration, no pair is visited twice. -/
theorem resolveFuel_sufficient (S : Static) (hS : S.Valid) (rfuel : Nat) (hr : S.resolveFuel ≤ rfuel) :
    S.ResolveStable rfuel :=
  hS.resolveStable hr

/-- **C09, initial tick**, with the computable fuel bound. -/
theorem nesting_transparent_initial_fuel (S : Static) (hS : S.Valid) (orc : Oracle) (fuel rfuel : Nat)
    (hr : S.resolveFuel ≤ rfuel) (t0 : SimTime) (now : Int)
    (m : MasterSt) (tr : TickRec) (h : masterInitial S orc fuel t0 now = .ok (m, tr)) :
    ∃ fuel' m' tr', masterInitial (S.flatten rfuel) orc fuel' t0 now = .ok (m', tr') ∧
      ∀ d, ObsEq (m.sim.obsOf d) (m'.sim.obsOf d) :=
  nesting_transparent_initial S hS orc fuel rfuel (hS.resolveStable hr) t0 now m tr h

/-- **C09, whole run (callbacks).**  Continuing both simulations for the same number of callback
ticks (no external stimuli), the tick times coincide and every device keeps making the same
observations: callbacks requested inside a system are served at exactly the requested time. -/
theorem nesting_transparent_run (S : Static) (hS : S.Valid) (orc : Oracle) (fuel rfuel : Nat)
    (hr : S.ResolveStable rfuel) (t0 : SimTime) (now : Int) (sp : Speed) (steps nTicks : Nat)
    (m m2 : MasterSt) (tr : TickRec) (ticks : List TickRec)
    (h : masterInitial S orc fuel t0 now = .ok (m, tr))
    (h2 : masterRun S orc fuel sp steps nTicks m [] [tr] = .ok (m2, ticks)) :
    ∃ fuel' m' tr' m2' ticks', masterInitial (S.flatten rfuel) orc fuel' t0 now = .ok (m', tr') ∧
      masterRun (S.flatten rfuel) orc fuel' sp steps nTicks m' [] [tr'] = .ok (m2', ticks') ∧
      ticks.map (·.time) = ticks'.map (·.time) ∧ ticks.map (·.real) = ticks'.map (·.real) ∧
      ∀ d, ObsEq (m2.sim.obsOf d) (m2'.sim.obsOf d) := by
  obtain ⟨m', tr', h', _⟩ := nesting_transparent_initial_core S hS orc fuel rfuel hr t0 now m tr h
  have hrank := (masterInitial_facts hS hr h).flatRank
  have hc := corr_initial hS hr hrank h h'
  obtain ⟨c1, c2, c3, c4, c5⟩ := masterInitial_clock h
  obtain ⟨c1', c2', c3', c4', c5'⟩ := masterInitial_clock h'
  obtain ⟨m2', ticks', hrun, ht, hre, hc2⟩ := masterRun_corr hS hr hrank sp steps nTicks m m' [tr] [tr'] hc
    ⟨c1.trans c1'.symm, c2.trans c2'.symm, c3.trans c3'.symm⟩ (by simp [c4, c4']) (by simp [c5, c5'])
    m2 ticks h2
  exact ⟨1, m', tr', m2', ticks', h', hrun, ht, hre, hc2.obs⟩


/-- **C09, whole run (callbacks)**, with the computable fuel bound. -/
theorem nesting_transparent_run_fuel (S : Static) (hS : S.Valid) (orc : Oracle) (fuel rfuel : Nat)
    (hr : S.resolveFuel ≤ rfuel) (t0 : SimTime) (now : Int) (sp : Speed) (steps nTicks : Nat)
    (m m2 : MasterSt) (tr : TickRec) (ticks : List TickRec)
    (h : masterInitial S orc fuel t0 now = .ok (m, tr))
    (h2 : masterRun S orc fuel sp steps nTicks m [] [tr] = .ok (m2, ticks)) :
    ∃ fuel' m' tr' m2' ticks', masterInitial (S.flatten rfuel) orc fuel' t0 now = .ok (m', tr') ∧
      masterRun (S.flatten rfuel) orc fuel' sp steps nTicks m' [] [tr'] = .ok (m2', ticks') ∧
      ticks.map (·.time) = ticks'.map (·.time) ∧ ticks.map (·.real) = ticks'.map (·.real) ∧
      ∀ d, ObsEq (m2.sim.obsOf d) (m2'.sim.obsOf d) :=
  nesting_transparent_run S hS orc fuel rfuel (hS.resolveStable hr) t0 now sp steps nTicks m m2 tr ticks h h2

/-- **C09, whole run with external stimuli (interrupts).**  For every history of callbacks and of
interrupts raised on devices between ticks, the nested simulation and its flattening tick at the
same times and every device makes the same observations, provided that

* every stimulus names a device of the configuration (an interrupt of a system component has no
  counterpart in the flattening);
* every interrupted device either requests a callback at every update or never requests one
  (`Oracle.InterruptSafe`): the flat master overwrites the device's own (later) pending callback
  with the interrupt stamp, the nested master overwrites the enclosing system's (later) entry,
  which is restored from the inner wakeups after the tick (an EARLIER entry would be kept by
  either master — `when = min(existing wakeup, stamp)` — but timely stimuli never meet one);
* the stimuli are *timely* along the nested run (`stimsTimely`): the stamp of an interrupt is not
  later than the earliest pending wakeup (it can be later only when the stimulus arrives at the
  very real-time instant the next tick is due and the speed is above 1, or when a callback lies
  in the past).

Counterexamples for each hypothesis are checked in `Lemmas/FlattenStimCex.lean`. -/
theorem nesting_transparent_run_stims (S : Static) (hS : S.Valid) (orc : Oracle) (fuel rfuel : Nat)
    (hr : S.resolveFuel ≤ rfuel) (t0 : SimTime) (now : Int) (sp : Speed) (steps nTicks : Nat)
    (stims : List Stim) (hdev : ∀ st ∈ stims, S.isDevice st.comp) (hsafe : orc.InterruptSafe stims)
    (m m2 : MasterSt) (tr : TickRec) (ticks : List TickRec)
    (h : masterInitial S orc fuel t0 now = .ok (m, tr))
    (htimely : stimsTimely S orc fuel sp steps nTicks false m stims = true)
    (h2 : masterRun S orc fuel sp steps nTicks m stims [tr] = .ok (m2, ticks)) :
    ∃ fuel' m' tr' m2' ticks', masterInitial (S.flatten rfuel) orc fuel' t0 now = .ok (m', tr') ∧
      masterRun (S.flatten rfuel) orc fuel' sp steps nTicks m' stims [tr'] = .ok (m2', ticks') ∧
      ticks.map (·.time) = ticks'.map (·.time) ∧ ticks.map (·.real) = ticks'.map (·.real) ∧
      ∀ d, ObsEq (m2.sim.obsOf d) (m2'.sim.obsOf d) := by
  have hst := hS.resolveStable hr
  obtain ⟨m', tr', h', _⟩ := nesting_transparent_initial_core S hS orc fuel rfuel hst t0 now m tr h
  have hrank := (masterInitial_facts hS hst h).flatRank
  have hc := corrP_initial hS hst hrank h h'
  obtain ⟨c1, c2, c3, c4, c5⟩ := masterInitial_clock h
  obtain ⟨c1', c2', c3', c4', c5'⟩ := masterInitial_clock h'
  obtain ⟨m2', ticks', hrun, ht, hre, hobs⟩ := masterRun_corrP hS hst hrank (masterInitial_fuel hS hst h) sp
    steps nTicks false m m' stims [tr] [tr'] [] t0 hc (fun _ => rfl)
    ⟨c1.trans c1'.symm, c2.trans c2'.symm, c3.trans c3'.symm⟩ (by simp [c4, c4']) (by simp [c5, c5'])
    hdev hsafe (by simp) htimely m2 ticks h2
  exact ⟨1, m', tr', m2', ticks', h', hrun, ht, hre, hobs⟩

end Tickit
