/-
C10 — unconnected parts of a simulation never influence each other (one tick, any answer
orders; topic separation is in Props/C15).
-/
import TickitModel.Lemmas.PartLemmas
import TickitModel.Props.C16

namespace Tickit

variable {Val : Type}

/-- **noninterference of one tick.**  Let `A` be a set of components that no wire connects to
the rest of the wiring `w`, and `wa` the wiring of `A` alone.  Take ANY complete run of a tick
of the whole simulation (roots `roots`, any answer order, the other components doing whatever
they do) and ANY complete run of the same tick of `A` alone (roots = the roots that lie in `A`).
Then every component of `A` receives the same dispatch in both: the same devices of `A` are
invoked with the same inputs, the others skipped — adding or removing the rest changes
nothing for `A`. -/
theorem part_tick_same (w wa : Wiring) (A : Comp → Prop) (hp : IsPart w wa A)
    (hw : RouterOK w) (hwa : RouterOK wa) (hacyc : w.Acyclic) (hacyca : wa.Acyclic)
    (react : React Val) (hr : ReactWF react) (hext : Det.ReactExtN react)
    (t : SimTime) (roots rootsA : List Comp) (hroots : ∀ r, r ∈ rootsA ↔ r ∈ roots ∧ A r)
    (s sa : TickSys Val) (h : s.Reachable w react t roots) (ha : sa.Reachable wa react t rootsA)
    (hf : s.tk.toUpdate = []) (hfa : sa.tk.toUpdate = []) (c : Comp) (hc : A c) :
    SameDispatch (dispatchOf s.trace c) (dispatchOf sa.trace c) := by
  have _ := hacyc -- hypothesis not needed: the rank induction runs over `wa` only
  exact hp.tick_same hw hwa hacyca hr hext hroots h ha hf hfa c hc

/-- … and the tick of the whole does not stall because of the extra part: progress holds for
the whole wiring as soon as it is acyclic (restated from C01 for the union). -/
theorem whole_never_stalls (w : Wiring) (hacyc : w.Acyclic) (react : React Val) (t : SimTime)
    (roots : List Comp) (hroots : ∀ c ∈ extent w roots, (w.ups c).isSome)
    (s : TickSys Val) (hs : s.Reachable w react t roots) (hne : s.tk.toUpdate ≠ []) : s.pending ≠ [] := by
  exact progress w hacyc react t roots hroots s hs hne

/-- a component outside every extent rooted in `A` is never dispatched because of `A`:
roots inside `A` never drag in anything outside `A`.  (`w.WF` — the wiring is a Python
dict of dicts of sets — is needed: with a shadowed duplicate port key the tree would contain
a child that is no wire, see `ce_isPart`/`ce_extent` in `Lemmas/PartLemmas.lean`.) -/
theorem extent_stays_inside (w wa : Wiring) (A : Comp → Prop) (hp : IsPart w wa A) (hwf : w.WF)
    (rootsA : List Comp) (hA : ∀ r ∈ rootsA, A r) (c : Comp) (hc : c ∈ extent w rootsA) : A c := by
  exact hp.extent_inside hwf hA hc

/-- the hypothesis is satisfiable in general: the union of two well-formed wirings over
disjoint component sets has each of them as a part (so `part_tick_same` applies to any
configuration extended by a disconnected device, chain or whole system simulation). -/
theorem isPart_append (wa wb : Wiring) (hwa : wa.WF) (hwb : wb.WF)
    (hdisj : ∀ c, c ∈ wa.components → c ∉ wb.components) :
    IsPart (wa ++ wb) wa (fun c => c ∈ wa.components) := by
  exact IsPart.append wa wb hwa hwb hdisj

end Tickit
