/-
C07 (nested level) — interrupts of components inside a system simulation are never lost,
whenever they arrive relative to the system's inner tick.
-/
import TickitModel.Lemmas.NestedIntLemmas

namespace Tickit

theorem ninv_init : NInv {} := by
  exact NInv.init

theorem ninv_step (s s' : NSt) (a : NAct) (h : NInv s) (hs : s.step a = some s') : NInv s' := by
  exact NInv.step s s' a h hs

/-- for every history of inner interrupts, inner tick starts, update beginnings and tick ends -/
theorem nested_no_interrupt_lost (acts : List NAct) : NInv (({} : NSt).run acts) := by
  exact NSt.run_inv NInv NInv.step acts {} NInv.init

/-- an interrupt that arrives while the inner tick is running is served by the NEXT inner tick:
when that tick starts the component is among its roots. -/
theorem queued_becomes_root (s s' : NSt) (c : Comp) (hq : c ∈ s.queued) (due : List Comp)
    (hs : s.step (.startTick due) = some s') : ∃ rem, s'.ticking = some rem ∧ c ∈ rem := by
  simp only [NSt.step] at hs
  cases ht : s.ticking with
  | some r => simp [ht] at hs
  | none =>
    simp only [ht, Option.some.injEq] at hs
    subst hs
    exact ⟨_, rfl, ni_mem_sunion_left _ _ _ hq⟩

/-- and the enclosing scheduler has been told, so that next inner tick does come (composition
with C07 `no_interrupt_lost` at the master, or with this theorem one level up). -/
theorem queued_means_told (acts : List NAct) (c : Comp) (hc : c ∈ (({} : NSt).run acts).owed)
    (hidle : (({} : NSt).run acts).ticking = none) : (({} : NSt).run acts).upOwed = true := by
  have h := (nested_no_interrupt_lost acts).owed c hc
  rcases h with ⟨rem, hr, _⟩ | ⟨_, hu⟩
  · simp [hidle] at hr
  · exact hu

/-- emptying the queue after the tick instead of before loses the interrupt (the seeded defect):
interrupt during the running tick, tick ends — the component is owed an update but is neither
queued nor a root. -/
theorem clear_after_tick_loses :
    let s0 : NSt := { ticking := some [] }
    let s1 := (s0.stepLate (.interrupt "c")).getD s0
    let s2 := (s1.stepLate .endTick).getD s1
    "c" ∈ s2.owed ∧ "c" ∉ s2.queued ∧ s2.ticking = none := by
  decide

end Tickit
