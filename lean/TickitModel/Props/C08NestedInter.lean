/-
C08 / C01 through nesting — FULLY CONCURRENT: the inner ticks of sibling system components
INTERLEAVE.

`Core/SimAny.lean` (`TickLevelAny`) treats the answer of a system component as one atomic step.
`Core/SimInter.lean` (`IStep`, `TickInter`) is the small-step semantics in which every scheduler level
that is inside a tick — the ticked level, the inner level of every system component whose `Input`
has been delivered and whose inner tick is not over, recursively — takes its steps (answer a
pending dispatch completely / deliver an `Input` to a system component / take in the `Output` of a
system component whose inner tick is over) in ANY interleaving with the steps of all other active
levels.  This file proves, for every nesting depth:

 1. `atomic_is_interleaved`: every `TickLevelAny` execution is an interleaved execution;
 2. `interleaved_has_atomic`: every complete interleaved execution of a tick has an ATOMIC execution
    from the same start state with the SAME exposed output changes whose final state has, under every
    key, the same device state, update count, scheduler state and observation sequence (only the
    order of the keys inside the maps and the interleaving of the global observation list differ);
    hence (`interleaved_agrees_with_every_atomic`) it ends in a state equivalent to that of EVERY
    atomic execution, all interleaved executions agree (`interleaved_deterministic`), they agree with
    the FIFO model, which completes the tick (`interleaved_fifo_exists`), and
 3. `interleaved_same_observations`: the per-device observations are the same in all of them.
Also C01 "at most once per tick" (`interleaved_update_at_most_once`) and the frame property.
-/
import TickitModel.Lemmas.InterRun
import TickitModel.Props.C08NestedAny
import TickitModel.Props.C01NestedAny

namespace Tickit

/-- **1. Atomic executions are interleaved executions.**  Every any-order execution of a tick in
which inner ticks are atomic (`TickLevelAny`) is a complete interleaved execution (`TickInter`) with
the same final state and the same exposed output changes: it is the interleaving in which a system
component, once its `Input` is delivered, takes all the steps of its inner tick before anything
else happens.  (No assumption on the configuration.) -/
theorem atomic_is_interleaved (S : Static) (orc : Oracle) (lvl : Comp) (t : SimTime)
    (roots : List Comp) (inCh : List (Port × V)) (st : SimSt) (r : SimSt × List (Port × V))
    (h : TickLevelAny S orc lvl t roots inCh st r) : TickInter S orc lvl t roots inCh st r :=
  tickLevelAny_inter h

/-- the FIFO model is one of the interleaved executions -/
theorem fifo_is_interleaved (S : Static) (orc : Oracle) (fuel : Nat) (lvl : Comp) (t : SimTime)
    (roots : List Comp) (inCh : List (Port × V)) (st : SimSt) (r : SimSt × List (Port × V))
    (h : tickLevel S orc fuel lvl t roots inCh st = .ok r) : TickInter S orc lvl t roots inCh st r :=
  tickLevelAny_inter (tickLevel_any fuel lvl t roots inCh st r h)

/-- **2. Every interleaved execution has an atomic counterpart.**  On a valid configuration, every
complete interleaved execution of a tick — the inner ticks of sibling system components, at every
depth, interleaved step by step in any way — has an execution with ATOMIC inner ticks from the same
start state that exposes the SAME output changes and whose final state holds under EVERY key `x`
exactly the same device-component state, update count, scheduler state (wakeups, queued interrupts,
initial-tick flag) and observation sequence.  (The two final states differ at most in the order of
the keys of their maps and in how the observations of different devices are interleaved in the
global list.)  For the code: running the inner ticks of system simulations concurrently cannot
produce an outcome that running them one at a time could not produce. -/
theorem interleaved_has_atomic (S : Static) (hS : S.Valid) (orc : Oracle) (lvl : Comp) (t : SimTime)
    (roots : List Comp) (inCh : List (Port × V)) (st : SimSt) (r : SimSt × List (Port × V))
    (h : TickInter S orc lvl t roots inCh st r) :
    ∃ st'', TickLevelAny S orc lvl t roots inCh st (st'', r.2) ∧
      ∀ x, agetD st''.devs x {} = agetD r.1.devs x {} ∧ agetD st''.count x 0 = agetD r.1.count x 0 ∧
        st''.sched x = r.1.sched x ∧ st''.obsOf x = r.1.obsOf x := by
  obtain ⟨st'', ha, hl⟩ := tickInter_atomic hS h
  exact ⟨st'', ha, fun x => (loc_eq_iff _ _ x).1 (hl x)⟩

/-- … in terms of state equivalence: the atomic counterpart ends in an equivalent state. -/
theorem interleaved_equiv_atomic (S : Static) (hS : S.Valid) (orc : Oracle) (lvl : Comp) (t : SimTime)
    (roots : List Comp) (inCh : List (Port × V)) (st : SimSt) (hwf : st.WakeWF)
    (r : SimSt × List (Port × V)) (h : TickInter S orc lvl t roots inCh st r) :
    ∃ st'', TickLevelAny S orc lvl t roots inCh st (st'', r.2) ∧ st''.Equiv r.1 := by
  obtain ⟨st'', ha, hl⟩ := tickInter_atomic hS h
  exact ⟨st'', ha, LocEq.equiv hl ((tickLevelAny_post1 hS ha).wf hwf)⟩

/-- **2'. Every interleaved execution agrees with EVERY atomic execution.**  On a valid
configuration, a complete interleaved execution of a tick and ANY any-order execution with atomic
inner ticks of the same tick (same time, roots equal as sets, input changes equal as mappings,
equivalent start states) end in equivalent states and expose the same output changes. -/
theorem interleaved_agrees_with_every_atomic (S : Static) (hS : S.Valid) (orc : Oracle) (lvl : Comp)
    (t : SimTime) (roots roots' : List Comp) (inCh inCh' : List (Port × V)) (st st' : SimSt)
    (r r' : SimSt × List (Port × V))
    (hroots : ∀ c, c ∈ roots ↔ c ∈ roots') (hin : MapEq inCh inCh')
    (hn : (akeys inCh).Nodup) (hn' : (akeys inCh').Nodup) (hst : st.Equiv st')
    (h1 : TickInter S orc lvl t roots inCh st r)
    (h2 : TickLevelAny S orc lvl t roots' inCh' st' r') :
    r.1.Equiv r'.1 ∧ MapEq r.2 r'.2 := by
  obtain ⟨st'', ha, hl⟩ := tickInter_atomic hS h1
  have hwf : st.WakeWF := fun x => (hst x).sch.ua
  have he : st''.Equiv r.1 := LocEq.equiv hl ((tickLevelAny_post1 hS ha).wf hwf)
  obtain ⟨d1, d2⟩ := nested_any_order_deterministic S hS orc lvl t roots roots' inCh inCh' st st'
    (st'', r.2) r' hroots hin hn hn' hst ha h2
  exact ⟨he.symm.trans d1, d2⟩

/-- **2''. Schedule independence, fully concurrent.**  Two complete interleaved executions of the
same tick (same time, roots equal as sets, input changes equal as mappings) started in equivalent
states end in equivalent states and expose the same output changes — whatever the answer orders at
every level AND however the steps of the active levels were interleaved. -/
theorem interleaved_deterministic (S : Static) (hS : S.Valid) (orc : Oracle) (lvl : Comp)
    (t : SimTime) (roots roots' : List Comp) (inCh inCh' : List (Port × V)) (st st' : SimSt)
    (r r' : SimSt × List (Port × V))
    (hroots : ∀ c, c ∈ roots ↔ c ∈ roots') (hin : MapEq inCh inCh')
    (hn : (akeys inCh).Nodup) (hn' : (akeys inCh').Nodup) (hst : st.Equiv st')
    (h1 : TickInter S orc lvl t roots inCh st r)
    (h2 : TickInter S orc lvl t roots' inCh' st' r') :
    r.1.Equiv r'.1 ∧ MapEq r.2 r'.2 := by
  obtain ⟨st2, ha2, hl2⟩ := tickInter_atomic hS h2
  have hwf' : st'.WakeWF := fun x => (hst x).sch.ub
  have he2 : st2.Equiv r'.1 := LocEq.equiv hl2 ((tickLevelAny_post1 hS ha2).wf hwf')
  obtain ⟨d1, d2⟩ := interleaved_agrees_with_every_atomic S hS orc lvl t roots roots' inCh inCh' st st'
    r (st2, r'.2) hroots hin hn hn' hst h1 ha2
  exact ⟨d1.trans he2, d2⟩

/-- every interleaved execution agrees with the FIFO model, when the model completes the tick -/
theorem interleaved_agrees_with_fifo (S : Static) (hS : S.Valid) (orc : Oracle) (fuel : Nat)
    (lvl : Comp) (t : SimTime) (roots : List Comp) (inCh : List (Port × V))
    (hn : (akeys inCh).Nodup) (st : SimSt) (hwf : st.WakeWF) (rf r : SimSt × List (Port × V))
    (hf : tickLevel S orc fuel lvl t roots inCh st = .ok rf)
    (h : TickInter S orc lvl t roots inCh st r) :
    r.1.Equiv rf.1 ∧ MapEq r.2 rf.2 :=
  interleaved_agrees_with_every_atomic S hS orc lvl t roots roots inCh inCh st st r rf
    (fun _ => Iff.rfl) (mapEq_refl _) hn hn (.refl hwf) h
    (fifo_is_any S orc fuel lvl t roots inCh st rf hf)

/-- **the FIFO model completes every tick that has an interleaved execution, and agrees with it**:
for every sufficiently large fuel `tickLevel` completes the same tick from the same state, in an
equivalent state with the same exposed output changes. -/
theorem interleaved_fifo_exists (S : Static) (hS : S.Valid) (orc : Oracle) (lvl : Comp) (t : SimTime)
    (roots : List Comp) (inCh : List (Port × V)) (hn : (akeys inCh).Nodup) (st : SimSt)
    (hwf : st.WakeWF) (r : SimSt × List (Port × V))
    (h : TickInter S orc lvl t roots inCh st r) :
    ∃ F, ∀ fuel, F ≤ fuel → ∃ rf, tickLevel S orc fuel lvl t roots inCh st = .ok rf ∧
      r.1.Equiv rf.1 ∧ MapEq r.2 rf.2 := by
  obtain ⟨st'', ha, _⟩ := tickInter_atomic hS h
  obtain ⟨F, hF⟩ := any_order_fifo_exists S hS orc lvl t roots inCh hn st hwf _ ha
  refine ⟨F, fun fuel hfu => ?_⟩
  obtain ⟨rf, hrf, _⟩ := hF fuel hfu
  exact ⟨rf, hrf, interleaved_agrees_with_fifo S hS orc fuel lvl t roots inCh hn st hwf rf r hrf h⟩

/-- **3. C08 through nesting, fully concurrent.**  The sequence of `(time, inputs)` observations
made by each device, at whatever depth it lives, is the same in ALL complete interleaved executions
of a tick: it depends neither on the answer orders at the levels nor on how the inner ticks of
sibling system components were interleaved. -/
theorem interleaved_same_observations (S : Static) (hS : S.Valid) (orc : Oracle) (lvl : Comp)
    (t : SimTime) (roots roots' : List Comp) (inCh inCh' : List (Port × V)) (st st' : SimSt)
    (r r' : SimSt × List (Port × V))
    (hroots : ∀ c, c ∈ roots ↔ c ∈ roots') (hin : MapEq inCh inCh')
    (hn : (akeys inCh).Nodup) (hn' : (akeys inCh').Nodup) (hst : st.Equiv st')
    (h1 : TickInter S orc lvl t roots inCh st r)
    (h2 : TickInter S orc lvl t roots' inCh' st' r') (d : Comp) :
    ObsEq (r.1.obsOf d) (r'.1.obsOf d) :=
  ((interleaved_deterministic S hS orc lvl t roots roots' inCh inCh' st st' r r' hroots hin hn hn' hst
    h1 h2).1 d).ob

/-- **frame, fully concurrent**: a complete interleaved execution of a tick of level `lvl` changes
nothing that is kept under a key which is neither `lvl` nor below it; wakeup maps stay dicts; the
exposed output changes form a dict. -/
theorem interleaved_frame (S : Static) (hS : S.Valid) (orc : Oracle) (lvl : Comp) (t : SimTime)
    (roots : List Comp) (inCh : List (Port × V)) (st : SimSt) (r : SimSt × List (Port × V))
    (h : TickInter S orc lvl t roots inCh st r) :
    (∀ x, x ≠ lvl → ¬ S.Below lvl x → r.1.loc x = st.loc x) ∧ (st.WakeWF → r.1.WakeWF) ∧
      (akeys r.2).Nodup := by
  obtain ⟨st'', ha, hl⟩ := tickInter_atomic hS h
  have p := tickLevelAny_post1 hS ha
  exact ⟨fun x h1 h2 => (hl x).symm.trans (p.frame x h1 h2), fun hwf => LocEq.wakeWF hl (p.wf hwf),
    p.nodup⟩

/-- **C01 through nesting, fully concurrent, at most once.**  In every complete interleaved
execution of a tick every component's observation sequence grows by at most one entry, stamped with
the tick's time: no device, at whatever depth, is updated twice in a tick. -/
theorem interleaved_update_at_most_once (S : Static) (hS : S.Valid) (orc : Oracle) (lvl : Comp)
    (t : SimTime) (roots : List Comp) (inCh : List (Port × V)) (hn : (akeys inCh).Nodup) (st : SimSt)
    (r : SimSt × List (Port × V)) (h : TickInter S orc lvl t roots inCh st r) (x : Comp) :
    r.1.obsOf x = st.obsOf x ∨ ∃ m, r.1.obsOf x = st.obsOf x ++ [(t, m)] := by
  obtain ⟨st'', ha, hl⟩ := tickInter_atomic hS h
  have hx : st''.obsOf x = r.1.obsOf x := congrArg SLoc.ob (hl x)
  rw [← hx]
  exact any_order_update_at_most_once S hS orc lvl t roots inCh hn st _ ha x

end Tickit
