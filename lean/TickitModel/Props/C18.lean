/-
C18 — adapter messages reach exactly the matching command; interrupt iff declared.
(The pattern matcher of each command is a parameter; decoding and whitespace stripping,
command selection, interrupt placement and reply writing are modelled.)
-/
import TickitModel.Lemmas.MiscLemmas

namespace Tickit

variable {Args : Type}

/-- the command invoked is the first, in registration order, whose pattern matches the
whole message after that command's declared decoding; it is invoked with the captured
groups and reports that command's interrupt flag. -/
theorem handle_first_match (cmds : List (Cmd Args)) (data : Bytes) (i : Nat) (a : Args) (intr : Bool) :
    handle cmds data = .call i a intr ↔
      ∃ c, cmds[i]? = some c ∧ c.parse data = some a ∧ intr = c.interrupt ∧
        ∀ j, j < i → ∀ c', cmds[j]? = some c' → c'.parse data = none := by
  unfold handle
  rw [handleFrom_call_iff]
  constructor
  · rintro ⟨j, c, hi, hj, hp, hint, hall⟩
    have : i = j := by omega
    subst this
    exact ⟨c, hj, hp, hint, hall⟩
  · rintro ⟨c, hj, hp, hint, hall⟩
    exact ⟨i, c, by omega, hj, hp, hint, hall⟩

/-- no command matches ⇒ unknown; and conversely. -/
theorem handle_unknown_iff (cmds : List (Cmd Args)) (data : Bytes) :
    handle cmds data = .unknown ↔ ∀ c ∈ cmds, c.parse data = none := by
  exact handleFrom_unknown_iff cmds data 0

/-- bytes that cannot be decoded do not match a text command (and do not raise): they fall
through to the next command. -/
theorem parse_undecodable (c : Cmd Args) (data : Bytes) (hk : c.kind = .text)
    (hbad : String.fromUTF8? (ByteArray.mk data.toArray) = none) : c.parse data = none := by
  simp [Cmd.parse, convert, hk, hbad]

/-- a bytes command sees the raw bytes; a text command sees the decoded, stripped text. -/
theorem parse_bytes (c : Cmd Args) (data : Bytes) (hk : c.kind = .bytes) :
    c.parse data = c.matcher (.bytes data) := by
  simp [Cmd.parse, convert, hk]

theorem parse_text (c : Cmd Args) (data : Bytes) (hk : c.kind = .text) (s : String)
    (hs : String.fromUTF8? (ByteArray.mk data.toArray) = some s) :
    c.parse data = c.matcher (.text (pyStrip s.toList)) := by
  simp [Cmd.parse, convert, hk, hs]

/-- `strip` removes exactly the leading and trailing whitespace. -/
theorem pyStrip_spec (s : List Char) :
    ∃ pre post, s = pre ++ pyStrip s ++ post ∧ (∀ c ∈ pre, pyIsSpace c = true) ∧
      (∀ c ∈ post, pyIsSpace c = true) ∧
      (∀ c, (pyStrip s).head? = some c → pyIsSpace c = false) ∧
      (∀ c, (pyStrip s).getLast? = some c → pyIsSpace c = false) := by
  exact strip_spec pyIsSpace s

/-- one chunk, matched: the handler runs exactly once, the interrupt is raised iff the
command is declared interrupting and after the handler, then every reply other than the
empty marker is written once, in order, in the adapter's byte format. -/
theorem tcpChunk_matched (cmds : List (Cmd Args)) (replies : Nat → Args → List (Option Bytes))
    (pre post : Bytes) (data : Bytes) (i : Nat) (a : Args) (intr : Bool)
    (h : handle cmds data = .call i a intr) :
    tcpChunk cmds replies pre post data =
      ConnEv.invoke i a :: ((if intr then [ConnEv.interrupt] else []) ++
        ((replies i a).filterMap id).map (fun r => ConnEv.write (pre ++ r ++ post))) := by
  simp [tcpChunk, h, fmt]

/-- one chunk, unmatched: no handler runs, no interrupt, exactly the unknown-command reply. -/
theorem tcpChunk_unknown (cmds : List (Cmd Args)) (replies : Nat → Args → List (Option Bytes))
    (pre post : Bytes) (data : Bytes) (h : handle cmds data = .unknown) :
    tcpChunk cmds replies pre post data = [ConnEv.write (pre ++ unknownReply.toUTF8.toList ++ post)] := by
  simp [tcpChunk, h, fmt]

/-- a connection: chunks are handled in arrival order, each independently. -/
theorem tcpConn_append (cmds : List (Cmd Args)) (replies : Nat → Args → List (Option Bytes))
    (pre post : Bytes) (cs1 cs2 : List Bytes) :
    tcpConn cmds replies pre post (cs1 ++ cs2) =
      tcpConn cmds replies pre post cs1 ++ tcpConn cmds replies pre post cs2 := by
  simp [tcpConn]

/-- the number of handler invocations on a connection never exceeds the number of chunks,
and interrupts never exceed invocations. -/
theorem tcpConn_counts (cmds : List (Cmd Args)) (replies : Nat → Args → List (Option Bytes))
    (pre post : Bytes) (cs : List Bytes) :
    let evs := tcpConn cmds replies pre post cs
    (evs.filter (fun e => match e with | .invoke _ _ => true | _ => false)).length ≤ cs.length ∧
    (evs.filter (fun e => match e with | .interrupt => true | _ => false)).length ≤
      (evs.filter (fun e => match e with | .invoke _ _ => true | _ => false)).length := by
  exact conn_counts cmds replies pre post cs _ _ (fun _ _ => rfl) rfl (fun _ => rfl)
    (fun _ _ => rfl) (fun _ => rfl)

end Tickit
