/-
C08 / C03 through nesting, whole runs — every tick a fully concurrent (INTERLEAVED) execution.

`MasterRunInter` (`Core/SimInter.lean`) is the master loop of `Core/Sim.lean` (wakeup bookkeeping
between ticks, pacing, external stimuli) with every tick replaced by an arbitrary complete
interleaved execution `TickInter` of it.  Every such run is matched, tick by tick, by a run over
atomic any-order ticks (`MasterRunAny`) with the same ticks and a final state that has the same
view under every key; so everything proved for `MasterRunAny` in `Props/C08NestedAnyRun.lean` holds
for runs whose system simulations tick concurrently: determinism of whole runs, agreement with the
FIFO model, and refinement of the flat run over the resolved wiring.
-/
import TickitModel.Lemmas.InterRun
import TickitModel.Props.C08NestedAnyRun

namespace Tickit

/-- a run over atomic ticks is a run over interleaved ticks -/
theorem any_run_is_interleaved (S : Static) (orc : Oracle) (fuel : Nat) (sp : Speed)
    (steps nTicks : Nat) (m : MasterSt) (stims : List Stim) (acc : List TickRec)
    (r : MasterSt × List TickRec) (h : MasterRunAny S orc fuel sp steps nTicks m stims acc r) :
    MasterRunInter S orc fuel sp steps nTicks m stims acc r := by
  induction h with
  | outOfSteps => exact .outOfSteps
  | ticksDone => exact .ticksDone
  | stim hs _ ih => exact .stim hs ih
  | tick hs hfw ht _ ih => exact .tick hs hfw (tickLevelAny_inter ht) ih
  | idle hs hn => exact .idle hs hn

/-- **every run over interleaved ticks has a run over atomic ticks** (initial tick and master
loop): the same external stimuli are handled, the same ticks are done (same simulation times, real
times and roots), and the final master states have the same clocks and, under every key, the same
device state, update count, scheduler state and observation sequence. -/
theorem interleaved_run_has_atomic_run (S : Static) (hS : S.Valid) (orc : Oracle) (fuel : Nat)
    (t0 : SimTime) (now : Int) (sp : Speed) (steps nTicks : Nat) (stims : List Stim)
    (r0 : MasterSt × TickRec) (r : MasterSt × List TickRec)
    (h1 : MasterInitialInter S orc t0 now r0)
    (h2 : MasterRunInter S orc fuel sp steps nTicks r0.1 stims [r0.2] r) :
    ∃ r0' r', MasterInitialAny S orc t0 now r0' ∧
      MasterRunAny S orc fuel sp steps nTicks r0'.1 stims [r0'.2] r' ∧ r'.2 = r.2 ∧
      r'.1.tickerTime = r.1.tickerTime ∧ r'.1.lastReal = r.1.lastReal ∧ r'.1.now = r.1.now ∧
      ∀ x, r'.1.sim.loc x = r.1.sim.loc x := by
  obtain ⟨r0', hi, e1, e2⟩ := masterInitialInter_any hS h1
  obtain ⟨r', hr, f1, f2⟩ := masterRunInter_any hS h2 r0'.1 e1
  rw [← e2] at hr
  exact ⟨r0', r', hi, hr, f2, f1.tickerTime, f1.lastReal, f1.now, f1.sim⟩

/-- **Schedule independence of whole runs, fully concurrent.**  Two runs of the master loop over
the same valid configuration, recorded device responses, initial time, speed and external stimuli
— every tick an arbitrary complete interleaved execution — do the same ticks and end in equivalent
states; every device, at whatever depth, has made the same sequence of observations. -/
theorem interleaved_run_deterministic (S : Static) (hS : S.Valid) (orc : Oracle) (fuel : Nat)
    (t0 : SimTime) (now : Int) (sp : Speed) (steps nTicks : Nat) (stims : List Stim)
    (r0 r0' : MasterSt × TickRec) (r r' : MasterSt × List TickRec)
    (h1 : MasterInitialInter S orc t0 now r0) (h1' : MasterInitialInter S orc t0 now r0')
    (h2 : MasterRunInter S orc fuel sp steps nTicks r0.1 stims [r0.2] r)
    (h2' : MasterRunInter S orc fuel sp steps nTicks r0'.1 stims [r0'.2] r') :
    r.1.sim.Equiv r'.1.sim ∧ TicksEquiv r.2 r'.2 ∧ ∀ d, ObsEq (r.1.sim.obsOf d) (r'.1.sim.obsOf d) := by
  obtain ⟨a0, a, ai, ar, at2, _, _, _, al⟩ :=
    interleaved_run_has_atomic_run S hS orc fuel t0 now sp steps nTicks stims r0 r h1 h2
  obtain ⟨b0, b, bi, br, bt2, _, _, _, bl⟩ :=
    interleaved_run_has_atomic_run S hS orc fuel t0 now sp steps nTicks stims r0' r' h1' h2'
  obtain ⟨d1, d2, _⟩ := any_order_run_deterministic S hS orc fuel t0 now sp steps nTicks stims a0 b0 a b
    ai bi ar br
  have hsim : r.1.sim.Equiv r'.1.sim := by
    intro x
    rw [← al x, ← bl x]
    exact d1.sim x
  rw [at2, bt2] at d2
  exact ⟨hsim, d2, fun d => (hsim d).ob⟩

/-- every run over interleaved ticks agrees with the FIFO run, when the model completes the latter -/
theorem interleaved_run_agrees_with_fifo (S : Static) (hS : S.Valid) (orc : Oracle) (fuel : Nat)
    (t0 : SimTime) (now : Int) (sp : Speed) (steps nTicks : Nat) (stims : List Stim)
    (m m2 : MasterSt) (tr : TickRec) (ticks : List TickRec)
    (hf : masterInitial S orc fuel t0 now = .ok (m, tr))
    (hf2 : masterRun S orc fuel sp steps nTicks m stims [tr] = .ok (m2, ticks))
    (r0 : MasterSt × TickRec) (r : MasterSt × List TickRec)
    (h1 : MasterInitialInter S orc t0 now r0)
    (h2 : MasterRunInter S orc fuel sp steps nTicks r0.1 stims [r0.2] r) :
    r.1.sim.Equiv m2.sim ∧ TicksEquiv r.2 ticks ∧ ∀ d, ObsEq (r.1.sim.obsOf d) (m2.sim.obsOf d) := by
  obtain ⟨a0, a, ai, ar, at2, _, _, _, al⟩ :=
    interleaved_run_has_atomic_run S hS orc fuel t0 now sp steps nTicks stims r0 r h1 h2
  obtain ⟨d1, d2, _⟩ := any_order_run_agrees_with_fifo S hS orc fuel t0 now sp steps nTicks stims m m2
    tr ticks hf hf2 a0 a ai ar
  have hsim : r.1.sim.Equiv m2.sim := by
    intro x
    rw [← al x]
    exact d1.sim x
  rw [at2] at d2
  exact ⟨hsim, d2, fun d => (hsim d).ob⟩

/-- **C03 / C08 through system boundaries, fully concurrent, without any assumption on the FIFO
model.**  Every run (initial tick + callback ticks) of a valid nested configuration in which every
tick is an arbitrary complete INTERLEAVED execution — system simulations at every depth ticking
concurrently — has, device by device, the observations of a run of the flat system over the
resolved (flattened) wiring, which is `Synced` (the inputs every device was given at every update
are, port by port, the latest values reported on the resolved source outputs) and has the run's
tick times.  All theorems about `FlatRun` (C03, C04, C06, C08) thereby apply to its observations. -/
theorem interleaved_run_refines_flatRun (S : Static) (hS : S.Valid) (orc : Oracle) (fuel0 rfuel : Nat)
    (hr : S.resolveFuel ≤ rfuel) (t0 : SimTime) (now : Int) (sp : Speed) (steps nTicks : Nat)
    (r0 : MasterSt × TickRec) (r : MasterSt × List TickRec)
    (h1 : MasterInitialInter S orc t0 now r0)
    (h2 : MasterRunInter S orc fuel0 sp steps nTicks r0.1 [] [r0.2] r) :
    ∃ (devs : DevSeq V) (st : FlatSt V) (times : List SimTime),
      FlatRun (Wiring.fromInverse (S.flatInverse rfuel)) devs t0 (r.2.length - 1) st times ∧
      Synced (Wiring.fromInverse (S.flatInverse rfuel)) st ∧
      times = (r.2.map (·.time)).reverse ∧
      ∀ d, ObsEq (r.1.sim.obsOf d) (st.obsOf d) := by
  obtain ⟨a0, a, ai, ar, at2, _, _, _, al⟩ :=
    interleaved_run_has_atomic_run S hS orc fuel0 t0 now sp steps nTicks [] r0 r h1 h2
  obtain ⟨devs, st, times, g1, g2, g3, g4⟩ :=
    any_order_run_refines_flatRun S hS orc fuel0 rfuel hr t0 now sp steps nTicks a0 a ai ar
  rw [at2] at g1 g3
  refine ⟨devs, st, times, g1, g2, g3, fun d => ?_⟩
  have : r.1.sim.obsOf d = a.1.sim.obsOf d := (congrArg SLoc.ob (al d)).symm
  rw [this]
  exact g4 d

end Tickit
