/-
C07 (two levels composed) — an interrupt raised by a device INSIDE a system simulation is passed
up as an interrupt of the system component `sys`; the master therefore ticks `sys`; that tick's
`on_tick` starts an inner tick which has the device among its roots; and neither tick can end
before the device's update has begun.

`Props/C07.lean` proves the master half, `Props/C07Nested.lean` the nested half; here the two
transition systems run side by side (`TSt`, Core/TwoLevel.lean) and the composition is a theorem.

Every statement is about `s = ({} : TSt).run sys acts` for an arbitrary history `acts` (any
interleaving of inner interrupts, top-level interrupts, answers, tick starts, update beginnings and
tick ends; actions that are not enabled are ignored) and an arbitrary name `sys`.
-/
import TickitModel.Lemmas.TwoLevelLemmas
import TickitModel.Props.C07
import TickitModel.Props.C07Nested

namespace Tickit
open Tickit.TwoLevel

/-! ## C1 — the invariant of the composition -/

/-- **C1**: in every reachable state both levels keep their invariants (`MInv`: C07
`no_interrupt_lost`; `NInv`: `nested_no_interrupt_lost`) and they are LINKED:
* `upOwed → sys ∈ owed`: whenever the nested scheduler counts on the enclosing one having been
  told, the master does owe `sys` an update (it was told, and `sys`'s update has not begun since);
* everything queued in the nested scheduler has been passed up (`queued → upOwed`);
* an inner tick only runs while a master tick runs. -/
theorem two_level_inv (sys : Comp) (acts : List TAct) (s : TSt)
    (hs : s = ({} : TSt).run sys acts) :
    MInv s.m ∧ NInv s.n ∧
      (s.n.upOwed = true → sys ∈ s.m.owed) ∧
      (∀ c ∈ s.n.queued, s.n.upOwed = true) ∧
      (s.m.ticking = none → s.n.ticking = none) := by
  subst hs
  have h := (TInv.init sys).run acts
  exact ⟨h.m, h.n, h.link, h.told, h.tick⟩

/-- the invariant is inductive: it holds initially and every enabled action preserves it
(in particular `beginSys` resets `upOwed` and removes `sys` from the master's `owed` together,
and an inner interrupt DURING the inner tick sets both again). -/
theorem two_level_inv_step (sys : Comp) (s s' : TSt) (a : TAct) (h : TInv sys s)
    (hs : s.step sys a = some s') : TInv sys s' := by
  exact h.step a hs

/-! ## C2 — the chain of obligations -/

/-- **C2**: an inner component that is owed an update (it raised an interrupt and its update has
not begun since) is an unbegun root of the running inner tick, or it is queued in the nested
scheduler AND the master owes `sys` an update: `sys` is an unbegun root of the running master
tick, or `sys` has an unserved interrupt stamped `i` and a wakeup `w ≤ i`. -/
theorem inner_interrupt_not_lost (sys : Comp) (acts : List TAct) (s : TSt)
    (hs : s = ({} : TSt).run sys acts) (c : Comp) (hc : c ∈ s.n.owed) :
    (∃ rem, s.n.ticking = some rem ∧ c ∈ rem) ∨
    (c ∈ s.n.queued ∧ sys ∈ s.m.owed ∧
      ((∃ rem, s.m.ticking = some rem ∧ sys ∈ rem) ∨
       (∃ i w, alookup s.m.pend sys = some i ∧ alookup s.m.wake sys = some w ∧ w ≤ i))) := by
  subst hs
  have h := (TInv.init sys).run acts
  rcases h.n.owed c hc with hr | ⟨hq, hu⟩
  · exact Or.inl hr
  · right
    have hso := h.link hu
    refine ⟨hq, hso, ?_⟩
    rcases h.m.owed sys hso with hr | ⟨i, hi⟩
    · exact Or.inl hr
    · obtain ⟨w, hw, hwi⟩ := h.m.pend_wake sys i hi
      exact Or.inr ⟨i, w, hi, hw, hwi⟩

/-- the same for every QUEUED inner component, owed or not (e.g. one that raised an interrupt
while it was an unbegun root and has begun that update since): the master owes `sys` an update. -/
theorem queued_has_master_obligation (sys : Comp) (acts : List TAct) (s : TSt)
    (hs : s = ({} : TSt).run sys acts) (c : Comp) (hq : c ∈ s.n.queued) :
    sys ∈ s.m.owed ∧ (s.SysRoot sys ∨ s.SysPending sys) := by
  subst hs
  have h := (TInv.init sys).run acts
  have hso := h.link (h.told c hq)
  refine ⟨hso, ?_⟩
  rcases h.m.owed sys hso with hr | ⟨i, hi⟩
  · exact Or.inl hr
  · obtain ⟨w, hw, hwi⟩ := h.m.pend_wake sys i hi
    exact Or.inr ⟨i, w, hi, hw, hwi⟩

/-! ## C3 — progress along the chain, as safety statements -/

/-- **C3 (a)**: the master is idle (then no inner tick runs either) and `c` is owed an update.
Then `startTick` is enabled — the master has a wakeup, it cannot go quiet — and the tick it starts,
at time `t`, is not later than `sys`'s wakeup `w`, which is not later than the stamp `i` of the
unserved interrupt; `sys` is among the roots exactly if `w = t`; otherwise (an EARLIER wakeup of
other components is served first) `sys` keeps its pending record and wakeup, and `c` stays queued. -/
theorem idle_master_ticks_sys (sys : Comp) (acts : List TAct) (s : TSt)
    (hs : s = ({} : TSt).run sys acts) (c : Comp)
    (hidle : s.m.ticking = none) (hc : c ∈ s.n.owed) :
    s.n.ticking = none ∧
    ∃ s' cs t i w,
      s.step sys .startTick = some s' ∧ firstWakeups s.m.wake = (cs, some t) ∧
      s'.m.ticking = some cs ∧ s'.m.tickerTime = t ∧ s'.n = s.n ∧ c ∈ s'.n.queued ∧
      alookup s.m.pend sys = some i ∧ alookup s.m.wake sys = some w ∧ t ≤ w ∧ w ≤ i ∧
      (sys ∈ cs ↔ w = t) ∧
      (sys ∉ cs → alookup s'.m.pend sys = some i ∧ alookup s'.m.wake sys = some w) := by
  subst hs
  have h := (TInv.init sys).run acts
  generalize ({} : TSt).run sys acts = s at h hidle hc
  have hnt := h.tick hidle
  refine ⟨hnt, ?_⟩
  rcases h.n.owed c hc with ⟨rem, hr, _⟩ | ⟨hq, hu⟩
  · rw [hnt] at hr; cases hr
  have hso := h.link hu
  rcases h.m.owed sys hso with ⟨rem, hr, _⟩ | ⟨i, hi⟩
  · rw [hidle] at hr; cases hr
  obtain ⟨w, hw, hwi⟩ := h.m.pend_wake sys i hi
  cases hm : (firstWakeups s.m.wake).2 with
  | none =>
    rw [firstWakeups_none] at hm
    rw [hm] at hw
    simp [alookup] at hw
  | some t =>
    have hf : firstWakeups s.m.wake = ((firstWakeups s.m.wake).1, some t) := by rw [← hm]
    obtain ⟨hcs, hle, _, _⟩ := firstWakeups_spec s.m.wake h.m.wakeU _ t hf
    have hstep : s.step sys .startTick = some { s with m :=
        { s.m with wake := delWakeups s.m.wake (firstWakeups s.m.wake).1,
                   pend := delWakeups s.m.pend (firstWakeups s.m.wake).1,
                   tickerTime := t, ticking := some (firstWakeups s.m.wake).1 } } := by
      have hmstep : s.m.step .startTick = some
          { s.m with wake := delWakeups s.m.wake (firstWakeups s.m.wake).1,
                     pend := delWakeups s.m.pend (firstWakeups s.m.wake).1,
                     tickerTime := t, ticking := some (firstWakeups s.m.wake).1 } := by
        simp only [MSt.step]
        rw [hidle, hf]
      simp only [TSt.step, hmstep, Option.map_some]
    refine ⟨_, (firstWakeups s.m.wake).1, t, i, w, hstep, hf, rfl, rfl, rfl, hq, hi, hw,
      hle sys w hw, hwi, ?_, ?_⟩
    · rw [hcs sys, hw]
      constructor
      · intro he; exact Option.some.inj he
      · intro he; rw [he]
    · intro hn
      show alookup (delWakeups s.m.pend _) sys = some i ∧ alookup (delWakeups s.m.wake _) sys = some w
      rw [delWakeups_lookup _ h.m.pendU, delWakeups_lookup _ h.m.wakeU]
      simp [hn, hi, hw]

/-- **C3 (b)**: when `sys`'s update begins (`on_tick`, `beginSys due`), the inner tick that starts
has every queued inner component among its roots — in particular every component that is owed an
update; and both sides of the link are reset together. -/
theorem beginSys_roots_owed (sys : Comp) (acts : List TAct) (s : TSt)
    (hs : s = ({} : TSt).run sys acts) (due : List Comp) (s' : TSt)
    (hstep : s.step sys (.beginSys due) = some s') :
    (∀ c ∈ s.n.queued, s'.InnerRoot c) ∧ (∀ c ∈ s.n.owed, s'.InnerRoot c) ∧
      s'.n.upOwed = false ∧ s'.n.queued = [] ∧ sys ∉ s'.m.owed ∧ ¬ s'.SysRoot sys := by
  subst hs
  have h := (TInv.init sys).run acts
  generalize ({} : TSt).run sys acts = s at h hstep
  refine ⟨fun c hq => innerRoot_of_beginSys (Or.inr hq) hstep,
    fun c hc => innerRoot_of_beginSys (innerObl_of_owed h.n hc) hstep, ?_⟩
  obtain ⟨m', n', hm, hn, rfl⟩ := step_beginSys hstep
  obtain ⟨_, hn'⟩ := n_startTick hn
  obtain ⟨rem, _, hmt, hmo⟩ := m_beginUpdate hm
  subst hn'
  refine ⟨rfl, rfl, ?_, ?_⟩
  · show sys ∉ m'.owed
    rw [hmo, List.mem_filter]
    simp
  · rintro ⟨rem', hr, hin⟩
    have hr' : m'.ticking = some rem' := hr
    rw [hmt] at hr'
    cases hr'
    rw [List.mem_filter] at hin
    simp at hin

/-- **C3 (c)**, enabledness: the inner tick cannot end before every root has begun its update;
the master tick cannot end while an inner tick runs, nor before `sys` (if it is a root) has begun
its update; `sys` does not answer while its inner tick runs; `on_tick` is not re-entered. -/
theorem ends_wait (sys : Comp) (s : TSt) :
    (∀ c, s.InnerRoot c → s.step sys .innerEnd = none) ∧
    (s.n.ticking ≠ none → s.step sys .endTick = none) ∧
    (s.SysRoot sys → s.step sys .endTick = none) ∧
    (s.n.ticking ≠ none → ∀ callAt, s.step sys (.output sys callAt) = none) ∧
    (s.n.ticking ≠ none → ∀ due, s.step sys (.beginSys due) = none) := by
  refine ⟨fun c h => innerEnd_disabled_of_innerRoot h, ?_, fun h => endTick_disabled_of_sysRoot h,
    ?_, ?_⟩
  · intro hne
    cases hs : s.step sys .endTick with
    | none => rfl
    | some s' => exact absurd (step_endTick hs).1 hne
  · intro hne callAt
    cases hs : s.step sys (.output sys callAt) with
    | none => rfl
    | some s' => exact absurd ((step_output hs).1 rfl) hne
  · intro hne due
    cases hs : s.step sys (.beginSys due) with
    | none => rfl
    | some s' =>
      obtain ⟨m', n', _, hn, _⟩ := step_beginSys hs
      exact absurd (n_startTick hn).1 hne

/-- **the chain** (`on_tick` … `endTick`): from a reachable state in which `c` is owed an update,
take ANY continuation `pre ++ beginSys due :: mid` after which a master `endTick` is enabled, the
`beginSys` being executed (enabled when its turn comes).  Then somewhere in that continuation
`innerBegin c` is executed — `c`'s update begins after the interrupt was raised and before that
master tick ends — and right after it `c` is no longer owed an update (`TSt.Begins`; it may be
owed one again only by raising a new interrupt). -/
theorem inner_interrupt_chain (sys : Comp) (acts : List TAct) (s : TSt)
    (hs : s = ({} : TSt).run sys acts) (c : Comp) (hc : c ∈ s.n.owed)
    (pre mid : List TAct) (due : List Comp)
    (hb : ((s.run sys pre).step sys (.beginSys due)).isSome = true)
    (he : ((s.run sys (pre ++ TAct.beginSys due :: mid)).step sys .endTick).isSome = true) :
    ∃ h1 h2 s', pre ++ TAct.beginSys due :: mid = h1 ++ TAct.innerBegin c :: h2 ∧
      (s.run sys h1).step sys (.innerBegin c) = some s' ∧ c ∉ s'.n.owed := by
  subst hs
  have h := (TInv.init sys).run acts
  exact chain_core _ (innerObl_of_owed h.n hc) pre mid due hb he

/-- **the chain** (`startTick` … `endTick`): a master tick that starts — at any later point —
with `sys` among its roots cannot end before `c`'s update has begun: no `beginSys` needs to be
assumed, the master tick cannot end without it (and the inner tick it starts cannot end without
`innerBegin c`). -/
theorem inner_interrupt_chain_tick (sys : Comp) (acts : List TAct) (s : TSt)
    (hs : s = ({} : TSt).run sys acts) (c : Comp) (hc : c ∈ s.n.owed)
    (pre mid : List TAct) (s1 : TSt)
    (hst : (s.run sys pre).step sys .startTick = some s1) (hroot : s1.SysRoot sys)
    (he : ((s.run sys (pre ++ TAct.startTick :: mid)).step sys .endTick).isSome = true) :
    s.Begins sys (pre ++ TAct.startTick :: mid) c := by
  subst hs
  have h := (TInv.init sys).run acts
  exact chain_tick _ (innerObl_of_owed h.n hc) pre mid s1 hst hroot he

/-- **the chain**, when the obligation is already attached to the running ticks (`c` is an unbegun
root of the inner tick, or `sys` is an unbegun root of the master tick — by C2 the only other
case is "`sys` has a wakeup not later than its stamp", C3 (a)): the NEXT master `endTick` comes
after `c`'s update has begun. -/
theorem inner_interrupt_chain_current (sys : Comp) (acts : List TAct) (s : TSt)
    (hs : s = ({} : TSt).run sys acts) (c : Comp) (hc : c ∈ s.n.owed)
    (hroot : s.InnerRoot c ∨ s.SysRoot sys) (pre : List TAct)
    (he : ((s.run sys pre).step sys .endTick).isSome = true) :
    s.Begins sys pre c := by
  subst hs
  have h := (TInv.init sys).run acts
  exact chain_current _ (innerObl_of_owed h.n hc) hroot pre he

/-- the debt of an inner component is cleared only by the beginning of its update. -/
theorem inner_owed_cleared_only_by_update (sys : Comp) (s s' : TSt) (a : TAct)
    (hs : s.step sys a = some s') (c : Comp) (hc : c ∈ s.n.owed) (hn : c ∉ s'.n.owed) :
    a = .innerBegin c := by
  cases a with
  | innerInterrupt c' stamp =>
    obtain ⟨m', n', _, hn', rfl⟩ := step_innerInterrupt hs
    have := n_interrupt hn'
    subst this
    exact absurd ((mem_sinsert _ _ _).mpr (Or.inl hc)) hn
  | topInterrupt c' stamp =>
    obtain ⟨_, m', _, rfl⟩ := step_topInterrupt hs
    exact absurd hc hn
  | output c' callAt =>
    obtain ⟨_, m', _, rfl⟩ := step_output hs
    exact absurd hc hn
  | startTick =>
    obtain ⟨m', _, rfl⟩ := step_startTick hs
    exact absurd hc hn
  | beginUpdate c' =>
    obtain ⟨_, m', _, rfl⟩ := step_beginUpdate hs
    exact absurd hc hn
  | beginSys due =>
    obtain ⟨m', n', _, hn', rfl⟩ := step_beginSys hs
    have := (n_startTick hn').2
    subst this
    exact absurd hc hn
  | innerBegin c' =>
    obtain ⟨n', hn', rfl⟩ := step_innerBegin hs
    obtain ⟨rem, _, hn''⟩ := n_beginUpdate hn'
    subst hn''
    have hne : ¬ c ≠ c' := fun hne => hn (mem_filter_ne hc hne)
    have : c = c' := Classical.byContradiction hne
    rw [this]
  | innerEnd =>
    obtain ⟨n', hn', rfl⟩ := step_innerEnd hs
    have := (n_endTick hn').2
    subst this
    exact absurd hc hn
  | endTick =>
    obtain ⟨_, m', _, rfl⟩ := step_endTick hs
    exact absurd hc hn

/-! ## C4 — a checked history

`dev` (inside `sys`) raises an interrupt; the master ticks `sys`; `on_tick` starts the inner tick
rooted at `dev`; `dev`'s update begins; WHILE the inner tick is still running `dev` raises again
(stamp 20) — it is queued for the next inner tick and `sys` is re-interrupted at the master
(owed again, pending record 20, wakeup 20; the stale answer of `sys` asking for a callback at 5000
does not displace it); both running ticks end; the next master tick is at 20 with `sys` as its
root, and the inner tick it starts has `dev` as its root. -/

def c07History1 : List TAct :=
  [.innerInterrupt "dev" 10, .startTick, .beginSys [], .innerBegin "dev",
   .innerInterrupt "dev" 20]

def c07History2 : List TAct :=
  c07History1 ++ [.innerEnd, .output "sys" (some 5000), .endTick]

-- the interrupt arrives while the inner tick runs: queued, `sys` re-interrupted at the master
example :
    let s := ({} : TSt).run "sys" c07History1
    s.n.ticking = some [] ∧ s.m.ticking = some [] ∧ s.n.queued = ["dev"] ∧ s.n.upOwed = true ∧
      s.n.owed = ["dev"] ∧ s.m.owed = ["sys"] ∧ s.m.pend = [("sys", 20)] ∧
      s.m.wake = [("sys", 20)] := by
  decide

-- the running ticks end; nothing is forgotten
example :
    let s := ({} : TSt).run "sys" c07History2
    s.n.ticking = none ∧ s.m.ticking = none ∧ s.n.queued = ["dev"] ∧ s.n.owed = ["dev"] ∧
      s.m.owed = ["sys"] ∧ s.m.pend = [("sys", 20)] ∧ s.m.wake = [("sys", 20)] := by
  decide

-- the next master tick has `sys` as root, the next inner tick has `dev` as root
example :
    let s := ({} : TSt).run "sys" (c07History2 ++ [.startTick])
    s.m.ticking = some ["sys"] ∧ s.m.tickerTime = 20 ∧ s.n.ticking = none := by
  decide

example :
    let s := ({} : TSt).run "sys" (c07History2 ++ [.startTick, .beginSys []])
    s.m.ticking = some [] ∧ s.n.ticking = some ["dev"] ∧ s.n.queued = [] ∧ s.m.owed = [] ∧
      s.n.owed = ["dev"] := by
  decide

-- while `dev` has not begun, neither tick can end; once it has, both can, and nothing is owed
example :
    let s := ({} : TSt).run "sys" (c07History2 ++ [.startTick, .beginSys [], .innerEnd, .endTick])
    s.m.ticking = some [] ∧ s.n.ticking = some ["dev"] := by
  decide

example :
    let s := ({} : TSt).run "sys"
      (c07History2 ++ [.startTick, .beginSys [], .innerBegin "dev", .innerEnd, .endTick])
    s.m.ticking = none ∧ s.n.ticking = none ∧ s.n.owed = [] ∧ s.m.owed = [] ∧ s.m.wake = [] := by
  decide

-- the hypotheses of the chain theorems are satisfiable: after the interrupt that arrived during
-- the inner tick, the continuation `startTick, beginSys [], innerBegin dev, innerEnd` enables the
-- master `endTick`, and the theorem yields the executed `innerBegin "dev"` in it
example :
    ∃ h1 h2 s', [TAct.startTick] ++ TAct.beginSys [] :: [.innerBegin "dev", .innerEnd]
        = h1 ++ TAct.innerBegin "dev" :: h2 ∧
      ((({} : TSt).run "sys" c07History2).run "sys" h1).step "sys" (.innerBegin "dev") = some s' ∧
      "dev" ∉ s'.n.owed :=
  inner_interrupt_chain "sys" c07History2 _ rfl "dev" (by decide)
    [.startTick] [.innerBegin "dev", .innerEnd] [] (by decide) (by decide)

-- without the link the nested invariant alone is not enough (a nested scheduler that queues the
-- interrupt but does NOT raise the system's own interrupt): `dev` is owed an update, the nested
-- scheduler believes the master has been told, but the master owes nothing and never ticks again
theorem not_passed_up_loses :
    let s : TSt := { m := {}, n := (({} : NSt).step (.interrupt "dev")).getD {} }
    "dev" ∈ s.n.owed ∧ NInv s.n ∧ MInv s.m ∧ s.n.upOwed = true ∧ "sys" ∉ s.m.owed ∧
      s.step "sys" .startTick = none := by
  refine ⟨by decide, ?_, MInv.init, by decide, by decide, by decide⟩
  exact NInv.step _ _ (.interrupt "dev") NInv.init rfl

-- an earlier wakeup of an ordinary component is served first; `sys` keeps its record (C3 (a))
example :
    let s := ({} : TSt).run "sys"
      [.output "top" (some 5), .innerInterrupt "dev" 10, .startTick]
    s.m.ticking = some ["top"] ∧ s.m.pend = [("sys", 10)] ∧ s.m.wake = [("sys", 10)] ∧
      s.n.queued = ["dev"] := by
  decide

/-
Scope notes.
* Nothing in this file is left unproved.
* Progress is stated as safety (enabledness + "cannot end before"), as in C07: the model has no
  fairness assumption.  In particular no bound is given on the NUMBER of master ticks before the
  one that has `sys` among its roots: answers may ask for callbacks at arbitrary times (`output c
  (some w)` with any `w`), so ticks of other components at times earlier than `sys`'s wakeup can
  be inserted indefinitely; `idle_master_ticks_sys` says each such tick is at a time `t < w ≤ i`
  and leaves `sys`'s record untouched, and `inner_interrupt_chain_tick` starts from the tick that
  does serve `sys`.
* One nested level.  A deeper nesting is the same argument with `NSt` in the role of the master
  (`upOwed` is then the obligation `queued_means_told` speaks of).
-/

end Tickit
