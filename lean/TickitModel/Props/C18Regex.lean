/-
C18 (extension) — the pattern matcher for the command-pattern fragment is correct with respect
to the denotational semantics of regular expressions.
-/
import TickitModel.Lemmas.RegexLemmas

namespace Tickit

/-- the matcher decides exactly the language of the pattern -/
theorem accepts_iff_matches (r : Regex) (s : List Char) : r.accepts s = true ↔ r.Matches s :=
  Regex.accepts_iff r s

/-- derived forms -/
theorem opt_matches (r : Regex) (s : List Char) : r.opt.Matches s ↔ s = [] ∨ r.Matches s := by
  simp only [Regex.opt, Regex.matches_alt_iff, Regex.matches_eps_iff]
  exact Or.comm

theorem plus_matches (r : Regex) (s : List Char) :
    r.plus.Matches s ↔ ∃ u v, s = u ++ v ∧ r.Matches u ∧ (Regex.star r).Matches v := by
  simp only [Regex.plus, Regex.matches_seq_iff]

/-- a whole message matches a literal pattern iff it is that literal -/
def Regex.lit : List Char → Regex
  | [] => .eps
  | c :: cs => .seq (.chr c) (Regex.lit cs)

theorem lit_matches (w s : List Char) : (Regex.lit w).Matches s ↔ s = w := by
  induction w generalizing s with
  | nil => simp only [Regex.lit, Regex.matches_eps_iff]
  | cons c cs ih =>
    simp only [Regex.lit, Regex.matches_seq_iff, Regex.matches_chr_iff, ih]
    constructor
    · rintro ⟨u, v, rfl, rfl, rfl⟩
      rfl
    · rintro rfl
      exact ⟨[c], cs, rfl, rfl, rfl⟩

example : (Regex.seq (Regex.lit "P=".toList) (Regex.plus (.cls [('0', '9')] false))).accepts "P=123".toList = true := by decide
example : (Regex.seq (Regex.lit "P=".toList) (Regex.plus (.cls [('0', '9')] false))).accepts "P=".toList = false := by decide
example : (Regex.seq (Regex.lit "P=".toList) (Regex.plus (.cls [('0', '9')] false))).accepts "P=12x".toList = false := by decide

end Tickit
