/-
C13 — start-up order does not matter (state-interface contract: replay from the beginning;
a late participant is indistinguishable from a slow topic; a component can answer as soon
as it is subscribed).
-/
import TickitModel.Lemmas.ContractLemmas

namespace Tickit

/-- **replay, exactly once, in order**: in every execution of the contract bus, what consumer
`k` has been delivered from topic `T` is exactly the first `cursor` messages of the topic's
log — from the very first message, whether it was produced before or after `k` subscribed —
and nothing is delivered to a consumer that has not subscribed. -/
theorem contract_exactly_once (acts : List CAct) (b : CBus) (h : CExec {} acts b) (k : Nat) (T : CTopic) :
    match alookup b.cursors (k, T) with
    | some i => i ≤ (b.log T).length ∧ b.deliveredTo k T = (b.log T).take i
    | none => b.deliveredTo k T = [] := by
  have hI := (h.Inv CBus.Inv_empty) k T
  cases hc : alookup b.cursors (k, T) with
  | some i => exact hI.1 i hc
  | none => exact hI.2 hc

/-- whatever has been produced can still be delivered to every subscriber: a late subscriber
misses nothing (progress: while the cursor is behind, `deliver` is enabled). -/
theorem deliver_enabled (acts : List CAct) (b : CBus) (h : CExec {} acts b) (k : Nat) (T : CTopic) (i : Nat)
    (hc : alookup b.cursors (k, T) = some i) (hlt : i < (b.log T).length) :
    ∃ b', b.step (.deliver k T) = some b' := by
  have _ := h -- (holds in every state, reachable or not)
  obtain ⟨_, hget⟩ : ∃ v, (b.log T)[i]? = some v := ⟨_, List.getElem?_eq_getElem hlt⟩
  simp [CBus.step, hc, hget]

/-- **a late start is just a delay**: for every execution, the execution in which all
subscriptions happen first and everything else follows in the same order is also an
execution, with the same topic logs and the same deliveries in the same order.  Hence
whatever holds for all delivery orders with everybody started (C08) holds for every
assignment of start delays. -/
theorem late_subscribe_is_delay (acts : List CAct) (b : CBus) (h : CExec {} acts b) :
    ∃ b', CExec {} (acts.filter CAct.isSubscribe ++ acts.filter (fun a => !a.isSubscribe)) b' ∧
      b'.delivered = b.delivered ∧ (∀ T, b'.log T = b.log T) ∧
      (∀ k T, alookup b'.cursors (k, T) = alookup b.cursors (k, T)) := by
  exact ⟨b, h.subscribes_first, rfl, fun _ => rfl, fun _ _ => rfl⟩

/-- **a component can answer as soon as it is subscribed**: with the producer created before
the subscription, no interleaving of start-up steps and (replayed or fresh) inputs ever
handles an input without a producer. -/
theorem producer_before_subscribe (evs : List CompEv) (h : RespectsStartOrder evs) :
    (evs.foldl CompSt.step {}).crashed = false := by
  exact CompSt.not_crashed_of_startOrder evs {} rfl rfl h

/-- with the opposite order an input replayed during `subscribe` crashes the component
(the behaviour before the repair) -/
theorem subscribe_before_producer_crashes :
    ([CompEv.start .subscribe, .input, .start .createProducer].foldl CompSt.step {}).crashed = true := by
  rfl

example : CExec {} [.produce "t" 1, .subscribe 0 "t", .deliver 0 "t"]
    { logs := [("t", [1])], cursors := [((0, "t"), 1)], delivered := [(0, "t", 1)] } := by
  exact .cons rfl (.cons rfl (.cons rfl (.nil _)))

end Tickit
