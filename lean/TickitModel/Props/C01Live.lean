/-
C01 / C04 / C10 — liveness of a tick: "never stalls" at full strength.  Whatever has happened so
far in a tick (any answer order), the tick CAN be completed and WILL be completed by any run that
keeps answering: every run is finite (`step_measure`), no run gets stuck before the end
(`progress`, `step_ok`), so the finished state is reached after exactly one answer per component
of the extent.
-/
import TickitModel.Lemmas.CompleteLemmas
import TickitModel.Core.Flat

namespace Tickit

variable {Val : Type}

/-- **every tick can be completed.**  From any reachable state of a tick on an acyclic wiring a
continuation of the run reaches the state where nothing is left to update (`finished`), and the
events so far are a prefix of its trace. -/
theorem tick_can_complete (w : Wiring) (hacyc : w.Acyclic) (react : React Val) (t : SimTime)
    (roots : List Comp) (hroots : ∀ c ∈ extent w roots, (w.ups c).isSome)
    (s : TickSys Val) (hs : s.Reachable w react t roots) :
    ∃ s' : TickSys Val, s'.Reachable w react t roots ∧ s'.tk.toUpdate = [] ∧
      ∃ post, s'.trace = s.trace ++ post := by
  exact TickSys.can_complete_aux w hacyc react t roots hroots _ s hs rfl

/-- **no run is stuck or infinite**: while a tick is unfinished EVERY choice of pending dispatch
is an enabled step and each step resolves exactly one component, so every maximal run has exactly
`|toUpdate|` further steps. -/
theorem every_step_makes_progress (w : Wiring) (hacyc : w.Acyclic) (react : React Val) (t : SimTime)
    (roots : List Comp) (hroots : ∀ c ∈ extent w roots, (w.ups c).isSome)
    (s : TickSys Val) (hs : s.Reachable w react t roots) (hne : s.tk.toUpdate ≠ []) :
    s.pending ≠ [] ∧ ∀ i, i < s.pending.length → ∃ s', s.step w react i = some (.ok s') ∧
      s'.tk.toUpdate.length + 1 = s.tk.toUpdate.length := by
  refine ⟨progress w hacyc react t roots hroots s hs hne, fun i hi => ?_⟩
  obtain ⟨s', h⟩ := step_ok w react t roots hroots s hs i hi
  exact ⟨s', h, step_measure w react s s' i h⟩

variable [DecidableEq Val]

/-- **a complete tick exists from every state of the flat system** (so `FlatRun` is never blocked
inside a tick): for any pre-tick state, time and roots there is a completed tick. -/
theorem tickRun_exists (w : Wiring) (hacyc : w.Acyclic) (dev : DevFn Val) (st : FlatSt Val)
    (t : SimTime) (roots : List Comp) (hroots : ∀ c ∈ extent w roots, (w.ups c).isSome) :
    ∃ st', TickRun w dev st t roots st' := by
  obtain ⟨s0, h0⟩ := init_ok (Val := Val) w t roots hroots
  obtain ⟨s', hs', hfin, _⟩ := tick_can_complete w hacyc (st.react dev t) t roots hroots s0 (.init h0)
  exact ⟨_, s', hs', hfin, rfl⟩

/-- non-vacuity: the diamond of `Props/C01` satisfies the hypotheses. -/
example : ∃ s' : TickSys Unit, s'.Reachable exW exReact 0 ["a"] ∧ s'.tk.toUpdate = [] := by
  have hacyc : exW.Acyclic := by
    refine ⟨fun c => if c = "d" then 2 else if c = "b" ∨ c = "c" then 1 else 0, ?_⟩
    have hinv : exW.inverseTree = [("b", ["a"]), ("c", ["a"]), ("d", ["b", "c"]), ("a", [])] := by
      decide
    intro c us u hus hu
    simp only [Wiring.ups, hinv, alookup] at hus
    split at hus
    · cases hus; simp at hu; subst_vars; decide
    · split at hus
      · cases hus; simp at hu; subst_vars; decide
      · split at hus
        · cases hus; simp at hu; rcases hu with rfl | rfl <;> subst_vars <;> decide
        · split at hus
          · cases hus; simp at hu
          · cases hus
  obtain ⟨s0, h0⟩ := init_ok (Val := Unit) exW 0 ["a"] (by decide)
  obtain ⟨s', h1, h2, _⟩ := tick_can_complete exW hacyc exReact 0 ["a"] (by decide) s0 (.init h0)
  exact ⟨s', h1, h2⟩

end Tickit
