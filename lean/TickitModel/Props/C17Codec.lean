/-
C17 (extension) — writing a configuration out and loading it back gives an equal configuration,
at any nesting depth; and C13/C15 (extension): the synchronous internal bus is a refinement of the
state-interface contract bus.
-/
import TickitModel.Lemmas.CodecLemmas
import TickitModel.Props.C15
import TickitModel.Props.C13

namespace Tickit

/-- **round trip**: decoding the encoding of a well-formed entry (tag registered, exactly the
class's fields) returns that entry — of exactly the class named by its tag — for any nesting depth. -/
theorem config_roundtrip (reg : List ClassSig) (e : Entry) (h : e.WFor reg) (fuel : Nat) (hf : e.depth ≤ fuel) :
    decode reg fuel e.encode = some e := by
  exact Entry.roundtrip reg e h fuel hf

/-- an entry whose tag names no registered class is rejected, whatever its fields -/
theorem unknown_tag_rejected (reg : List ClassSig) (e : Entry) (fuel : Nat)
    (h : dispatch reg e.tag = none) : decode reg fuel e.encode = none := by
  obtain ⟨tag, name, inputs, fields, children⟩ := e
  exact decode_unknown_tag reg fuel tag name inputs fields children h

/-- the class of a decoded entry is determined by the tag alone: two registries that agree on the
tag's class decode alike even if other classes (with identical field signatures) differ -/
theorem decode_depends_on_tag_only (reg reg' : List ClassSig) (fuel : Nat) (d : Data)
    (h : ∀ tag, dispatch reg tag = dispatch reg' tag) : decode reg fuel d = decode reg' fuel d := by
  exact decode_congr reg reg' h fuel d

/-- **the internal bus refines the contract.**  For every history accepted by C15's theorem, what
each consumer received per topic is what the contract bus delivers to a subscriber whose cursor has
reached the end of the log: there is an execution of the contract bus with the same logs and, for
every (consumer, topic), the same delivered sequence. -/
theorem syncBus_refines_contract (h : Handler) (ops : List BusOp) (rank : Topic → Nat) (N : Nat)
    (hN : ∀ T, rank T < N) (hstrat : Stratified h rank) (honce : SubscribeOnce ops)
    (fuel : Nat) (hfuel : 2 * N + 2 ≤ fuel) :
    let b := ops.foldl (Bus.apply h fuel) {}
    ∃ (acts : List CAct) (c : CBus), CExec {} acts c ∧
      (∀ T, c.log T = b.log T) ∧
      (∀ k T, c.deliveredTo k T = b.received k T) ∧
      (∀ k T, k ∈ b.subsOf T ↔ (alookup c.cursors (k, T)).isSome) := by
  intro b
  exact contract_exec_of_inv b
    (fun k T => bus_exactly_once_in_order h ops rank N hN hstrat honce fuel hfuel k T)

end Tickit
