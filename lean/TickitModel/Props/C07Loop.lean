/-
C07 (run loop) — the master scheduler's `_do_tick` loop and its `new_wakeup` event
(`Core/MasterLoop.lean`): for EVERY interleaving of `add_wakeup` calls, expiries of the sleep
and runs of the event-waiting task, the repaired loop never fails `assert when is not None`,
never waits on the event while a wakeup exists, never deadlocks while there is work, and
never deletes a missing entry.  The original loop fails on the history of defect F16.
-/
import TickitModel.Lemmas.MasterLoopLemmas

namespace Tickit

/-- the inductive invariant of the repaired loop, in every reachable state:
`self.wakeups` is a dict; the chosen components keep an entry until served; the task `new`
completes only after an uncleared `set()`; the assertion has not failed; and while the loop
waits on the event the flag says EXACTLY whether a wakeup exists. -/
theorem loop_invariant (acts : List LoopAct) : LoopInv (({} : LoopSt).run true acts) :=
  LoopInv.init.run acts

theorem loop_invariant_step (s s' : LoopSt) (a : LoopAct) (h : LoopInv s)
    (hs : s.step true a = some s') : LoopInv s' :=
  h.step hs

/-- **L1** the repaired loop never reaches the failed assertion. -/
theorem loop_never_dies (acts : List LoopAct) : (({} : LoopSt).run true acts).pc ≠ .dead :=
  (loop_invariant acts).alive

/-- **L2** the repaired loop never waits on the event while a wakeup exists: if it is inside
`await self.new_wakeup.wait()` and `self.wakeups` is not empty, the flag is set (so `step`
is enabled). -/
theorem loop_never_waits_with_work (acts : List LoopAct) :
    let s := ({} : LoopSt).run true acts
    s.pc = .waiting → s.wake ≠ [] → s.flag = true := by
  intro s hpc hne
  exact ((loop_invariant acts).waitIff hpc).mpr hne

/-- the converse: the repaired loop is woken only when there is a wakeup (no stale flag:
this is what the `clear()` inside the `while` buys). -/
theorem loop_woken_only_for_work (acts : List LoopAct) :
    let s := ({} : LoopSt).run true acts
    s.pc = .waiting → s.flag = true → s.wake ≠ [] := by
  intro s hpc hf
  exact ((loop_invariant acts).waitIff hpc).mp hf

/-- at `top` with a wakeup, `get_first_wakeups` returns a time (for any dict at all). -/
theorem first_wakeups_some (w : Wakeups) (h : w ≠ []) :
    ∃ cs t, firstWakeups w = (cs, some t) := by
  cases hf : firstWakeups w with
  | mk cs o =>
    cases o with
    | some t => exact ⟨cs, t, rfl⟩
    | none =>
      have : (firstWakeups w).2 = none := by rw [hf]
      exact absurd ((firstWakeups_none w).mp this) h

/-- the only state of the repaired loop in which no scheduler/loop action is enabled is the
legitimate idle state: waiting on the event, no wakeup, flag clear. -/
theorem loop_quiescent_iff (acts : List LoopAct) :
    let s := ({} : LoopSt).run true acts
    (s.step true .step = none ∧ s.step true .sleepExpires = none ∧
        s.step true .newTaskRuns = none) ↔
      (s.pc = .waiting ∧ s.wake = [] ∧ s.flag = false) := by
  intro s
  have hinv : LoopInv s := loop_invariant acts
  have hal := hinv.alive
  have hw := hinv.waitIff
  constructor
  · rintro ⟨h1, h2, h3⟩
    cases hpc : s.pc with
    | top => simp only [LoopSt.step, hpc] at h1; split at h1 <;> simp at h1
    | waiting =>
      simp only [LoopSt.step, hpc] at h1
      split at h1
      · simp at h1
      · rename_i hf
        have hf' : s.flag = false := by simpa using hf
        refine ⟨rfl, ?_, hf'⟩
        have := hw hpc
        rw [hf'] at this
        simpa using this
    | sleeping cs w => simp [LoopSt.step, hpc] at h2
    | sleptNotResumed cs w => simp only [LoopSt.step, hpc] at h1; split at h1 <;> simp at h1
    | ticking cs w => simp [LoopSt.step, hpc] at h1
    | dead => exact absurd hpc hal
  · rintro ⟨hpc, _, hf⟩
    simp [LoopSt.step, hpc, hf, LoopPc.isRacing]

/-- **L3** no deadlock while there is work: in every reachable state of the repaired loop
with a wakeup, the scheduler's own `step`, the expiry of the sleep or the run of the
event-waiting task is enabled; and at `top` `get_first_wakeups` returns a time. -/
theorem loop_progress (acts : List LoopAct) :
    let s := ({} : LoopSt).run true acts
    s.wake ≠ [] →
      ((s.step true .step).isSome = true ∨ (s.step true .sleepExpires).isSome = true ∨
        (s.step true .newTaskRuns).isSome = true) ∧
      (s.pc = .top → ∃ cs w, firstWakeups s.wake = (cs, some w) ∧
        s.step true .step = some { s with flag := false, flagTaskDone := false,
                                          pc := .sleeping cs w }) := by
  intro s hne
  constructor
  · have hq := (loop_quiescent_iff acts).mp
    cases h1 : s.step true .step with
    | some _ => simp
    | none =>
      cases h2 : s.step true .sleepExpires with
      | some _ => simp
      | none =>
        cases h3 : s.step true .newTaskRuns with
        | some _ => simp
        | none => exact absurd (hq ⟨h1, h2, h3⟩).2.1 hne
  · intro hpc
    obtain ⟨cs, w, hf⟩ := first_wakeups_some s.wake hne
    refine ⟨cs, w, hf, ?_⟩
    simp [LoopSt.step, hpc, hne, LoopSt.choose, hf]

/-- **L4** (repaired AND original loop) whenever the sleep has expired, every chosen
component still has an entry in `self.wakeups`: `del self.wakeups[c]` cannot raise
`KeyError`.  (The entries existed when chosen; in between they are only overwritten.) -/
theorem served_entries_exist (fixed : Bool) (acts : List LoopAct) (cs : List Comp)
    (w : SimTime) :
    let s := ({} : LoopSt).run fixed acts
    s.pc = .sleptNotResumed cs w → ∀ c ∈ cs, ∃ t, alookup s.wake c = some t := by
  intro s hpc c hc
  have hb : LoopBase s := LoopBase.init.run acts
  have := hb.served c (by simpa [hpc, LoopPc.chosen] using hc)
  exact Option.isSome_iff_exists.mp this

/-- L4 at the very step: when `sleptNotResumed cs w` goes on to tick, every `c ∈ cs` has an
entry before the step and none after it, and the other entries are untouched. -/
theorem served_entries_deleted (fixed : Bool) (acts : List LoopAct) (cs : List Comp)
    (w : SimTime) (s' : LoopSt) :
    let s := ({} : LoopSt).run fixed acts
    s.pc = .sleptNotResumed cs w → s.step fixed .step = some s' → s'.pc = .ticking cs w →
      (∀ c ∈ cs, (∃ t, alookup s.wake c = some t) ∧ alookup s'.wake c = none) ∧
      (∀ c, c ∉ cs → alookup s'.wake c = alookup s.wake c) := by
  intro s hpc hs hpc'
  have hb : LoopBase s := LoopBase.init.run acts
  have hw : s'.wake = delWakeups s.wake cs := by
    simp only [LoopSt.step, hpc] at hs
    split at hs
    · simp only [Option.some.injEq] at hs; subst hs; simp at hpc'
    · simp only [Option.some.injEq] at hs; subst hs; rfl
  constructor
  · intro c hc
    refine ⟨served_entries_exist fixed acts cs w hpc c hc, ?_⟩
    rw [hw, delWakeups_lookup _ hb.uniq]; simp [hc]
  · intro c hc
    rw [hw, delWakeups_lookup _ hb.uniq]; simp [hc]

/-- **L5** the ORIGINAL loop fails the assertion on the history of defect F16. -/
theorem old_loop_dies : (({} : LoopSt).run false f16History).pc = .dead := by decide

/-- one step earlier the original loop waits with a stale flag: flag set, no wakeup —
exactly what the invariant of the repaired loop (`LoopInv.waitIff`) excludes. -/
theorem old_loop_stale_flag :
    ({} : LoopSt).run false f16History.dropLast =
      { wake := [], flag := true, pc := .waiting, flagTaskDone := false } := by decide

/-- the failure does not depend on the component or on the two times: ANY wakeup for the
component being served that arrives in the window kills the original loop when no other
wakeup is left. -/
theorem old_loop_dies_general (c : Comp) (t t' : SimTime) :
    (({} : LoopSt).run false
      [.addWakeup c t, .step, .sleepExpires, .addWakeup c t', .step, .step, .step, .step]).pc
      = .dead := by
  simp [LoopSt.run, LoopSt.step, LoopSt.choose, addWakeup, upsert, firstWakeups, minTime,
    delWakeups, aerase]

theorem new_loop_survives_general (c : Comp) (t t' : SimTime) :
    ({} : LoopSt).run true
      [.addWakeup c t, .step, .sleepExpires, .addWakeup c t', .step, .step, .step, .step]
      = { wake := [], flag := false, pc := .waiting, flagTaskDone := false } := by
  simp [LoopSt.run, LoopSt.step, LoopSt.choose, addWakeup, upsert, firstWakeups, minTime,
    delWakeups, aerase]

/-- the same history is harmless for the repaired loop: it ends idle, flag clear. -/
theorem new_loop_survives_f16 :
    ({} : LoopSt).run true f16History =
      { wake := [], flag := false, pc := .waiting, flagTaskDone := false } := by decide

end Tickit
