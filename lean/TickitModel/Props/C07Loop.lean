/-
C07 (run loop) — the master scheduler's `_do_tick` loop and its `new_wakeup` event
(`Core/MasterLoop.lean`): for EVERY interleaving of `add_wakeup` calls, expiries of the sleep
and runs of the event-waiting task, the repaired loop never fails `assert when is not None`,
never waits on the event while a wakeup exists, never deadlocks while there is work, and
never deletes a missing entry, and every tick serves exactly the components that hold the
minimum entry at the moment the tick starts (second repair: `get_first_wakeups` is
re-evaluated after the race).  The original loop fails on the history of defect F16 and
serves a stale set when a wakeup arrives while the sleep is expiring.
-/
import TickitModel.Lemmas.MasterLoopLemmas

namespace Tickit

/-- the inductive invariant of the repaired loop, in every reachable state:
`self.wakeups` is a dict; the chosen components keep an entry until served; the task `new`
completes only after an uncleared `set()`; the assertion has not failed; and while the loop
waits on the event the flag says EXACTLY whether a wakeup exists. -/
theorem loop_invariant (acts : List MLoopAct) : MLoopInv (({} : MLoopSt).run true acts) :=
  MLoopInv.init.run acts

theorem loop_invariant_step (s s' : MLoopSt) (a : MLoopAct) (h : MLoopInv s)
    (hs : s.step true a = some s') : MLoopInv s' :=
  h.step hs

/-- **L1** the repaired loop never reaches the failed assertion. -/
theorem loop_never_dies (acts : List MLoopAct) : (({} : MLoopSt).run true acts).pc ≠ .dead :=
  (loop_invariant acts).alive

/-- **L2** the repaired loop never waits on the event while a wakeup exists: if it is inside
`await self.new_wakeup.wait()` and `self.wakeups` is not empty, the flag is set (so `step`
is enabled). -/
theorem loop_never_waits_with_work (acts : List MLoopAct) :
    let s := ({} : MLoopSt).run true acts
    s.pc = .waiting → s.wake ≠ [] → s.flag = true := by
  intro s hpc hne
  exact ((loop_invariant acts).waitIff hpc).mpr hne

/-- the converse: the repaired loop is woken only when there is a wakeup (no stale flag:
this is what the `clear()` inside the `while` buys). -/
theorem loop_woken_only_for_work (acts : List MLoopAct) :
    let s := ({} : MLoopSt).run true acts
    s.pc = .waiting → s.flag = true → s.wake ≠ [] := by
  intro s hpc hf
  exact ((loop_invariant acts).waitIff hpc).mp hf

/-- at `top` with a wakeup, `get_first_wakeups` returns a time (for any dict at all). -/
theorem first_wakeups_some (w : Wakeups) (h : w ≠ []) :
    ∃ cs t, firstWakeups w = (cs, some t) :=
  firstWakeups_some_of_ne_nil w h

/-- the only state of the repaired loop in which no scheduler/loop action is enabled is the
legitimate idle state: waiting on the event, no wakeup, flag clear. -/
theorem loop_quiescent_iff (acts : List MLoopAct) :
    let s := ({} : MLoopSt).run true acts
    (s.step true .step = none ∧ s.step true .sleepExpires = none ∧
        s.step true .newTaskRuns = none) ↔
      (s.pc = .waiting ∧ s.wake = [] ∧ s.flag = false) := by
  intro s
  have hinv : MLoopInv s := loop_invariant acts
  have hal := hinv.alive
  have hw := hinv.waitIff
  constructor
  · rintro ⟨h1, h2, h3⟩
    cases hpc : s.pc with
    | top => simp only [MLoopSt.step, hpc] at h1; split at h1 <;> simp at h1
    | waiting =>
      simp only [MLoopSt.step, hpc] at h1
      split at h1
      · simp at h1
      · rename_i hf
        have hf' : s.flag = false := by simpa using hf
        refine ⟨rfl, ?_, hf'⟩
        have := hw hpc
        rw [hf'] at this
        simpa using this
    | sleeping cs w => simp [MLoopSt.step, hpc] at h2
    | sleptNotResumed cs w => simp only [MLoopSt.step, hpc] at h1; split at h1 <;> simp at h1
    | ticking cs w => simp [MLoopSt.step, hpc] at h1
    | dead => exact absurd hpc hal
  · rintro ⟨hpc, _, hf⟩
    simp [MLoopSt.step, hpc, hf, MLoopPc.isRacing]

/-- **L3** no deadlock while there is work: in every reachable state of the repaired loop
with a wakeup, the scheduler's own `step`, the expiry of the sleep or the run of the
event-waiting task is enabled; and at `top` `get_first_wakeups` returns a time. -/
theorem loop_progress (acts : List MLoopAct) :
    let s := ({} : MLoopSt).run true acts
    s.wake ≠ [] →
      ((s.step true .step).isSome = true ∨ (s.step true .sleepExpires).isSome = true ∨
        (s.step true .newTaskRuns).isSome = true) ∧
      (s.pc = .top → ∃ cs w, firstWakeups s.wake = (cs, some w) ∧
        s.step true .step = some { s with flag := false, flagTaskDone := false,
                                          pc := .sleeping cs w }) := by
  intro s hne
  constructor
  · have hq := (loop_quiescent_iff acts).mp
    cases h1 : s.step true .step with
    | some _ => simp
    | none =>
      cases h2 : s.step true .sleepExpires with
      | some _ => simp
      | none =>
        cases h3 : s.step true .newTaskRuns with
        | some _ => simp
        | none => exact absurd (hq ⟨h1, h2, h3⟩).2.1 hne
  · intro hpc
    obtain ⟨cs, w, hf⟩ := first_wakeups_some s.wake hne
    refine ⟨cs, w, hf, ?_⟩
    simp [MLoopSt.step, hpc, hne, MLoopSt.choose, hf]

/-- the re-evaluated `get_first_wakeups` of the repaired loop returns a time (its
`assert when is not None` cannot fail either): while the sleep races there is a wakeup. -/
theorem loop_reevaluation_some (acts : List MLoopAct) (cs : List Comp) (w : SimTime) :
    let s := ({} : MLoopSt).run true acts
    s.pc = .sleptNotResumed cs w → s.flagTaskDone = false →
      ∃ cs' w', firstWakeups s.wake = (cs', some w') ∧
        s.step true .step = some { s with wake := delWakeups s.wake cs', pc := .ticking cs' w' } := by
  intro s hpc hft
  have hb : LoopBase s := LoopBase.init.run acts
  obtain ⟨cs', w', hf, he⟩ :=
    serveFirst_of_ne_nil s (hb.racingWork (by simp [hpc, MLoopPc.isRacing]))
  exact ⟨cs', w', hf, by simp [MLoopSt.step, hpc, hft, he]⟩

/-- the only `step` that ends in `ticking` is the one out of `sleptNotResumed`; in the
repaired loop it serves the re-evaluated first wakeups. -/
theorem step_into_ticking (s s' : MLoopSt) (cs' : List Comp) (w' : SimTime)
    (hs : s.step true .step = some s') (hpc' : s'.pc = .ticking cs' w') :
    (∃ cs w, s.pc = .sleptNotResumed cs w) ∧ firstWakeups s.wake = (cs', some w') ∧
      s'.wake = delWakeups s.wake cs' := by
  simp only [MLoopSt.step] at hs
  split at hs
  · split at hs
    · simp only [Option.some.injEq] at hs; subst hs; simp at hpc'
    · simp only [Option.some.injEq] at hs; subst hs
      unfold MLoopSt.choose at hpc'; split at hpc' <;> simp at hpc'
  · split at hs
    · simp only [Option.some.injEq] at hs; subst hs; simp at hpc'
    · simp at hs
  · split at hs
    · simp only [Option.some.injEq] at hs; subst hs; simp at hpc'
    · simp at hs
  · rename_i cs w hpc
    split at hs
    · simp only [Option.some.injEq] at hs; subst hs; simp at hpc'
    · simp only [Option.some.injEq, if_true] at hs; subst hs
      refine ⟨⟨cs, w, hpc⟩, ?_⟩
      unfold MLoopSt.serveFirst at hpc' ⊢
      split at hpc'
      · rename_i cs'' w'' hf
        simp only [MLoopPc.ticking.injEq] at hpc'
        obtain ⟨h1, h2⟩ := hpc'
        subst h1; subst h2
        exact ⟨hf, rfl⟩
      · simp at hpc'
  · simp only [Option.some.injEq] at hs; subst hs; simp at hpc'
  · simp at hs

/-- **L4 (repaired loop)** when the repaired loop starts a tick `ticking cs' w'` from a
reachable state with wakeups `wk`, the served set is EXACTLY the set of components holding
the minimum entry at that moment: every wakeup registered before the tick starts with the
minimum time is served by THIS tick, and nothing else is.  In particular every served
component has an entry (`del self.wakeups[c]` cannot raise `KeyError`); after the step the
served entries are gone and the others are untouched. -/
theorem tick_serves_all_first_wakeups (acts : List MLoopAct) (s' : MLoopSt) (cs' : List Comp)
    (w' : SimTime) :
    let s := ({} : MLoopSt).run true acts
    s.step true .step = some s' → s'.pc = .ticking cs' w' →
      (∀ c, c ∈ cs' ↔ alookup s.wake c = some w') ∧
      (∀ c t, alookup s.wake c = some t → w' ≤ t) ∧
      (∀ c, alookup s'.wake c = if c ∈ cs' then none else alookup s.wake c) := by
  intro s hs hpc'
  have hb : LoopBase s := LoopBase.init.run acts
  obtain ⟨_, hf, hw⟩ := step_into_ticking s s' cs' w' hs hpc'
  obtain ⟨h1, h2, _, _⟩ := firstWakeups_spec s.wake hb.uniq cs' w' hf
  exact ⟨h1, h2, fun c => by rw [hw, delWakeups_lookup _ hb.uniq]⟩

/-- **L4** (repaired AND original loop) whenever the sleep has expired, every component
chosen before the sleep still has an entry in `self.wakeups`.  (The entries existed when
chosen; in between they are only overwritten.)  For the original loop these are the
components it is going to delete: `del self.wakeups[c]` cannot raise `KeyError`. -/
theorem served_entries_exist (fixed : Bool) (acts : List MLoopAct) (cs : List Comp)
    (w : SimTime) :
    let s := ({} : MLoopSt).run fixed acts
    s.pc = .sleptNotResumed cs w → ∀ c ∈ cs, ∃ t, alookup s.wake c = some t := by
  intro s hpc c hc
  have hb : LoopBase s := LoopBase.init.run acts
  have := hb.served c (by simpa [hpc, MLoopPc.chosen] using hc)
  exact Option.isSome_iff_exists.mp this

/-- L4 at the very step, for the repaired AND the original loop: when `sleptNotResumed`
goes on to `ticking cs' w'`, every `c ∈ cs'` has an entry before the step (no `KeyError`)
and none after it, and the other entries are untouched. -/
theorem served_entries_deleted (fixed : Bool) (acts : List MLoopAct) (cs cs' : List Comp)
    (w w' : SimTime) (s' : MLoopSt) :
    let s := ({} : MLoopSt).run fixed acts
    s.pc = .sleptNotResumed cs w → s.step fixed .step = some s' → s'.pc = .ticking cs' w' →
      (∀ c ∈ cs', (∃ t, alookup s.wake c = some t) ∧ alookup s'.wake c = none) ∧
      (∀ c, c ∉ cs' → alookup s'.wake c = alookup s.wake c) := by
  intro s hpc hs hpc'
  have hb : LoopBase s := LoopBase.init.run acts
  cases fixed with
  | true =>
    obtain ⟨h1, _, h3⟩ := tick_serves_all_first_wakeups acts s' cs' w' hs hpc'
    exact ⟨fun c hc => ⟨⟨w', (h1 c).mp hc⟩, by rw [h3]; simp [hc]⟩,
      fun c hc => by rw [h3]; simp only [hc, if_false]; rfl⟩
  | false =>
    have hw : s'.wake = delWakeups s.wake cs' ∧ cs' = cs := by
      simp only [MLoopSt.step, hpc] at hs
      split at hs
      · simp only [Option.some.injEq] at hs; subst hs; simp at hpc'
      · simp only [Option.some.injEq] at hs; subst hs
        simp at hpc'
        simp [hpc'.1]
    obtain ⟨hw, rfl⟩ := hw
    constructor
    · intro c hc
      refine ⟨served_entries_exist false acts cs' w hpc c hc, ?_⟩
      rw [hw, delWakeups_lookup _ hb.uniq]; simp [hc]
    · intro c hc
      rw [hw, delWakeups_lookup _ hb.uniq]; simp [hc]

/-- the ORIGINAL loop violates `tick_serves_all_first_wakeups`: a wakeup of Y for time 10
arrives while the sleep for X at 10 is expiring; the tick serves the stale set `[X]` although
Y also holds the minimum entry 10 — Y's wakeup is left for a later tick at a time that has
already passed. -/
theorem old_loop_serves_stale_set :
    let s := ({} : MLoopSt).run false staleSetHistory
    s.step false .step =
        some { wake := [("Y", 10)], flag := true, pc := .ticking ["X"] 10, flagTaskDone := false } ∧
      alookup s.wake "Y" = some 10 ∧ "Y" ∉ ["X"] := by decide

/-- the repaired loop serves both. -/
theorem new_loop_serves_fresh_set :
    (({} : MLoopSt).run true staleSetHistory).step true .step =
      some { wake := [], flag := true, pc := .ticking ["X", "Y"] 10, flagTaskDone := false } := by
  decide

/-- **L5** the ORIGINAL loop fails the assertion on the history of defect F16. -/
theorem old_loop_dies : (({} : MLoopSt).run false f16History).pc = .dead := by decide

/-- one step earlier the original loop waits with a stale flag: flag set, no wakeup —
exactly what the invariant of the repaired loop (`MLoopInv.waitIff`) excludes. -/
theorem old_loop_stale_flag :
    ({} : MLoopSt).run false f16History.dropLast =
      { wake := [], flag := true, pc := .waiting, flagTaskDone := false } := by decide

/-- the failure does not depend on the component or on the two times: ANY wakeup for the
component being served that arrives in the window kills the original loop when no other
wakeup is left. -/
theorem old_loop_dies_general (c : Comp) (t t' : SimTime) :
    (({} : MLoopSt).run false
      [.addWakeup c t, .step, .sleepExpires, .addWakeup c t', .step, .step, .step, .step]).pc
      = .dead := by
  simp [MLoopSt.run, MLoopSt.step, MLoopSt.choose, addWakeup, upsert, firstWakeups, minTime,
    delWakeups, aerase]

theorem new_loop_survives_general (c : Comp) (t t' : SimTime) :
    ({} : MLoopSt).run true
      [.addWakeup c t, .step, .sleepExpires, .addWakeup c t', .step, .step, .step, .step]
      = { wake := [], flag := false, pc := .waiting, flagTaskDone := false } := by
  simp [MLoopSt.run, MLoopSt.step, MLoopSt.choose, MLoopSt.serveFirst, addWakeup, upsert, firstWakeups, minTime,
    delWakeups, aerase]

/-- the same history is harmless for the repaired loop: it ends idle, flag clear. -/
theorem new_loop_survives_f16 :
    ({} : MLoopSt).run true f16History =
      { wake := [], flag := false, pc := .waiting, flagTaskDone := false } := by decide

end Tickit
