/-
Non-vacuity of `Props/C08NestedAny.lean`: a concrete VALID nested configuration and two different
complete executions of its initial tick.

Master level: system simulation `s` and device `z`, wired `s.y → z.i`.  Inside `s`: devices `a`
and `b` (independent of each other), `expose.y ← a.o`.  Both `a` and `b` are roots of the initial
tick of `s`, so after `external` is dispatched three dispatches are pending at once.  Execution 1
answers them first-in first-out (`external`, `a`, `b`); execution 2 answers `b`, then `a`, then
`external`.  The global observation lists DIFFER (`a, b, z` against `b, a, z`), so do the key
orders of the maps, but by `nested_any_order_deterministic` the end states are equivalent.
-/
import TickitModel.Props.C08NestedAny
import TickitModel.Props.C08NestedAnyRun
import TickitModel.Props.C01NestedAny

namespace Tickit.AnyEx

def sInv : InvWiring := [("a", []), ("b", []), ("external", []), ("expose", [("y", ("a", "o"))])]
def topInv : InvWiring := [("s", []), ("z", [("i", ("s", "y"))])]
def sW : Wiring := Wiring.fromInverse sInv
def topW : Wiring := Wiring.fromInverse topInv

def S0 : Static :=
  { levels := [⟨"", topW⟩, ⟨"s", sW⟩]
    systems := ["s"]
    parent := [("s", ""), ("z", ""), ("a", "s"), ("b", "s")] }

/-- `a` reports `o = 7`; `b` reports `o = 1` and asks to be called back at 5, where it reports
`o = 2`; `z` reports nothing -/
def orc0 : Oracle :=
  [("a", [⟨[("o", 7)], none, false⟩]),
   ("b", [⟨[("o", 1)], some 5, false⟩, ⟨[("o", 2)], none, false⟩]),
   ("z", [⟨[], none, false⟩])]

theorem acyclic_of_check (w : Wiring) (rank : Comp → Nat)
    (h : ∀ e ∈ w.inverseTree, ∀ u ∈ e.2, rank u < rank e.1) : w.Acyclic :=
  ⟨rank, fun c us u hus hu => h (c, us) (mem_of_alookup_eq_some hus) u hu⟩

theorem pseudo_dir_of_check (w : Wiring)
    (h : ∀ e ∈ w, ∀ pe ∈ e.2, ∀ bq ∈ pe.2, bq.1 ≠ pseudoExternal ∧ e.1 ≠ pseudoExpose) :
    ∀ a p b q, w.Conn a p b q → b ≠ pseudoExternal ∧ a ≠ pseudoExpose := by
  rintro a p b q ⟨ports, ins, h1, h2, h3⟩
  exact h (a, ports) (mem_of_alookup_eq_some h1) (p, ins) (mem_of_alookup_eq_some h2) (b, q) h3

/-- **the example configuration is valid** -/
theorem S0_valid : S0.Valid where
  parent_level := by
    intro c p h
    have hm := mem_of_alookup_eq_some h
    simp only [S0, List.mem_cons, Prod.mk.injEq, List.not_mem_nil, or_false] at hm
    rcases hm with ⟨rfl, rfl⟩ | ⟨rfl, rfl⟩ | ⟨rfl, rfl⟩ | ⟨rfl, rfl⟩
    · exact ⟨⟨"", topW⟩, rfl, by decide, Or.inl rfl⟩
    · exact ⟨⟨"", topW⟩, rfl, by decide, Or.inl rfl⟩
    · exact ⟨⟨"s", sW⟩, rfl, by decide, Or.inr rfl⟩
    · exact ⟨⟨"s", sW⟩, rfl, by decide, Or.inr rfl⟩
  members := by decide
  sys_level := by
    intro c h
    have hc : c = "s" := by simpa [Static.isSys, S0] using h
    subst hc
    exact ⟨⟨"s", sW⟩, rfl, rfl⟩
  pseudo_fresh := by decide
  sys_parent := by
    intro c h
    have hc : c = "s" := by simpa [Static.isSys, S0] using h
    subst hc
    rfl
  nesting := by
    refine ⟨fun c => if c = "a" ∨ c = "b" then 1 else 0, ?_⟩
    intro c p h hp
    have hm := mem_of_alookup_eq_some h
    simp only [S0, List.mem_cons, Prod.mk.injEq, List.not_mem_nil, or_false] at hm
    rcases hm with ⟨rfl, rfl⟩ | ⟨rfl, rfl⟩ | ⟨rfl, rfl⟩ | ⟨rfl, rfl⟩
    · exact absurd rfl hp
    · exact absurd rfl hp
    · decide
    · decide
  ups_defined := by decide
  level_names := by decide
  wiring_wf := by
    intro L hL
    simp only [S0, List.mem_cons, List.not_mem_nil, or_false] at hL
    rcases hL with rfl | rfl
    · exact ⟨Wiring.wf_fromInverse' _, Wiring.oneSource_fromInverse _ (by unfold InvWiring.WF DictWF; decide)⟩
    · exact ⟨Wiring.wf_fromInverse' _, Wiring.oneSource_fromInverse _ (by unfold InvWiring.WF DictWF; decide)⟩
  acyclic := by
    intro L hL
    simp only [S0, List.mem_cons, List.not_mem_nil, or_false] at hL
    rcases hL with rfl | rfl
    · exact acyclic_of_check _ (fun c => if c = "z" then 1 else 0) (by decide)
    · exact acyclic_of_check _ (fun c => if c = "expose" then 1 else 0) (by decide)
  parent_unique := by decide
  pseudo_dir := by
    intro L hL
    simp only [S0, List.mem_cons, List.not_mem_nil, or_false] at hL
    rcases hL with rfl | rfl
    · exact pseudo_dir_of_check _ (by decide)
    · exact pseudo_dir_of_check _ (by decide)
  master_fresh := by decide

/-- execution 1 of the initial tick: inside `s` the dispatches are answered in the order
`external`, `a`, `b`, `expose`; the observations are made in the order `a`, `b`, `z`. -/
theorem exec1 : ∃ r, TickLevelAny S0 orc0 "" 0 ["z", "s"] [] {} r ∧
    r.1.obs.map (·.comp) = ["a", "b", "z"] ∧ akeys r.1.devs = ["a", "b", "z"] := by
  refine ⟨_, .mk (L := ⟨"", topW⟩) rfl rfl
    (.step (i := 0) rfl
      (.sys rfl rfl rfl
        (.mk (L := ⟨"s", sW⟩) rfl rfl
          (.step (i := 0) rfl (.external rfl) rfl
          (.step (i := 0) rfl (.dev (resp := ⟨[("o", 7)], none, false⟩) rfl rfl rfl rfl rfl) rfl
          (.step (i := 0) rfl (.dev (resp := ⟨[("o", 1)], some 5, false⟩) rfl rfl rfl rfl rfl) rfl
          (.step (i := 0) rfl (.expose rfl rfl) rfl
          (.done rfl rfl))))))) rfl
    (.step (i := 0) rfl (.dev (resp := ⟨[], none, false⟩) rfl rfl rfl rfl rfl) rfl
    (.done rfl rfl))), ?_, ?_⟩
  · rfl
  · rfl

/-- execution 2 of the same tick: inside `s` the order is `b`, `a`, `external`, `expose`; the
observations are made in the order `b`, `a`, `z`. -/
theorem exec2 : ∃ r, TickLevelAny S0 orc0 "" 0 ["z", "s"] [] {} r ∧
    r.1.obs.map (·.comp) = ["b", "a", "z"] ∧ akeys r.1.devs = ["b", "a", "z"] := by
  refine ⟨_, .mk (L := ⟨"", topW⟩) rfl rfl
    (.step (i := 0) rfl
      (.sys rfl rfl rfl
        (.mk (L := ⟨"s", sW⟩) rfl rfl
          (.step (i := 2) rfl (.dev (resp := ⟨[("o", 1)], some 5, false⟩) rfl rfl rfl rfl rfl) rfl
          (.step (i := 1) rfl (.dev (resp := ⟨[("o", 7)], none, false⟩) rfl rfl rfl rfl rfl) rfl
          (.step (i := 0) rfl (.external rfl) rfl
          (.step (i := 0) rfl (.expose rfl rfl) rfl
          (.done rfl rfl))))))) rfl
    (.step (i := 0) rfl (.dev (resp := ⟨[], none, false⟩) rfl rfl rfl rfl rfl) rfl
    (.done rfl rfl))), ?_, ?_⟩
  · rfl
  · rfl

/-- the hypotheses of `nested_any_order_deterministic` are met by the two executions above, which
are genuinely different (different global observation order); the theorem makes their end states
equivalent: in particular `z` was given `i = 7` in both, and the master was asked to call `s` back
at 5 in both. -/
example : ∃ r r', TickLevelAny S0 orc0 "" 0 ["z", "s"] [] {} r ∧
    TickLevelAny S0 orc0 "" 0 ["z", "s"] [] {} r' ∧ r.1.obs.map (·.comp) ≠ r'.1.obs.map (·.comp) ∧
    r.1.Equiv r'.1 ∧ MapEq r.2 r'.2 := by
  obtain ⟨r, h1, ho1, _⟩ := exec1
  obtain ⟨r', h2, ho2, _⟩ := exec2
  refine ⟨r, r', h1, h2, by rw [ho1, ho2]; decide, ?_⟩
  exact nested_any_order_deterministic S0 S0_valid orc0 "" 0 _ _ [] [] {} {} r r' (fun _ => Iff.rfl)
    (mapEq_refl _) (by simp) (by simp) (.refl (fun _ => by simp [SimSt.sched, agetD, UniqueKeys])) h1 h2

/-- C01 for the second execution: nobody was updated twice. -/
example : ∃ r, TickLevelAny S0 orc0 "" 0 ["z", "s"] [] {} r ∧
    ∀ x, (r.1.obsOf x).length ≤ (({} : SimSt).obsOf x).length + 1 := by
  obtain ⟨r, h, _⟩ := exec2
  exact ⟨r, h, any_order_updates_le S0 S0_valid orc0 "" 0 _ [] (by simp) {} r h⟩

/-- in the resolved wiring `a.o` drives `z.i` (through `expose` of `s`), so by
`any_order_update_after_resolved_sources` the update of `a` precedes the update of `z` in every
execution — as it does in `exec1` (`a, b, z`) and `exec2` (`b, a, z`). -/
example : (Wiring.fromInverse (S0.flatInverse 7)).Conn "a" "o" "z" "i" := by decide

example : ∃ r, TickLevelAny S0 orc0 "" 0 ["z", "s"] [] {} r ∧
    ∃ new, r.1.obs = ({} : SimSt).obs ++ new ∧
      ∀ pre oy post, new = pre ++ oy :: post → ∀ ox ∈ new, ∀ p q,
        (Wiring.fromInverse (S0.flatInverse 7)).Conn ox.comp p oy.comp q → ox ∈ pre := by
  obtain ⟨r, h, _⟩ := exec2
  exact ⟨r, h, any_order_update_after_resolved_sources S0 S0_valid orc0 7 "" 0 _ [] (by simp) {} r h⟩

/-- a whole any-order run: the initial tick as in `exec2`, then the callback tick at 5 asked for by
`b` (inside `s`: `external` is answered before `b`); the hypotheses of the run-level theorems are
met, and the run has the ticks at 0 and 5. -/
theorem run2 : ∃ r0 r, MasterInitialAny S0 orc0 0 0 r0 ∧
    MasterRunAny S0 orc0 10 ⟨1, 1⟩ 5 1 r0.1 [] [r0.2] r ∧ r.2.map (·.time) = [0, 5] ∧
    r.1.sim.obs.map (·.comp) = ["b", "a", "z", "b"] := by
  refine ⟨_, _, .mk (L := ⟨"", topW⟩) rfl
    (.mk (L := ⟨"", topW⟩) rfl rfl
      (.step (i := 0) rfl
        (.sys rfl rfl rfl
          (.mk (L := ⟨"s", sW⟩) rfl rfl
            (.step (i := 2) rfl (.dev (resp := ⟨[("o", 1)], some 5, false⟩) rfl rfl rfl rfl rfl) rfl
            (.step (i := 1) rfl (.dev (resp := ⟨[("o", 7)], none, false⟩) rfl rfl rfl rfl rfl) rfl
            (.step (i := 0) rfl (.external rfl) rfl
            (.step (i := 0) rfl (.expose rfl rfl) rfl
            (.done rfl rfl))))))) rfl
      (.step (i := 0) rfl (.dev (resp := ⟨[], none, false⟩) rfl rfl rfl rfl rfl) rfl
      (.done rfl rfl)))),
    .tick (comps := ["s"]) (w := 5) rfl rfl
      (.mk (L := ⟨"", topW⟩) rfl rfl
        (.step (i := 0) rfl
          (.sys rfl rfl rfl
            (.mk (L := ⟨"s", sW⟩) rfl rfl
              (.step (i := 1) rfl (.external rfl) rfl
              (.step (i := 0) rfl (.dev (resp := ⟨[("o", 2)], none, false⟩) rfl rfl rfl rfl rfl) rfl
              (.done rfl rfl))))) rfl
        (.step (i := 0) rfl .skip rfl
        (.done rfl rfl))))
      .ticksDone, ?_, ?_⟩
  · rfl
  · rfl

/-- the run-level theorem applied: any other any-order run of the same length does the same ticks
and gives every device the same observations. -/
example (r0' : MasterSt × TickRec) (r' : MasterSt × List TickRec)
    (h1' : MasterInitialAny S0 orc0 0 0 r0')
    (h2' : MasterRunAny S0 orc0 10 ⟨1, 1⟩ 5 1 r0'.1 [] [r0'.2] r') :
    r'.2.map (·.time) = [0, 5] := by
  obtain ⟨r0, r, h1, h2, ht, _⟩ := run2
  have := (any_order_run_deterministic S0 S0_valid orc0 10 0 0 ⟨1, 1⟩ 5 1 [] r0 r0' r r' h1 h1' h2 h2').2.1
  rw [← this.times.1, ht]

/-- the unconditional transfer applied to the any-order run `run2`: its observations are those of a
`Synced` flat run over the resolved wiring (fuel 20 is enough for resolving `S0`). -/
example : ∃ r0 r, MasterInitialAny S0 orc0 0 0 r0 ∧
    MasterRunAny S0 orc0 10 ⟨1, 1⟩ 5 1 r0.1 [] [r0.2] r ∧
    ∃ (devs : DevSeq V) (st : FlatSt V) (times : List SimTime),
      FlatRun (Wiring.fromInverse (S0.flatInverse 20)) devs 0 (r.2.length - 1) st times ∧
      Synced (Wiring.fromInverse (S0.flatInverse 20)) st ∧ times = (r.2.map (·.time)).reverse ∧
      ∀ d, ObsEq (r.1.sim.obsOf d) (st.obsOf d) := by
  obtain ⟨r0, r, h1, h2, _, _⟩ := run2
  exact ⟨r0, r, h1, h2, any_order_run_refines_flatRun S0 S0_valid orc0 10 20 (by decide) 0 0 ⟨1, 1⟩ 5 1
    r0 r h1 h2⟩

/-- and the FIFO model completes the tick of `exec2` with an equivalent result -/
example : ∃ r, TickLevelAny S0 orc0 "" 0 ["z", "s"] [] {} r ∧
    ∃ F, ∀ fuel, F ≤ fuel → ∃ rf, tickLevel S0 orc0 fuel "" 0 ["z", "s"] [] {} = .ok rf ∧
      r.1.Equiv rf.1 ∧ MapEq r.2 rf.2 := by
  obtain ⟨r, h, _⟩ := exec2
  exact ⟨r, h, any_order_fifo_exists S0 S0_valid orc0 "" 0 _ [] (by simp) {} SimSt.wakeWF_empty r h⟩

end Tickit.AnyEx
