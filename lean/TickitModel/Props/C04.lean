/-
C04 — ticks are serialised, carry one time each, and time never runs backwards
(ticker level: from C01; flat history level: here).
-/
import TickitModel.Lemmas.FlatDetLemmas

namespace Tickit

variable {Val : Type} [DecidableEq Val]

/-- no device asks to be called back in the past -/
def NoPastCallbacks (devs : DevSeq Val) : Prop :=
  ∀ k c t ins w, ((devs k) c t ins).callAt = some w → t ≤ w

/-- all updates of one tick carry that tick's time (observations added by a tick at `t`). -/
theorem one_time_per_tick (w : Wiring) (dev : DevFn Val) (st st' : FlatSt Val) (t : SimTime)
    (roots : List Comp) (hrun : TickRun w dev st t roots st')
    (o : Comp × SimTime × List (Port × Val)) (ho : o ∈ st'.obs) (hn : o ∉ st.obs) : o.2.1 = t := by
  obtain ⟨s, hs, _, rfl⟩ := hrun
  rcases Det.mem_obs_afterTick ho with h | ⟨c, t', ins, hm, ht⟩
  · exact absurd h hn
  · have := ((within_extent w _ t roots s hs).2.1 _ hm).2
    simp only [Dispatch.time] at this
    rw [ht, this]

/-- a tick is finished only when every member of its extent has answered, and each member
was dispatched exactly once (serialisation: the next tick starts from the finished state). -/
theorem tick_complete (w : Wiring) (dev : DevFn Val) (st st' : FlatSt Val) (t : SimTime)
    (roots : List Comp) (s : TickSys Val)
    (hs : s.Reachable w (st.react dev t) t roots) (hf : s.tk.toUpdate = []) (c : Comp) (hc : c ∈ extent w roots) :
    (∃ ch, Ev.answer c ch ∈ s.trace) ∧ (s.trace.filter (Ev.isDispatchOf c)).length = 1 := by
  have _ := st' -- not needed
  have hi := hs.inv.pre
  obtain ⟨ch, hch⟩ := (hi.resolved c hc).1 (by rw [hf]; rfl)
  refine ⟨⟨ch, hch⟩, ?_⟩
  have h1 := hi.count c
  have h2 : 1 ≤ (s.trace.filter (Ev.isAnswerOf c)).length :=
    List.length_pos_of_mem (List.mem_filter.2 ⟨hch, by simp [Ev.isAnswerOf]⟩)
  omega

/-- every pending wakeup is at or after the time of the last tick … -/
theorem wake_not_before (w : Wiring) (devs : DevSeq Val) (hpast : NoPastCallbacks devs)
    (t0 : SimTime) (n : Nat) (st : FlatSt Val) (times : List SimTime)
    (hrun : FlatRun w devs t0 n st times) :
    ∃ tl rest, times = tl :: rest ∧ ∀ c t, alookup st.wake c = some t → tl ≤ t := by
  exact Det.flatRun_wake_ge hpast hrun

/-- … hence **successive tick times never decrease**. -/
theorem time_monotone (w : Wiring) (devs : DevSeq Val) (hpast : NoPastCallbacks devs)
    (t0 : SimTime) (n : Nat) (st : FlatSt Val) (times : List SimTime)
    (hrun : FlatRun w devs t0 n st times) : times.Pairwise (fun later earlier => earlier ≤ later) := by
  induction hrun with
  | initial _ => simp
  | @tick n st0 st1 times0 cs m hprev hf _ ih =>
    obtain ⟨tl, rest, hti, hge⟩ := Det.flatRun_wake_ge hpast hprev
    obtain ⟨_, _, ⟨c, hc⟩, _⟩ := firstWakeups_spec _ (Det.flatRun_uniqueKeys hprev) cs m hf
    have htl : tl ≤ m := hge c m hc
    subst hti
    refine List.pairwise_cons.2 ⟨fun t' ht' => ?_, ih⟩
    rcases List.mem_cons.1 ht' with rfl | ht'
    · exact htl
    · exact Int.le_trans ((List.pairwise_cons.1 ih).1 t' ht') htl

/-- every tick time is the initial time or a callback requested by one of its roots (C06,
"never invented", flat callbacks-only histories). -/
theorem tick_time_provenance (w : Wiring) (devs : DevSeq Val)
    (t0 : SimTime) (n : Nat) (st st' : FlatSt Val) (times : List SimTime) (cs : List Comp) (m : SimTime)
    (hrun : FlatRun w devs t0 n st times) (hf : firstWakeups st.wake = (cs, some m)) :
    cs ≠ [] ∧ ∀ c ∈ cs, alookup st.wake c = some m := by
  have _ := st' -- not needed
  obtain ⟨hcs, _, ⟨c, hc⟩, _⟩ := firstWakeups_spec _ (Det.flatRun_uniqueKeys hrun) cs m hf
  refine ⟨fun hnil => ?_, fun c hc => (hcs c).1 hc⟩
  have := (hcs c).2 hc
  rw [hnil] at this
  simp at this

end Tickit
