/-
C08 through nesting, whole runs — the master loop over ANY-order ticks.

`MasterRunAny` (`Core/SimAny.lean`) is `masterRun` of `Core/Sim.lean` (wakeup bookkeeping between
ticks, pacing, external stimuli) with every tick replaced by an arbitrary `TickLevelAny` execution
of it.  This file proves that the FIFO run is one of these runs, that all of them do the same ticks
and end in equivalent states (same per-device observations), and transfers the flat theorems
(`nested_refines_flatRun`, `nested_inputs_synced`) to every any-order run whose FIFO counterpart is
completed by the model.
-/
import TickitModel.Lemmas.AnyRun
import TickitModel.Lemmas.AnyLiveRun
import TickitModel.Props.C03Nested

namespace Tickit

/-- **the FIFO run is one of the any-order runs** (initial tick and master loop). -/
theorem fifo_run_is_any (S : Static) (orc : Oracle) (fuel : Nat) (t0 : SimTime) (now : Int) (sp : Speed)
    (steps nTicks : Nat) (m m2 : MasterSt) (tr : TickRec) (stims : List Stim) (ticks : List TickRec)
    (h : masterInitial S orc fuel t0 now = .ok (m, tr))
    (h2 : masterRun S orc fuel sp steps nTicks m stims [tr] = .ok (m2, ticks)) :
    MasterInitialAny S orc t0 now (m, tr) ∧
      MasterRunAny S orc fuel sp steps nTicks m stims [tr] (m2, ticks) :=
  ⟨masterInitial_any S orc fuel t0 now _ h, masterRun_any S orc fuel sp steps nTicks m stims [tr] _ h2⟩

/-- **4. Schedule independence of whole runs, through nesting.**  Two runs of the master loop over
the same valid configuration with the same recorded device responses, the same initial time, speed
and external stimuli — every tick an arbitrary any-order execution — do the same ticks (same
simulation times, same real times, the same sets of roots) and end in equivalent states; in
particular every device, at whatever depth, has made the same sequence of observations. -/
theorem any_order_run_deterministic (S : Static) (hS : S.Valid) (orc : Oracle) (fuel : Nat)
    (t0 : SimTime) (now : Int) (sp : Speed) (steps nTicks : Nat) (stims : List Stim)
    (r0 r0' : MasterSt × TickRec) (r r' : MasterSt × List TickRec)
    (h1 : MasterInitialAny S orc t0 now r0) (h1' : MasterInitialAny S orc t0 now r0')
    (h2 : MasterRunAny S orc fuel sp steps nTicks r0.1 stims [r0.2] r)
    (h2' : MasterRunAny S orc fuel sp steps nTicks r0'.1 stims [r0'.2] r') :
    r.1.Equiv r'.1 ∧ TicksEquiv r.2 r'.2 ∧ ∀ d, ObsEq (r.1.sim.obsOf d) (r'.1.sim.obsOf d) := by
  obtain ⟨e1, e2⟩ := masterInitialAny_det hS h1 h1'
  have hacc : TicksEquiv [r0.2] [r0'.2] := by rw [e2]; exact TicksEquiv.refl _
  obtain ⟨f1, f2⟩ := masterRunAny_det hS h2 e1 hacc h2'
  exact ⟨f1, f2, fun d => (f1.sim d).ob⟩

/-- every any-order run agrees with the FIFO run, when the model completes the latter. -/
theorem any_order_run_agrees_with_fifo (S : Static) (hS : S.Valid) (orc : Oracle) (fuel : Nat)
    (t0 : SimTime) (now : Int) (sp : Speed) (steps nTicks : Nat) (stims : List Stim)
    (m m2 : MasterSt) (tr : TickRec) (ticks : List TickRec)
    (hf : masterInitial S orc fuel t0 now = .ok (m, tr))
    (hf2 : masterRun S orc fuel sp steps nTicks m stims [tr] = .ok (m2, ticks))
    (r0 : MasterSt × TickRec) (r : MasterSt × List TickRec)
    (h1 : MasterInitialAny S orc t0 now r0)
    (h2 : MasterRunAny S orc fuel sp steps nTicks r0.1 stims [r0.2] r) :
    r.1.Equiv m2 ∧ TicksEquiv r.2 ticks ∧ ∀ d, ObsEq (r.1.sim.obsOf d) (m2.sim.obsOf d) := by
  obtain ⟨a1, a2⟩ := fifo_run_is_any S orc fuel t0 now sp steps nTicks m m2 tr stims ticks hf hf2
  exact any_order_run_deterministic S hS orc fuel t0 now sp steps nTicks stims r0 (m, tr) r (m2, ticks)
    h1 a1 h2 a2

/-- **C03 / C08 through system boundaries, for every answer order at every depth.**  If the FIFO
model completes a nested run (initial tick + callback ticks), then EVERY any-order run of the same
length has, device by device, the observations of a run of the flat system over the resolved
(flattened) wiring which is `Synced`: the inputs every device was given at every update are, port
by port, the latest values reported on the resolved source outputs — no mixture of this-tick and
previous-tick values, whatever the delivery orders inside every system simulation. -/
theorem any_order_run_inputs_synced (S : Static) (hS : S.Valid) (orc : Oracle) (fuel rfuel : Nat)
    (hr : S.resolveFuel ≤ rfuel) (t0 : SimTime) (now : Int) (sp : Speed) (steps nTicks : Nat)
    (m m2 : MasterSt) (tr : TickRec) (ticks : List TickRec)
    (hf : masterInitial S orc fuel t0 now = .ok (m, tr))
    (hf2 : masterRun S orc fuel sp steps nTicks m [] [tr] = .ok (m2, ticks))
    (r0 : MasterSt × TickRec) (r : MasterSt × List TickRec)
    (h1 : MasterInitialAny S orc t0 now r0)
    (h2 : MasterRunAny S orc fuel sp steps nTicks r0.1 [] [r0.2] r) :
    ∃ (devs : DevSeq V) (st : FlatSt V) (times : List SimTime),
      FlatRun (Wiring.fromInverse (S.flatInverse rfuel)) devs t0 (r.2.length - 1) st times ∧
      Synced (Wiring.fromInverse (S.flatInverse rfuel)) st ∧
      times = (r.2.map (·.time)).reverse ∧
      ∀ d, ObsEq (r.1.sim.obsOf d) (st.obsOf d) := by
  obtain ⟨_, hticks, hobs⟩ := any_order_run_agrees_with_fifo S hS orc fuel t0 now sp steps nTicks []
    m m2 tr ticks hf hf2 r0 r h1 h2
  obtain ⟨devs, st, times, hfr, htimes, hob⟩ :=
    nested_refines_flatRun S hS orc fuel rfuel hr t0 now sp steps nTicks m m2 tr ticks hf hf2
  obtain ⟨hS', _, hL⟩ := flatten_facts S hS orc fuel rfuel hr t0 now m tr hf
  have hLm := (Static.level_some hL).1
  have hwf := hS'.wiring_wf _ hLm
  have hsy := synced_run _ (routerOK_of_wf _ hwf.1 hwf.2) (hS'.acyclic _ hLm) devs
    (hS'.ups_defined _ hLm) t0 _ st times hfr
  have hlen : r.2.length = ticks.length := by
    have := congrArg List.length hticks.times.1
    simpa using this
  refine ⟨devs, st, times, by rw [hlen]; exact hfr, hsy, ?_, fun d => obsEq_trans (hobs d) (hob d)⟩
  rw [htimes, hticks.times.1]

/-- **every any-order run (no external stimuli) has a FIFO counterpart**: for every sufficiently
large fuel the FIFO model completes the same run, doing the same ticks and ending in an equivalent
state. -/
theorem any_order_run_has_fifo (S : Static) (hS : S.Valid) (orc : Oracle) (fuel0 : Nat) (t0 : SimTime)
    (now : Int) (sp : Speed) (steps nTicks : Nat) (r0 : MasterSt × TickRec)
    (r : MasterSt × List TickRec) (h1 : MasterInitialAny S orc t0 now r0)
    (h2 : MasterRunAny S orc fuel0 sp steps nTicks r0.1 [] [r0.2] r) :
    ∃ F, ∀ fuel, F ≤ fuel → ∃ m tr m2 ticks, masterInitial S orc fuel t0 now = .ok (m, tr) ∧
      masterRun S orc fuel sp steps nTicks m [] [tr] = .ok (m2, ticks) ∧
      r.1.Equiv m2 ∧ TicksEquiv r.2 ticks := by
  obtain ⟨F, hF⟩ := any_run_has_fifo hS h1 h2
  refine ⟨F, fun fuel hfu => ?_⟩
  obtain ⟨m, tr, m2, ticks, hmi, hmr⟩ := hF fuel hfu
  obtain ⟨e1, e2, _⟩ := any_order_run_agrees_with_fifo S hS orc fuel t0 now sp steps nTicks [] m m2 tr
    ticks hmi hmr r0 r h1 (masterRunAny_fuel_irrel h2)
  exact ⟨m, tr, m2, ticks, hmi, hmr, e1, e2⟩

/-- **C03 / C08 through system boundaries for EVERY answer order at every depth, without any
assumption on the FIFO model.**  Every any-order run (initial tick + callback ticks, each tick an
arbitrary execution) of a valid nested configuration has, device by device, the observations of a
run of the flat system over the resolved (flattened) wiring, which is `Synced` — the inputs every
device was given at every update are, port by port, the latest values reported on the resolved
source outputs — and has the run's tick times.  All theorems about `FlatRun` (C03, C04, C06, C08)
thereby apply to the observations of every any-order run. -/
theorem any_order_run_refines_flatRun (S : Static) (hS : S.Valid) (orc : Oracle) (fuel0 rfuel : Nat)
    (hr : S.resolveFuel ≤ rfuel) (t0 : SimTime) (now : Int) (sp : Speed) (steps nTicks : Nat)
    (r0 : MasterSt × TickRec) (r : MasterSt × List TickRec)
    (h1 : MasterInitialAny S orc t0 now r0)
    (h2 : MasterRunAny S orc fuel0 sp steps nTicks r0.1 [] [r0.2] r) :
    ∃ (devs : DevSeq V) (st : FlatSt V) (times : List SimTime),
      FlatRun (Wiring.fromInverse (S.flatInverse rfuel)) devs t0 (r.2.length - 1) st times ∧
      Synced (Wiring.fromInverse (S.flatInverse rfuel)) st ∧
      times = (r.2.map (·.time)).reverse ∧
      ∀ d, ObsEq (r.1.sim.obsOf d) (st.obsOf d) := by
  obtain ⟨F, hF⟩ := any_run_has_fifo hS h1 h2
  obtain ⟨m, tr, m2, ticks, hmi, hmr⟩ := hF F (Nat.le_refl _)
  exact any_order_run_inputs_synced S hS orc F rfuel hr t0 now sp steps nTicks m m2 tr ticks hmi hmr
    r0 r h1 (masterRunAny_fuel_irrel h2)

end Tickit
