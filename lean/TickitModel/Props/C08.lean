/-
C08 — results do not depend on message timing (flat simulations, callbacks):
the per-device observation sequences are the same for every answer order in every tick.
-/
import TickitModel.Lemmas.FlatDetLemmas

namespace Tickit

variable {Val : Type} [DecidableEq Val]

/-- two states are the same up to the order of keys inside their maps -/
structure FlatSt.Equiv (a b : FlatSt Val) : Prop where
  comps : ∀ c, MapEq (a.comp c).deviceInputs (b.comp c).deviceInputs ∧ MapEq (a.comp c).lastOutputs (b.comp c).lastOutputs
  wake : MapEq a.wake b.wake
  obs : ∀ c, ObsEq (a.obsOf c) (b.obsOf c)

/-- **one tick**: from equivalent states, two complete runs of the same tick (any two answer
orders) end in equivalent states — in particular every device made the same observation. -/
theorem tickRun_deterministic (w : Wiring) (hw : RouterOK w) (hacyc : w.Acyclic) (dev : DevFn Val)
    (hdev : DevExt dev) (a b a' b' : FlatSt Val) (t : SimTime) (roots roots' : List Comp)
    (hroots : ∀ c, c ∈ roots ↔ c ∈ roots')
    (hwa : (akeys a.wake).Nodup) (hwb : (akeys b.wake).Nodup)
    (hab : a.Equiv b) (ha : TickRun w dev a t roots a') (hb : TickRun w dev b t roots' b') :
    a'.Equiv b' := by
  have _ := hwa -- not needed: the wakeups are compared as mappings
  have _ := hwb
  have h := Det.tickRun_loc_equiv hw hacyc hdev hroots
    (fun c => ⟨(hab.comps c).1, (hab.comps c).2, hab.wake c, hab.obs c⟩) ha hb
  exact ⟨fun c => ⟨(h c).ins, (h c).outs⟩, fun c => (h c).wk, fun c => (h c).ob⟩

/-- **C08.** Two runs of the same flat simulation (same wiring, same deterministic devices,
same initial time, same number of ticks) have the same tick times and every device has the
same sequence of (time, inputs) observations — whatever the answer orders were. -/
theorem schedule_independent (w : Wiring) (hw : RouterOK w) (hacyc : w.Acyclic) (devs : DevSeq Val)
    (hdev : ∀ k, DevExt (devs k)) (t0 : SimTime) (n : Nat)
    (st1 st2 : FlatSt Val) (times1 times2 : List SimTime)
    (h1 : FlatRun w devs t0 n st1 times1) (h2 : FlatRun w devs t0 n st2 times2) :
    times1 = times2 ∧ ∀ c, ObsEq (st1.obsOf c) (st2.obsOf c) := by
  obtain ⟨ht, h⟩ := Det.flatRun_loc_equiv hw hacyc hdev h1 h2
  exact ⟨ht, fun c => (h c).ob⟩

end Tickit
