/-
C04 — time never runs backwards, for all histories of callbacks and interrupts
(several due at the same instant, interrupts arriving while a tick is running), provided no
device asks to be called back in the past.

PART A: the master scheduler's bookkeeping `MSt` as a transition system in which interrupts,
answers, tick starts, update beginnings and tick ends come in any order.
PART B: the whole-simulation model (`tickLevel`, `masterRun`) with nested schedulers at any
depth and external stimuli.

(The flat multi-tick system with callbacks only is `time_monotone` in `Props/C04.lean`.)
-/
import TickitModel.Lemmas.TimeMonoLemmas

namespace Tickit

open TimeMono

/-! ## PART A — the master's bookkeeping, interrupts at any point

`MSt.Timely s acts` (Lemmas/TimeMonoLemmas.lean): walking along `acts` from `s`, every
`.interrupt c stamp` happens in a state with `tickerTime ≤ stamp` (pacing law C12: the stamp is
`tickerTime + elapsed·speed`, `elapsed ≥ 0`) and every `.output c (some w)` happens in a state
with `tickerTime ≤ w` (no device asks to be called back in the past). -/

/-- **A1.** After every timely history, no wakeup entry and no pending-interrupt stamp lies
before the ticker time. -/
theorem master_wake_not_before (acts : List MAct) (h : ({} : MSt).Timely acts) :
    (∀ e ∈ (({} : MSt).run acts).wake, (({} : MSt).run acts).tickerTime ≤ e.2) ∧
    (∀ e ∈ (({} : MSt).run acts).pend, (({} : MSt).run acts).tickerTime ≤ e.2) := by
  obtain ⟨hT, _⟩ := TInv.init.run acts h
  refine ⟨fun e he => ?_, fun e he => ?_⟩
  · exact hT.wake_ge e.1 e.2 ((alookup_eq_some_iff _ hT.inv.wakeU e.1 e.2).2 he)
  · exact hT.pend_ge e.1 e.2 ((alookup_eq_some_iff _ hT.inv.pendU e.1 e.2).2 he)

/-- **A2.** Along every timely history the ticker time never decreases: whatever was done
(`pre`), whatever follows (`post`). -/
theorem master_time_monotone (pre post : List MAct) (h : ({} : MSt).Timely (pre ++ post)) :
    (({} : MSt).run pre).tickerTime ≤ (({} : MSt).run (pre ++ post)).tickerTime := by
  obtain ⟨h1, h2⟩ := (timely_append _ pre post).1 h
  obtain ⟨hT, _⟩ := TInv.init.run pre h1
  rw [run_append]
  exact (hT.run post h2).2

/-- A2, step form: in a state reached by a timely history every enabled `startTick` goes to a
time not before the previous tick's. -/
theorem master_startTick_monotone (acts : List MAct) (h : ({} : MSt).Timely acts) (s' : MSt)
    (hs : (({} : MSt).run acts).step .startTick = some s') :
    (({} : MSt).run acts).tickerTime ≤ s'.tickerTime := by
  obtain ⟨hT, _⟩ := TInv.init.run acts h
  exact (hT.step .startTick trivial hs).2

/-- A2, list form: the ticker times visited along a timely history are non-decreasing. -/
theorem master_times_sorted (acts : List MAct) (h : ({} : MSt).Timely acts) :
    ((({} : MSt).times acts)).Pairwise (· ≤ ·) :=
  (TInv.init.times_sorted acts h).1

/-- **A3 (the hypothesis on outputs is needed).** `a` is interrupted (stamp 10), the tick at 10
runs, `a` answers with a callback request in the past (3): the history is not timely, and the
next `startTick` takes the time back from 10 to 3. -/
theorem master_past_callback_decreases :
    let pre : List MAct := [.interrupt "a" 10, .startTick, .beginUpdate "a", .output "a" (some 3), .endTick]
    ¬ ({} : MSt).Timely (pre ++ [.startTick]) ∧
    (({} : MSt).run pre).tickerTime = 10 ∧ (({} : MSt).run (pre ++ [.startTick])).tickerTime = 3 := by
  decide

/-- **A3 (non-vacuity).** A timely history with two interrupts and a callback: `a` is interrupted
(5); while the tick at 5 is running (`ticking = some ["a"]`) `b` is interrupted (7); `a` asks to
be called back at 20; the ticks are at 5, 7, 20. -/
example :
    let acts : List MAct :=
      [.interrupt "a" 5, .startTick, .interrupt "b" 7, .beginUpdate "a", .output "a" (some 20), .endTick,
       .startTick, .beginUpdate "b", .output "b" none, .endTick, .startTick]
    ({} : MSt).Timely acts ∧
    (({} : MSt).run (acts.take 2)).ticking = some ["a"] ∧
    ({} : MSt).times acts = [0, 0, 5, 5, 5, 5, 5, 7, 7, 7, 7, 20] ∧
    (({} : MSt).run acts).ticking = some ["a"] := by
  decide

/-- two wakeups due at the same instant are served by one tick; the time does not move back. -/
example :
    let acts : List MAct :=
      [.interrupt "a" 5, .interrupt "b" 5, .startTick, .beginUpdate "a", .beginUpdate "b",
       .output "a" (some 9), .output "b" (some 9), .endTick, .startTick]
    ({} : MSt).Timely acts ∧ ({} : MSt).times acts = [0, 0, 0, 5, 5, 5, 5, 5, 5, 9] ∧
    (({} : MSt).run acts).ticking = some ["a", "b"] := by
  decide

/-! ## PART B — the whole simulation, nested schedulers at any depth

`RunNoPast orc st` — "no device asks to be called back in the past", for oracle devices, on a
final state: the k-th observation of `c` has a time `≤` the `callAt` of the k-th recorded
response of `c`.
`SimSt.Good st` — the bookkeeping invariant of every reachable state (update counter = number of
observations; every scheduler's wakeups have unique keys); it holds in the empty state and is
kept by everything (`sim_reachable_good`).  No hypothesis on `S` (`S.WF`) is needed. -/

/-- **B1 (key lemma).** One tick of scheduler level `lvl` at time `t`, at any depth, started in a
well-formed state; no device (at any depth below) asks to be called back in the past.  Then
* the state stays well-formed;
* every wakeup entry of every scheduler level after the tick was there before or is `≥ t`
  ("every entry added during this tick is `≥ t`");
* if no entry of level `lvl` was before `t` when the tick began, none is afterwards. -/
theorem system_callAt_not_past (S : Static) (orc : Oracle) (fuel : Nat) (lvl : Comp) (t : SimTime)
    (roots : List Comp) (inCh : List (Port × V)) (st st' : SimSt) (out : List (Port × V))
    (h : tickLevel S orc fuel lvl t roots inCh st = .ok (st', out))
    (hg : st.Good) (hnp : RunNoPast orc st') :
    st'.Good ∧
    (∀ l e, e ∈ (st'.sched l).wake → e ∈ (st.sched l).wake ∨ t ≤ e.2) ∧
    ((∀ e ∈ (st.sched lvl).wake, t ≤ e.2) → ∀ e ∈ (st'.sched lvl).wake, t ≤ e.2) := by
  obtain ⟨_, hlev⟩ := tickLevel_ok S orc _ _ _ _ _ _ _ _ h
  obtain ⟨hg', hnew⟩ := hlev hg
  have hnew := hnew hnp
  refine ⟨hg', hnew, fun hall e he => ?_⟩
  rcases hnew lvl e he with h1 | h1
  · exact hall e h1
  · exact h1

/-- **B1, for a system component.** `nestedPrep st c t` is what the system branch of `tickLoop`
does before the inner tick of system `c` at time `t` (due wakeups `≤ t` removed via
`nestedDue`/`delWakeups`, queued interrupts taken).  After the inner tick no wakeup of the nested
level lies before `t`, hence the `callAt` with which the system component answers its enclosing
level — `if interrupts.isEmpty then (firstWakeups wake).2 else some t` — is never before `t`. -/
theorem nested_tick_callAt_not_past (S : Static) (orc : Oracle) (fuel : Nat) (c : Comp) (t : SimTime)
    (roots : List Comp) (ins : List (Port × V)) (st st2 : SimSt) (out : List (Port × V))
    (hg : st.Good)
    (h : tickLevel S orc fuel c t roots ins (nestedPrep st c t) = .ok (st2, out))
    (hnp : RunNoPast orc st2) :
    (∀ e ∈ (st2.sched c).wake, t ≤ e.2) ∧
    ∀ w, (if (st2.sched c).interrupts.isEmpty then (firstWakeups (st2.sched c).wake).2 else some t)
        = some w → t ≤ w := by
  obtain ⟨hg1, hgt, _⟩ := nestedPrep_ok st c t hg
  obtain ⟨_, _, hkeep⟩ := system_callAt_not_past S orc fuel c t roots ins _ st2 out h hg1 hnp
  have hall := hkeep (fun e he => Int.le_of_lt (hgt e he))
  refine ⟨hall, fun w hw => ?_⟩
  split at hw
  · obtain ⟨⟨e, he, hew⟩, _⟩ := firstWakeups_mem _ _ hw
    exact hew ▸ hall e he
  · cases hw
    exact Int.le_refl _

/-- **B1, as `tickLoop` uses it** (`tickLoop_cons`: the answer to a dispatch is `simAnswer`): the
`callAt` that ANY component — device or system simulation, at any depth — returns to its
enclosing level in a tick at time `t` is `≥ t`. -/
theorem answer_callAt_not_past (S : Static) (orc : Oracle) (fuel : Nat) (L : Level)
    (inCh : List (Port × V)) (st : SimSt) (out0 : List (Port × V)) (d : Dispatch V)
    (st' : SimSt) (outCh' changes : List (Port × V)) (w : SimTime)
    (h : simAnswer S orc fuel L inCh st out0 d = .ok (st', outCh', changes, some w))
    (hg : st.Good) (hnp : RunNoPast orc st') : d.time ≤ w := by
  obtain ⟨_, hA⟩ := simAnswer_ok (tickLevel_ok S orc fuel) h
  exact ((hA hg).2 hnp).2 w rfl

/-- every state reached by the initial tick and a run is well-formed, no master wakeup lies
before the ticker time, and the recorded ticks are not after the ticker time. -/
theorem sim_wake_not_before (S : Static) (orc : Oracle) (fuel : Nat) (t0 : SimTime) (now : Int)
    (sp : Speed) (steps nTicks : Nat) (stims : List Stim) (m m2 : MasterSt) (tr : TickRec)
    (ticks : List TickRec)
    (h : masterInitial S orc fuel t0 now = .ok (m, tr))
    (h2 : masterRun S orc fuel sp steps nTicks m stims [tr] = .ok (m2, ticks))
    (hnp : RunNoPast orc m2.sim) :
    m2.sim.Good ∧ (∀ e ∈ (m2.sim.sched "").wake, m2.tickerTime ≤ e.2) ∧
    (∀ x ∈ ticks, x.time ≤ m2.tickerTime) ∧ (ticks.map (·.time)).Pairwise (· ≤ ·) := by
  obtain ⟨hx, hrun⟩ := masterRun_mono S orc fuel sp steps nTicks m stims [tr] m2 ticks h2
  obtain ⟨hok, htr⟩ := masterInitial_ok S orc fuel t0 now m tr h (RunNoPast.of_ext hx hnp)
  obtain ⟨h1, h2', h3⟩ := hrun hok hnp (by simp)
    (by intro x hx'; simp only [List.mem_singleton] at hx'; subst hx'; exact Int.le_of_eq htr)
  exact ⟨h3.good, h3.wake_ge, h2', h1⟩

/-- **B2.** Whole simulation, nested schedulers at any depth, any history of callbacks and of
external stimuli (interrupts raised on any component at any real time, in any order): provided no
device asks to be called back in the past, successive tick times never decrease.

No hypothesis on the configuration, on the stimuli or on the speed is needed: `masterRun` never
lets real time run backwards (`now := max now st.real`), so the pacing law stamps every interrupt
at or after the ticker time. -/
theorem sim_time_monotone (S : Static) (orc : Oracle) (fuel : Nat) (t0 : SimTime) (now : Int)
    (sp : Speed) (steps nTicks : Nat) (stims : List Stim) (m m2 : MasterSt) (tr : TickRec)
    (ticks : List TickRec)
    (h : masterInitial S orc fuel t0 now = .ok (m, tr))
    (h2 : masterRun S orc fuel sp steps nTicks m stims [tr] = .ok (m2, ticks))
    (hnp : RunNoPast orc m2.sim) :
    (ticks.map (·.time)).Pairwise (· ≤ ·) :=
  (sim_wake_not_before S orc fuel t0 now sp steps nTicks stims m m2 tr ticks h h2 hnp).2.2.2

/-- B2 without stimuli (callbacks only). -/
theorem sim_time_monotone_callbacks (S : Static) (orc : Oracle) (fuel : Nat) (t0 : SimTime) (now : Int)
    (sp : Speed) (steps nTicks : Nat) (m m2 : MasterSt) (tr : TickRec) (ticks : List TickRec)
    (h : masterInitial S orc fuel t0 now = .ok (m, tr))
    (h2 : masterRun S orc fuel sp steps nTicks m [] [tr] = .ok (m2, ticks))
    (hnp : RunNoPast orc m2.sim) :
    (ticks.map (·.time)).Pairwise (· ≤ ·) :=
  sim_time_monotone S orc fuel t0 now sp steps nTicks [] m m2 tr ticks h h2 hnp

/-- the executable check used below is sound -/
theorem runNoPastB_implies (orc : Oracle) (st : SimSt) (h : runNoPastB orc st = true) :
    RunNoPast orc st :=
  runNoPastB_sound orc st h

/-! ### B3 — non-vacuity (evaluated at build time)

Master {d, sys}; system `sys` {a, b}; `d` feeds `sys`, whose input goes to `a`.
`d` asks for multiples of 10, `a` (inside) for multiples of 4, `b` (inside) for multiples of 6. -/

namespace C04Ex

def wM : Wiring := Wiring.fromInverse [("d", []), ("sys", [("in", ("d", "o"))])]
def wS : Wiring := Wiring.fromInverse [("external", []), ("a", [("i", ("external", "in"))]), ("b", []),
  ("expose", [("out", ("a", "o"))])]
def S : Static :=
  { levels := [⟨"", wM⟩, ⟨"sys", wS⟩]
    systems := ["sys"]
    parent := [("d", ""), ("sys", ""), ("a", "sys"), ("b", "sys")] }

def per (period : Int) (k : Nat) : List DevResp :=
  (List.range k).map (fun (i : Nat) => (⟨[("o", (i : Int))], some (period * ((i : Int) + 1)), false⟩ : DevResp))

def orc : Oracle := [("d", per 10 20), ("a", per 4 30), ("b", per 6 30)]

/-- tick times, whether `RunNoPast` holds in the final state (checked by `runNoPastB`), and
whether the times are non-decreasing -/
def run (orc : Oracle) (stims : List Stim) (k : Nat) : Option (List SimTime × Bool × Bool) :=
  match masterInitial S orc 10 0 0 with
  | .ok (m, tr) =>
    match masterRun S orc 10 ⟨1, 1⟩ 200 k m stims [tr] with
    | .ok (m2, ticks) =>
      let ts := ticks.map (·.time)
      some (ts, runNoPastB orc m2.sim, (ts.zip ts.tail).all (fun p => decide (p.1 ≤ p.2)))
    | .error _ => none
  | .error _ => none

-- callbacks only: inner periods 4 and 6, outer period 10; 12 and 20 are shared instants
#guard run orc [] 10 == some ([0, 4, 6, 8, 10, 12, 16, 18, 20, 24, 28], true, true)
-- with interrupts raised on the inner devices between ticks (real time 3 on `b`, 9 on `a`)
#guard run orc [⟨3, "b"⟩, ⟨9, "a"⟩] 10 == some ([0, 3, 4, 8, 9, 10, 12, 18, 20, 24, 28], true, true)
-- the hypothesis is needed: `b` (inside the system) asks at its 2nd update (time 6) to be called
-- back at 5: `RunNoPast` fails and the time goes back from 6 to 5
def orcPast : Oracle :=
  [("d", per 10 20), ("a", per 4 30), ("b", [⟨[], some 6, false⟩, ⟨[], some 5, false⟩, ⟨[], none, false⟩])]
#guard run orcPast [] 4 == some ([0, 4, 6, 5, 8], false, false)

end C04Ex

end Tickit
