/-
C12, run level, ARBITRARY PROCESSING COSTS — simulation time is paced against real time by the
configured speed, over the whole-simulation model with costs (`Core/SimCost.lean`:
`masterInitialC` / `masterRunC`, nested schedulers at any depth, external stimuli).

Speed = `sp.num / sp.den`; times are integer nanoseconds.  The tick whose record is `ticks[k]`
(the initial tick is `ticks[0]`) is started at real time `ticks[k].real` and takes `cost k` ns, for
an ARBITRARY cost function `cost : Nat → Nat`: it ends at `ticks[k].real + cost k`, and that is
when `MasterScheduler.last_time` is set for the pacing of the next tick.
`busy cost k = cost 0 + … + cost (k-1)` is the processing time spent before tick `k` starts.
Zero-cost versions: `Props/C12Run.lean`; one step: `Props/C12.lean`.

* Z  `masterRunC_zero_cost`, `masterInitialC_zero_cost`, `zero_cost_instance` — with all costs 0
  the loop with costs IS the zero-cost loop `masterRun`, so every theorem of `Props/C12Run.lean`
  is an instance (`runC_linear_law_zero_cost` spells one out).
* P1 `runC_never_early` — any stimuli, any costs: the tick `k+1` is not started before the tick
  `k` has ended, nor before real time has advanced by `(t_{k+1} - t_k)/speed` since that end;
  and its start is `dueReal`, the value the code computes from `sleep_time`.
  `runC_step_computed` — callbacks only: the start of tick `k+1` is exactly
  `real_k + cost k + max 0 ⌈(t_{k+1} - t_k)·den/num⌉`: less than 1 ns after the ideal time, exactly
  on it when the wait is a whole number of ns, and at once when the tick is overdue;
  `runC_step_zero_cost` — the same with all costs 0.
* P2 `runC_never_ahead` — any stimuli, any costs: `t_k ≤ t_0 + ⌊(real_k - real_0)·speed⌋`, and
  even with the processing time taken out: `t_k - t_0 ≤ (real_k - real_0 - busy k)·speed`.
  `runC_lag_bound` — callbacks only, no callback in the past: the lag is the processing time
  plus the rounding of the sleeps and nothing else:
  `(t_k - t_0)/speed ≤ real_k - real_0 - busy k ≤ (t_k - t_0)/speed + k·(1 - 1/num)`;
  in simulation time (`runC_lag_simtime`):
  `t_0 + ⌊(real_k - real_0)·speed⌋ - t_k ≤ ⌊(busy k·num + k·(num-1))/den⌋`.
  `runC_linear_exact_of_dvd`, `runC_linear_exact` — no rounding term when every wait is a whole
  number of ns (e.g. `num = 1`): `t_k - t_0 = (real_k - real_0 - busy k)·speed` exactly.
* P3 `runC_stamp_law`, `runC_stamp_formula` — every stimulus handled is stamped
  `t_k + ⌊(now - (real_k + cost k))·speed⌋` when it is handled between ticks (relative to the END
  of the last tick `k`), and `t_k + ⌊(now - real_k)·speed⌋` when it arrives in the middle of tick
  `k` (relative to its START), where `now` is the real time at which it is handled;
  `runC_stim_now` — `now` is the stimulus' own real time when the stimuli come in time order.
-/
import TickitModel.Lemmas.CostMono
import TickitModel.Lemmas.CostSorted
import TickitModel.Props.C12Run

namespace Tickit

open Pacing TimeMono CostRun

/-! ## Z — zero cost: the loop with costs is the zero-cost loop -/

/-- **Z.**  If every tick takes no time, `masterRunC` returns exactly what `masterRun` of
`Core/Sim.lean` returns: for every configuration, oracle, speed, state, stimuli, number of steps
and ticks. -/
theorem masterRunC_zero_cost (S : Static) (orc : Oracle) (fuel : Nat) (sp : Speed)
    (cost : Nat → Nat) (hc : ∀ k, cost k = 0) (steps nTicks : Nat) (m : MasterSt)
    (stims : List Stim) (acc : List TickRec) :
    masterRunC S orc fuel sp cost steps nTicks m stims acc =
      masterRun S orc fuel sp steps nTicks m stims acc :=
  masterRunC_zero S orc fuel sp cost hc steps nTicks m stims acc

/-- **Z, initial tick.**  If the initial tick takes no time, `masterInitialC` is `masterInitial`
and leaves all the stimuli for the run. -/
theorem masterInitialC_zero_cost (S : Static) (orc : Oracle) (fuel : Nat) (sp : Speed)
    (cost : Nat → Nat) (hc : cost 0 = 0) (t0 : SimTime) (now0 : Int) (stims : List Stim) :
    masterInitialC S orc fuel sp cost t0 now0 stims =
      (masterInitial S orc fuel t0 now0).map (fun r => (r.1, r.2, stims)) :=
  masterInitialC_zero S orc fuel sp cost hc t0 now0 stims

/-- **Z, as an instance.**  A successful run with all costs 0 is a successful run of the
zero-cost model with the same stimuli, the same final state and the same tick records: the
hypotheses of every theorem in `Props/C12Run.lean` are met. -/
theorem zero_cost_instance (S : Static) (orc : Oracle) (fuel : Nat) (t0 : SimTime) (now0 : Int)
    (sp : Speed) (cost : Nat → Nat) (hc : ∀ k, cost k = 0) (steps nTicks : Nat)
    (stims0 stims : List Stim) (m m2 : MasterSt) (tr : TickRec) (ticks : List TickRec)
    (h : masterInitialC S orc fuel sp cost t0 now0 stims0 = .ok (m, tr, stims))
    (h2 : masterRunC S orc fuel sp cost steps nTicks m stims [tr] = .ok (m2, ticks)) :
    stims = stims0 ∧ masterInitial S orc fuel t0 now0 = .ok (m, tr) ∧
    masterRun S orc fuel sp steps nTicks m stims0 [tr] = .ok (m2, ticks) := by
  rw [masterInitialC_zero_cost S orc fuel sp cost (hc 0)] at h
  rw [masterRunC_zero_cost S orc fuel sp cost hc] at h2
  cases hi : masterInitial S orc fuel t0 now0 with
  | error e => rw [hi] at h; cases h
  | ok r =>
    rw [hi] at h
    simp only [Except.map, Except.ok.injEq, Prod.mk.injEq] at h
    obtain ⟨h1, h3, h4⟩ := h
    subst h4
    refine ⟨rfl, ?_, h2⟩
    rw [← h1, ← h3]

/-- the linear law of `Props/C12Run.lean` read off the model with costs, all costs 0 -/
theorem runC_linear_law_zero_cost (S : Static) (orc : Oracle) (fuel : Nat) (t0 : SimTime)
    (now0 : Int) (sp : Speed) (cost : Nat → Nat) (hc : ∀ k, cost k = 0) (steps nTicks : Nat)
    (m m2 : MasterSt) (tr : TickRec) (ticks : List TickRec) (stims : List Stim)
    (h : masterInitialC S orc fuel sp cost t0 now0 [] = .ok (m, tr, stims))
    (h2 : masterRunC S orc fuel sp cost steps nTicks m stims [tr] = .ok (m2, ticks))
    (hn : 0 < sp.num) (hnp : RunNoPast orc m2.sim) :
    ∀ (k : Nat) (x : TickRec), ticks[k]? = some x →
      (x.time - t0) * sp.den ≤ (x.real - now0) * sp.num ∧
      (x.real - now0) * sp.num ≤ (x.time - t0) * sp.den + k * (sp.num - 1) := by
  obtain ⟨_, hi, hr⟩ := zero_cost_instance S orc fuel t0 now0 sp cost hc steps nTicks [] stims
    m m2 tr ticks h h2
  exact run_linear_law S orc fuel t0 now0 sp steps nTicks m m2 tr ticks hi hr hn hnp

/-! ## P1 — never early, with costs -/

/-- **P1.**  Whole simulation, any stimuli, any costs, any positive `sp.num`.  For every two
consecutive tick records `a = ticks[i]`, `b = ticks[i+1]` (tick `a` ends at `a.real + cost i`):
* the next tick is not started before the previous one has ended;
* it is not started before real time has advanced by `(b.time - a.time)/speed` since that END:
  `b.real - (a.real + cost i) ≥ ⌈(b.time - a.time)·den/num⌉` (multiplied out);
* its start is the value the code computes: with `N ≥ a.real + cost i` the real time at which
  `sleep_time(b.time)` is evaluated for the last time (`N` is the end of tick `a` itself when
  there are no stimuli; a stimulus arriving during the sleep cancels it and the sleep is computed
  afresh), `sleep_time = ((b.time - a.time)·den - (N - (a.real + cost i))·num)/num` ns, and the tick
  starts at `N` if that is not positive (the tick is overdue: it starts immediately), else at
  `N + ⌈sleep_time⌉`. -/
theorem runC_never_early (S : Static) (orc : Oracle) (fuel : Nat) (t0 : SimTime) (now0 : Int)
    (sp : Speed) (cost : Nat → Nat) (steps nTicks : Nat) (stims0 stims : List Stim)
    (m m2 : MasterSt) (tr : TickRec) (ticks : List TickRec)
    (h : masterInitialC S orc fuel sp cost t0 now0 stims0 = .ok (m, tr, stims))
    (h2 : masterRunC S orc fuel sp cost steps nTicks m stims [tr] = .ok (m2, ticks))
    (hn : 0 < sp.num) :
    ∀ (i : Nat) (a b : TickRec), ticks[i]? = some a → ticks[i + 1]? = some b →
      a.real + cost i ≤ b.real ∧
      (b.time - a.time) * sp.den ≤ (b.real - (a.real + cost i)) * sp.num ∧
      ∃ N : Int, a.real + cost i ≤ N ∧ (stims0 = [] → N = a.real + cost i) ∧
        b.real =
          (if (b.time - a.time) * sp.den - (N - (a.real + cost i)) * sp.num ≤ 0 then N
           else N + ceilDiv ((b.time - a.time) * sp.den - (N - (a.real + cost i)) * sp.num) sp.num) := by
  obtain ⟨_, hlinks, _⟩ := initial_runC h h2
  intro i a b ha hb
  have hl := hlinks i a b ha hb
  obtain ⟨h1, h3⟩ := hl.never_early hn
  obtain ⟨N, hN1, hN2, hN3⟩ := hl
  exact ⟨h1, h3, N, hN1, hN2, hN3⟩

/-- **P1, callbacks only: the start of each tick, exactly.**  Without stimuli, for consecutive
tick records `a = ticks[i]`, `b = ticks[i+1]`, any costs:
`b.real = a.real + cost i + max 0 ⌈(b.time - a.time)·den/num⌉` — the next tick starts exactly the
rounded-up wait after the END of the previous one.  So, when simulation time does not go back,
it starts less than 1 ns after the ideal time and exactly on it when the wait is a whole number
of nanoseconds; an overdue tick (`b.time ≤ a.time`) starts at once, when the previous one ends. -/
theorem runC_step_computed (S : Static) (orc : Oracle) (fuel : Nat) (t0 : SimTime) (now0 : Int)
    (sp : Speed) (cost : Nat → Nat) (steps nTicks : Nat) (stims : List Stim)
    (m m2 : MasterSt) (tr : TickRec) (ticks : List TickRec)
    (h : masterInitialC S orc fuel sp cost t0 now0 [] = .ok (m, tr, stims))
    (h2 : masterRunC S orc fuel sp cost steps nTicks m stims [tr] = .ok (m2, ticks))
    (hn : 0 < sp.num) :
    ∀ (i : Nat) (a b : TickRec), ticks[i]? = some a → ticks[i + 1]? = some b →
      b.real = a.real + cost i +
        (if (b.time - a.time) * sp.den ≤ 0 then 0 else ceilDiv ((b.time - a.time) * sp.den) sp.num) ∧
      (a.time ≤ b.time →
        (b.real - (a.real + cost i)) * sp.num < (b.time - a.time) * sp.den + sp.num) ∧
      (a.time ≤ b.time → (sp.num : Int) ∣ (b.time - a.time) * sp.den →
        (b.real - (a.real + cost i)) * sp.num = (b.time - a.time) * sp.den) ∧
      (b.time ≤ a.time → b.real = a.real + cost i) := by
  obtain ⟨_, hlinks, _⟩ := initial_runC h h2
  intro i a b ha hb
  have hl := hlinks i a b ha hb
  have hc := hl.computed rfl
  refine ⟨hc, fun hm => ?_, fun hm hdiv => hl.exact rfl hm hdiv, fun hm => ?_⟩
  · have := hl.lag hn rfl hm
    omega
  · rw [hc, if_pos]
    · omega
    · exact Int.mul_nonpos_of_nonpos_of_nonneg (by simp only [SimTime] at *; omega)
        (Int.natCast_nonneg _)

/-- **P1 at zero cost.**  Callbacks only, every tick free (`cost k = 0` for all `k`): each tick
starts exactly the rounded-up wait after the START of the previous one (which is also its end):
`b.real = a.real + max 0 ⌈(b.time - a.time)·den/num⌉`. -/
theorem runC_step_zero_cost (S : Static) (orc : Oracle) (fuel : Nat) (t0 : SimTime) (now0 : Int)
    (sp : Speed) (cost : Nat → Nat) (hc : ∀ k, cost k = 0) (steps nTicks : Nat) (stims : List Stim)
    (m m2 : MasterSt) (tr : TickRec) (ticks : List TickRec)
    (h : masterInitialC S orc fuel sp cost t0 now0 [] = .ok (m, tr, stims))
    (h2 : masterRunC S orc fuel sp cost steps nTicks m stims [tr] = .ok (m2, ticks))
    (hn : 0 < sp.num) :
    ∀ (i : Nat) (a b : TickRec), ticks[i]? = some a → ticks[i + 1]? = some b →
      b.real = a.real +
        (if (b.time - a.time) * sp.den ≤ 0 then 0 else ceilDiv ((b.time - a.time) * sp.den) sp.num) := by
  intro i a b ha hb
  have := (runC_step_computed S orc fuel t0 now0 sp cost steps nTicks stims m m2 tr ticks h h2 hn
    i a b ha hb).1
  rw [hc i, Int.natCast_zero, Int.add_zero] at this
  exact this

/-! ## P2 — the lag: never ahead, and behind by the processing time plus rounding only -/

/-- **P2, never ahead.**  Whole simulation, any stimuli, any costs, any positive `sp.num`.  For
the k-th tick record `x = ticks[k]`: real time has advanced at least by the processing time
`busy cost k` of the ticks before it, and simulation time is not ahead of the scaled real time
even when that processing time is taken out: `(x.time - t0)/speed ≤ x.real - now0 - busy cost k`;
so in particular `(x.time - t0)/speed ≤ x.real - now0`, and (for `sp.den > 0`)
`x.time ≤ t0 + ⌊(x.real - now0)·num/den⌋`. -/
theorem runC_never_ahead (S : Static) (orc : Oracle) (fuel : Nat) (t0 : SimTime) (now0 : Int)
    (sp : Speed) (cost : Nat → Nat) (steps nTicks : Nat) (stims0 stims : List Stim)
    (m m2 : MasterSt) (tr : TickRec) (ticks : List TickRec)
    (h : masterInitialC S orc fuel sp cost t0 now0 stims0 = .ok (m, tr, stims))
    (h2 : masterRunC S orc fuel sp cost steps nTicks m stims [tr] = .ok (m2, ticks))
    (hn : 0 < sp.num) :
    ∀ (k : Nat) (x : TickRec), ticks[k]? = some x →
      now0 + busy cost k ≤ x.real ∧
      (x.time - t0) * sp.den ≤ (x.real - now0 - busy cost k) * sp.num ∧
      (x.time - t0) * sp.den ≤ (x.real - now0) * sp.num ∧
      (0 < sp.den → x.time ≤ t0 + ((x.real - now0) * sp.num) / sp.den) := by
  obtain ⟨_, hlinks, h0, ht, hr⟩ := initial_runC h h2
  intro k x hk
  have t1 := telescopeI ticks (fun i x => (busy cost i : Int) - x.real) 0
    (fun i a b ha hb => by
      have := ((hlinks i a b ha hb).never_early hn).1
      show ((busy cost (i + 1) : Nat) : Int) - b.real ≤ (busy cost i : Int) - a.real + 0
      rw [busy, Int.natCast_add]
      omega)
    k tr x h0 hk
  have t2 := telescopeI ticks
    (fun i x => x.time * sp.den - (x.real - (busy cost i : Int)) * sp.num) 0
    (fun i a b ha hb => by
      have := ((hlinks i a b ha hb).never_early hn).2
      show b.time * (sp.den : Int) - (b.real - ((busy cost (i + 1) : Nat) : Int)) * sp.num ≤
        a.time * sp.den - (a.real - (busy cost i : Int)) * sp.num + 0
      rw [busy, Int.natCast_add]
      simp only [SimTime] at *
      simp only [Int.sub_mul, Int.add_mul] at *
      omega)
    k tr x h0 hk
  simp only [Int.mul_zero, Int.add_zero, busy, Int.natCast_zero, Int.sub_zero] at t1 t2
  rw [ht, hr] at t2
  rw [hr] at t1
  have hb : (0 : Int) ≤ (busy cost k : Int) * (sp.num : Int) :=
    Int.mul_nonneg (by omega) (by omega)
  have h3 : (x.time - t0) * (sp.den : Int) ≤ (x.real - now0 - busy cost k) * sp.num := by
    simp only [SimTime] at *
    simp only [Int.sub_mul] at *
    omega
  have h4 : (x.time - t0) * (sp.den : Int) ≤ (x.real - now0) * sp.num := by
    simp only [SimTime] at *
    simp only [Int.sub_mul] at *
    omega
  refine ⟨by omega, h3, h4, fun hd => ?_⟩
  have := Int.le_ediv_of_mul_le (by omega : (0 : Int) < sp.den) h4
  simp only [SimTime] at *
  omega

/-- **P2, the lag, from non-decreasing tick times.**  Callbacks only, any costs.  For the k-th
tick record `x = ticks[k]`:
`(x.time - t0)/speed ≤ x.real - now0 - busy cost k ≤ (x.time - t0)/speed + k·(1 - 1/sp.num)`. -/
theorem runC_lag_bound_of_mono (S : Static) (orc : Oracle) (fuel : Nat) (t0 : SimTime) (now0 : Int)
    (sp : Speed) (cost : Nat → Nat) (steps nTicks : Nat) (stims : List Stim)
    (m m2 : MasterSt) (tr : TickRec) (ticks : List TickRec)
    (h : masterInitialC S orc fuel sp cost t0 now0 [] = .ok (m, tr, stims))
    (h2 : masterRunC S orc fuel sp cost steps nTicks m stims [tr] = .ok (m2, ticks))
    (hn : 0 < sp.num)
    (hmono : (ticks.map (·.time)).Pairwise (· ≤ ·)) :
    ∀ (k : Nat) (x : TickRec), ticks[k]? = some x →
      (x.time - t0) * sp.den ≤ (x.real - now0 - busy cost k) * sp.num ∧
      (x.real - now0 - busy cost k) * sp.num ≤ (x.time - t0) * sp.den + k * (sp.num - 1) := by
  obtain ⟨_, hlinks, h0, ht, hr⟩ := initial_runC h h2
  intro k x hk
  refine ⟨((runC_never_ahead S orc fuel t0 now0 sp cost steps nTicks [] stims m m2 tr ticks h h2 hn)
    k x hk).2.1, ?_⟩
  have t2 := telescopeI ticks
    (fun i x => (x.real - (busy cost i : Int)) * sp.num - x.time * sp.den) (sp.num - 1)
    (fun i a b ha hb => by
      have := (hlinks i a b ha hb).lag hn rfl (pairwise_consec ticks hmono i a b ha hb)
      show (b.real - ((busy cost (i + 1) : Nat) : Int)) * (sp.num : Int) - b.time * sp.den ≤
        (a.real - (busy cost i : Int)) * sp.num - a.time * sp.den + (sp.num - 1)
      rw [busy, Int.natCast_add]
      simp only [SimTime] at *
      simp only [Int.sub_mul, Int.add_mul] at *
      omega)
    k tr x h0 hk
  simp only [busy, Int.natCast_zero, Int.sub_zero] at t2
  rw [ht, hr] at t2
  generalize (k : Int) * ((sp.num : Int) - 1) = K at *
  simp only [SimTime] at *
  simp only [Int.sub_mul] at *
  omega

/-- **P2, the lag.**  Callbacks only, no device asks to be called back in the past
(`RunNoPast`), ANY costs, any positive speed.  At the k-th tick, real time minus the processing
time spent so far obeys the zero-cost linear law: simulation time is not ahead of
`t0 + speed × (elapsed real time - busy cost k)` and lags behind it by at most `k·(sp.num - 1)` in
units of `1/sp.num` ns — less than 1 ns per tick, the rounding of the sleeps.  Hence the lag
behind real time itself, `(x.real - now0)·num - (x.time - t0)·den` (in units of `1/den` ns of
simulation time), is at least the processing time scaled by the speed, `busy cost k · num`, and at
most that plus the rounding term `k·(num - 1)` of `run_linear_law`: processing costs are never
caught up (each sleep is counted from the end of the previous tick) and nothing else is lost. -/
theorem runC_lag_bound (S : Static) (orc : Oracle) (fuel : Nat) (t0 : SimTime) (now0 : Int)
    (sp : Speed) (cost : Nat → Nat) (steps nTicks : Nat) (stims : List Stim)
    (m m2 : MasterSt) (tr : TickRec) (ticks : List TickRec)
    (h : masterInitialC S orc fuel sp cost t0 now0 [] = .ok (m, tr, stims))
    (h2 : masterRunC S orc fuel sp cost steps nTicks m stims [tr] = .ok (m2, ticks))
    (hn : 0 < sp.num)
    (hnp : RunNoPast orc m2.sim) :
    ∀ (k : Nat) (x : TickRec), ticks[k]? = some x →
      ((x.time - t0) * sp.den ≤ (x.real - now0 - busy cost k) * sp.num ∧
       (x.real - now0 - busy cost k) * sp.num ≤ (x.time - t0) * sp.den + k * (sp.num - 1)) ∧
      (busy cost k * sp.num ≤ (x.real - now0) * sp.num - (x.time - t0) * sp.den ∧
       (x.real - now0) * sp.num - (x.time - t0) * sp.den ≤ busy cost k * sp.num + k * (sp.num - 1)) := by
  intro k x hk
  have hb := runC_lag_bound_of_mono S orc fuel t0 now0 sp cost steps nTicks stims m m2 tr ticks h h2 hn
    (simC_time_monotone S orc fuel t0 now0 sp cost steps nTicks [] stims m m2 tr ticks h h2 hnp) k x hk
  refine ⟨hb, ?_⟩
  obtain ⟨h1, h3⟩ := hb
  generalize (k : Int) * ((sp.num : Int) - 1) = K at *
  simp only [SimTime] at *
  simp only [Int.sub_mul] at *
  omega

/-- **P2, the lag in simulation time.**  Callbacks only, no callback in the past, any costs,
any positive speed `num/den`: at the k-th tick
`t0 + ⌊(x.real - now0)·num/den⌋ - x.time ≤ ⌊(busy cost k · num + k·(num - 1))/den⌋`
— the simulation is behind the scaled real time by no more than the costs so far scaled by the
speed plus the rounding term — and never ahead: the left-hand side is `≥ 0`. -/
theorem runC_lag_simtime (S : Static) (orc : Oracle) (fuel : Nat) (t0 : SimTime) (now0 : Int)
    (sp : Speed) (cost : Nat → Nat) (steps nTicks : Nat) (stims : List Stim)
    (m m2 : MasterSt) (tr : TickRec) (ticks : List TickRec)
    (h : masterInitialC S orc fuel sp cost t0 now0 [] = .ok (m, tr, stims))
    (h2 : masterRunC S orc fuel sp cost steps nTicks m stims [tr] = .ok (m2, ticks))
    (hn : 0 < sp.num) (hd : 0 < sp.den)
    (hnp : RunNoPast orc m2.sim) :
    ∀ (k : Nat) (x : TickRec), ticks[k]? = some x →
      0 ≤ t0 + ((x.real - now0) * sp.num) / sp.den - x.time ∧
      t0 + ((x.real - now0) * sp.num) / sp.den - x.time ≤
        (busy cost k * sp.num + k * (sp.num - 1)) / sp.den := by
  intro k x hk
  have ha := ((runC_never_ahead S orc fuel t0 now0 sp cost steps nTicks [] stims m m2 tr ticks h h2 hn)
    k x hk).2.2.2 hd
  have hb := ((runC_lag_bound S orc fuel t0 now0 sp cost steps nTicks stims m m2 tr ticks h h2 hn hnp)
    k x hk).2.2
  have hd' : (0 : Int) < sp.den := by omega
  refine ⟨by simp only [SimTime] at *; omega, ?_⟩
  have h1 : (x.real - now0) * (sp.num : Int) ≤
      ((busy cost k : Int) * sp.num + k * (sp.num - 1)) + (x.time - t0) * sp.den := by omega
  have h3 := Int.ediv_le_ediv hd' h1
  rw [Int.add_mul_ediv_right _ _ (Int.ne_of_gt hd')] at h3
  simp only [SimTime] at *
  omega

/-- **P2, exact.**  Callbacks only, no callback in the past, any costs, and every wait a whole
number of nanoseconds (`sp.num ∣ (b.time - a.time) * sp.den` for consecutive ticks): simulation
time EQUALS `t0 + speed × (elapsed real time - processing time so far)` at every tick. -/
theorem runC_linear_exact_of_dvd (S : Static) (orc : Oracle) (fuel : Nat) (t0 : SimTime) (now0 : Int)
    (sp : Speed) (cost : Nat → Nat) (steps nTicks : Nat) (stims : List Stim)
    (m m2 : MasterSt) (tr : TickRec) (ticks : List TickRec)
    (h : masterInitialC S orc fuel sp cost t0 now0 [] = .ok (m, tr, stims))
    (h2 : masterRunC S orc fuel sp cost steps nTicks m stims [tr] = .ok (m2, ticks))
    (hn : 0 < sp.num)
    (hnp : RunNoPast orc m2.sim)
    (hdiv : ∀ (i : Nat) (a b : TickRec), ticks[i]? = some a → ticks[i + 1]? = some b →
      (sp.num : Int) ∣ (b.time - a.time) * sp.den) :
    ∀ (k : Nat) (x : TickRec), ticks[k]? = some x →
      (x.time - t0) * sp.den = (x.real - now0 - busy cost k) * sp.num := by
  obtain ⟨_, hlinks, h0, ht, hr⟩ := initial_runC h h2
  have hmono := simC_time_monotone S orc fuel t0 now0 sp cost steps nTicks [] stims m m2 tr ticks h h2 hnp
  intro k x hk
  have h1 := ((runC_never_ahead S orc fuel t0 now0 sp cost steps nTicks [] stims m m2 tr ticks h h2 hn)
    k x hk).2.1
  have t2 := telescopeI ticks
    (fun i x => (x.real - (busy cost i : Int)) * sp.num - x.time * sp.den) 0
    (fun i a b ha hb => by
      have := (hlinks i a b ha hb).exact rfl (pairwise_consec ticks hmono i a b ha hb)
        (hdiv i a b ha hb)
      show (b.real - ((busy cost (i + 1) : Nat) : Int)) * (sp.num : Int) - b.time * sp.den ≤
        (a.real - (busy cost i : Int)) * sp.num - a.time * sp.den + 0
      rw [busy, Int.natCast_add]
      simp only [SimTime] at *
      simp only [Int.sub_mul, Int.add_mul] at *
      omega)
    k tr x h0 hk
  simp only [Int.mul_zero, Int.add_zero, busy, Int.natCast_zero, Int.sub_zero] at t2
  rw [ht, hr] at t2
  simp only [SimTime] at *
  simp only [Int.sub_mul] at *
  omega

/-- **P2, exact, speeds `1/den`.**  With `sp.num = 1` every wait is a whole number of
nanoseconds: `x.time - t0 = speed × (x.real - now0 - busy cost k)` at every tick, any costs. -/
theorem runC_linear_exact (S : Static) (orc : Oracle) (fuel : Nat) (t0 : SimTime) (now0 : Int)
    (sp : Speed) (cost : Nat → Nat) (steps nTicks : Nat) (stims : List Stim)
    (m m2 : MasterSt) (tr : TickRec) (ticks : List TickRec)
    (h : masterInitialC S orc fuel sp cost t0 now0 [] = .ok (m, tr, stims))
    (h2 : masterRunC S orc fuel sp cost steps nTicks m stims [tr] = .ok (m2, ticks))
    (hn : sp.num = 1)
    (hnp : RunNoPast orc m2.sim) :
    ∀ (k : Nat) (x : TickRec), ticks[k]? = some x →
      (x.time - t0) * sp.den = (x.real - now0 - busy cost k) * sp.num :=
  runC_linear_exact_of_dvd S orc fuel t0 now0 sp cost steps nTicks stims m m2 tr ticks h h2
    (by omega) hnp (fun _ _ _ _ _ => by rw [hn]; exact Int.one_dvd _)

/-! ## P3 — stimuli are stamped with the simulation time of their arrival -/

/-- what P3 says about one handled stimulus `ev` (handled in master state `ev.m`, after `ev.k`
tick records, in the middle of tick `ev.k - 1` if `ev.mid`, else after it), with
`now = ev.now = max st.real m.now` the real time at which it is handled and
`stamp = ev.stamp sp = interruptStamp m.tickerTime now m.lastReal sp` the time stamped on it. -/
structure CostRun.StimEvC.Lawful (S : Static) (fuel : Nat) (sp : Speed) (cost : Nat → Nat)
    (t0 : SimTime) (now0 : Int) (ticks : List TickRec) (ev : StimEvC) : Prop where
  /-- `z = ticks[k-1]` is the last tick record before the stimulus; the master has its time, and
  as `lastReal` its END `z.real + cost (k-1)` — or its START `z.real` for a stimulus that is
  handled while the tick is in progress, and then `z.real < st.real`, `now < z.real + cost (k-1)` -/
  last_tick : 1 ≤ ev.k ∧ ∃ z, ticks[ev.k - 1]? = some z ∧ z.time = ev.m.tickerTime ∧
    ev.m.lastReal = (if ev.mid then z.real else z.real + cost (ev.k - 1)) ∧
    (ev.mid = true → z.real < ev.st.real ∧ ev.st.real < z.real + cost (ev.k - 1) ∧
      ev.now < z.real + cost (ev.k - 1))
  /-- real time has not run backwards since `lastReal`, and handling does not move it back -/
  real_mono : ev.m.lastReal ≤ ev.m.now ∧ ev.m.now ≤ ev.now
  /-- **stamp law**: `stamp - tickerTime = ⌊(now - lastReal) × speed⌋` -/
  stamp_law : (ev.stamp sp - ev.m.tickerTime) * sp.den ≤ (ev.now - ev.m.lastReal) * sp.num ∧
    (ev.now - ev.m.lastReal) * sp.num < (ev.stamp sp - ev.m.tickerTime + 1) * sp.den
  /-- the same with the floor written as integer division (the argument is `≥ 0`) -/
  stamp_eq : ev.stamp sp = ev.m.tickerTime + ((ev.now - ev.m.lastReal) * sp.num) / sp.den
  /-- the stamp is never ahead of real time: `(stamp - t0)/speed ≤ now - now0` -/
  not_ahead : (ev.stamp sp - t0) * sp.den ≤ (ev.now - now0) * sp.num
  /-- the wakeup written for the interrupting top-level component is not after the stamp -/
  when_le : ev.when S fuel sp ≤ ev.stamp sp
  /-- for a stimulus handled between ticks: a tick for `stamp` is due at once, and the next tick
  record `ticks[k]`, if there is one, is started at that very real time `now`, for a simulation
  time `≤ ev.when`; it is either the tick for `ev.when`, and then it serves the interrupt
  (`ev.top ∈ roots`), or the tick of an earlier wakeup that is served first. -/
  served : ev.mid = false →
    dueReal { ev.m with now := ev.now } sp (ev.stamp sp) = ev.now ∧
    ∀ x, ticks[ev.k]? = some x → x.real = ev.now ∧ x.time ≤ ev.when S fuel sp ∧
      (x.time = ev.when S fuel sp → ev.top S fuel ∈ x.roots)

/-- what handling a stimulus writes (between ticks or in the middle of one): the interrupting
top-level component `ev.top` gets the wakeup `ev.when`, which is `ev.stamp sp` unless an earlier
wakeup of `top` is still pending, which is kept; real time moves to `ev.now`; the ticker time and
`lastReal` are untouched. -/
theorem stampC_written (S : Static) (fuel : Nat) (sp : Speed) (ev : StimEvC) :
    ((stimStepC S fuel sp ev.m ev.st).sim.sched "").wake =
      addWakeup (ev.m.sim.sched "").wake (ev.top S fuel) (ev.when S fuel sp) ∧
    ev.when S fuel sp ≤ ev.stamp sp ∧
    (stimStepC S fuel sp ev.m ev.st).now = ev.now ∧
    (stimStepC S fuel sp ev.m ev.st).tickerTime = ev.m.tickerTime ∧
    (stimStepC S fuel sp ev.m ev.st).lastReal = ev.m.lastReal :=
  ⟨stimStep_wake S fuel sp ev.m ev.st, stimWhen_le_stamp _ _ _, rfl, rfl, rfl⟩

/-- **P3.**  Whole simulation with stimuli and costs.  The stimuli handled are, in order, those
handled in the middle of the initial tick (`initLogC`, computed alongside `masterInitialC`) and
those handled by the run (`runLogC`, computed alongside `masterRunC`): an initial segment of the
given stimuli `stims0`.  Every one of them is `Lawful`: it is stamped with the simulation time
that corresponds to the real time `now` at which it is handled — counted from the END
`real_k + cost k` of the last tick `k` when it is handled between ticks, from the START `real_k`
of the tick in progress otherwise; the stamp is never ahead of real time; and after a stimulus
handled between ticks the next tick record is started at that very real time `now`, for the
wakeup written for the interrupt unless an earlier wakeup is served first. -/
theorem runC_stamp_law (S : Static) (orc : Oracle) (fuel : Nat) (t0 : SimTime) (now0 : Int)
    (sp : Speed) (cost : Nat → Nat) (steps nTicks : Nat) (stims0 stims : List Stim)
    (m m2 : MasterSt) (tr : TickRec) (ticks : List TickRec)
    (h : masterInitialC S orc fuel sp cost t0 now0 stims0 = .ok (m, tr, stims))
    (h2 : masterRunC S orc fuel sp cost steps nTicks m stims [tr] = .ok (m2, ticks))
    (hn : 0 < sp.num) (hd : 0 < sp.den) :
    (∃ rest, stims0 = (initLogC S orc fuel sp cost t0 now0 stims0 ++
      runLogC S orc fuel sp cost steps nTicks m stims 1).map (·.st) ++ rest) ∧
    ∀ ev ∈ initLogC S orc fuel sp cost t0 now0 stims0 ++
        runLogC S orc fuel sp cost steps nTicks m stims 1,
      ev.Lawful S fuel sp cost t0 now0 ticks := by
  obtain ⟨hrun, _, h0, ht, hr⟩ := initial_runC h h2
  obtain ⟨hs1, hinit⟩ := masterInitialC_log h
  obtain ⟨_, _, h3, h4, h5, _, _⟩ := masterInitialC_shape h
  refine ⟨?_, ?_⟩
  · obtain ⟨rest, hrest⟩ := hrun.log_stims
    exact ⟨rest, by rw [List.map_append, List.append_assoc, ← hrest]; exact hs1⟩
  -- the facts about one event, in a common form
  have key : ∀ ev ∈ initLogC S orc fuel sp cost t0 now0 stims0 ++
        runLogC S orc fuel sp cost steps nTicks m stims 1,
      ev.m.lastReal ≤ ev.m.now ∧
        1 ≤ ev.k ∧ ∃ z', ticks[ev.k - 1]? = some z' ∧ z'.time = ev.m.tickerTime ∧
          (z'.time - t0) * sp.den ≤ (z'.real - now0) * sp.num ∧
          (ev.mid = false → z'.real + cost (ev.k - 1) = ev.m.lastReal) ∧
          (ev.mid = true → z'.real = ev.m.lastReal ∧ z'.real < ev.st.real ∧
            ev.st.real < z'.real + cost (ev.k - 1) ∧ ev.now < z'.real + cost (ev.k - 1)) := by
    intro ev hev
    rcases List.mem_append.1 hev with hev | hev
    · obtain ⟨k1, k2, k3, k4, k5, k6, k7, k8⟩ := hinit ev hev
      refine ⟨k5, by omega, tr, by rw [k1]; exact h0, by rw [ht, k3], by rw [ht, hr]; simp,
        fun hmid => (by rw [k2] at hmid; cases hmid), fun _ => ?_⟩
      rw [k1, hr, k4]
      exact ⟨rfl, k6, k7, k8⟩
    · exact hrun.events hn t0 now0 tr rfl (by rw [ht, h3]) (by rw [hr, h4]; rfl) (by omega)
        (by rw [ht, hr]; simp) ev hev
  intro ev hev
  obtain ⟨e1, e2, z, ez, ezt, ezi, ef, et⟩ := key ev hev
  have hnow : ev.m.now ≤ ev.now := by unfold StimEv.now; split <;> omega
  have hlast : ev.m.lastReal ≤ ev.now := Int.le_trans e1 hnow
  have hstamp := stamp_law ev.m.tickerTime ev.now ev.m.lastReal sp hd hlast
  have hzl : z.real ≤ ev.m.lastReal := by
    cases hm : ev.mid with
    | false => have := ef hm; omega
    | true => have := (et hm).1; omega
  refine ⟨⟨e2, z, ez, ezt, ?_, fun hm => (et hm).2⟩, ⟨e1, hnow⟩, hstamp, ?_, ?_,
    stimWhen_le_stamp _ _ _, fun hm => ⟨?_, ?_⟩⟩
  · cases hm : ev.mid with
    | false => simp only [Bool.false_eq_true, if_false]; exact (ef hm).symm
    | true => simp only [if_true]; exact (et hm).1.symm
  · have := interruptStamp_sub ev.m.tickerTime ev.now ev.m.lastReal sp hlast
    show interruptStamp ev.m.tickerTime ev.now ev.m.lastReal sp = _
    simp only [SimTime] at *
    omega
  · have h1 := hstamp.1
    have hz : (z.real - now0) * (sp.num : Int) ≤ (ev.m.lastReal - now0) * (sp.num : Int) :=
      Int.mul_le_mul_of_nonneg_right (by omega) (by omega)
    show (interruptStamp ev.m.tickerTime ev.now ev.m.lastReal sp - t0) * (sp.den : Int) ≤ _
    rw [← ezt] at h1 ⊢
    generalize interruptStamp z.time ev.now ev.m.lastReal sp = X at *
    generalize ev.now = N at *
    simp only [SimTime] at *
    simp only [Int.sub_mul] at *
    omega
  · exact interrupt_due_now { ev.m with now := ev.now } sp hd hn hlast
  · rcases List.mem_append.1 hev with hev' | hev'
    · have := (hinit ev hev').2.1
      rw [this] at hm
      cases hm
    · exact hrun.served hd (by omega) ev hev' hm

/-- **P3, the stamp written out.**  For every handled stimulus `ev`, with `z = ticks[ev.k - 1]`
the last tick record before it and `now = max st.real m.now` the real time at which it is handled:
* handled between ticks: `stamp = z.time + ⌊(now - (z.real + cost (k-1)))·num/den⌋`, with
  `now ≥ z.real + cost (k-1)`, the end of that tick;
* handled while tick `z` is in progress: `stamp = z.time + ⌊(now - z.real)·num/den⌋`, with
  `z.real < now < z.real + cost (k-1)`: relative to the START of the tick. -/
theorem runC_stamp_formula (S : Static) (orc : Oracle) (fuel : Nat) (t0 : SimTime) (now0 : Int)
    (sp : Speed) (cost : Nat → Nat) (steps nTicks : Nat) (stims0 stims : List Stim)
    (m m2 : MasterSt) (tr : TickRec) (ticks : List TickRec)
    (h : masterInitialC S orc fuel sp cost t0 now0 stims0 = .ok (m, tr, stims))
    (h2 : masterRunC S orc fuel sp cost steps nTicks m stims [tr] = .ok (m2, ticks))
    (hn : 0 < sp.num) (hd : 0 < sp.den) :
    ∀ ev ∈ initLogC S orc fuel sp cost t0 now0 stims0 ++
        runLogC S orc fuel sp cost steps nTicks m stims 1,
      ∃ z, ticks[ev.k - 1]? = some z ∧ ev.now = max ev.st.real ev.m.now ∧
        (ev.mid = false → z.real + cost (ev.k - 1) ≤ ev.now ∧
          ev.stamp sp = z.time + ((ev.now - (z.real + cost (ev.k - 1))) * sp.num) / sp.den) ∧
        (ev.mid = true → z.real < ev.now ∧ ev.now < z.real + cost (ev.k - 1) ∧
          ev.stamp sp = z.time + ((ev.now - z.real) * sp.num) / sp.den) := by
  intro ev hev
  obtain ⟨⟨_, z, hz, hzt, hzl, hmid⟩, ⟨hr1, hr2⟩, _, heq, _⟩ :=
    (runC_stamp_law S orc fuel t0 now0 sp cost steps nTicks stims0 stims m m2 tr ticks h h2 hn hd).2
      ev hev
  refine ⟨z, hz, ev.toStimEv.now_eq_max, fun hm => ?_, fun hm => ?_⟩
  · rw [hm] at hzl
    simp only [Bool.false_eq_true, if_false] at hzl
    rw [heq, hzt, hzl]
    exact ⟨by omega, rfl⟩
  · rw [hm] at hzl
    simp only [if_true] at hzl
    have := hmid hm
    rw [heq, hzt, hzl]
    refine ⟨?_, this.2.2, rfl⟩
    have : ev.st.real ≤ ev.now := by
      show ev.st.real ≤ (if ev.st.real < ev.m.now then ev.m.now else ev.st.real)
      split <;> omega
    omega

/-- **P3, the real time of a stimulus.**  When the stimuli come in the order of their real times
and none lies at or before the start `now0` of the simulation, every handled stimulus is handled
at its own real time: `now = st.real`.  So the stamps of `runC_stamp_formula` read
`t_k + ⌊(st.real - (real_k + cost k))·num/den⌋` between ticks and `t_k + ⌊(st.real - real_k)·num/den⌋`
in the middle of tick `k`. -/
theorem runC_stim_now (S : Static) (orc : Oracle) (fuel : Nat) (t0 : SimTime) (now0 : Int)
    (sp : Speed) (cost : Nat → Nat) (steps nTicks : Nat) (stims0 stims : List Stim)
    (m m2 : MasterSt) (tr : TickRec) (ticks : List TickRec)
    (h : masterInitialC S orc fuel sp cost t0 now0 stims0 = .ok (m, tr, stims))
    (h2 : masterRunC S orc fuel sp cost steps nTicks m stims [tr] = .ok (m2, ticks))
    (hs : stims0.Pairwise (fun a b => a.real ≤ b.real))
    (hm : ∀ x ∈ stims0, now0 < x.real) :
    ∀ ev ∈ initLogC S orc fuel sp cost t0 now0 stims0 ++
        runLogC S orc fuel sp cost steps nTicks m stims 1,
      ev.now = ev.st.real := by
  obtain ⟨hrun, _⟩ := initial_runC h h2
  obtain ⟨h1, h3, h4⟩ := masterInitialC_sorted h hs hm
  intro ev hev
  have hle : ev.m.now ≤ ev.st.real := by
    rcases List.mem_append.1 hev with hev | hev
    · exact h1 ev hev
    · exact hrun.now_le h3 h4 ev hev
  show (if ev.st.real < ev.m.now then ev.m.now else ev.st.real) = ev.st.real
  rw [if_neg (by omega)]

/-! ## non-vacuity and tightness (evaluated at build time)

The master level of `Props/C12Run.lean` (`C12RunEx.S`): two devices, `d` asks to be called back
periodically, `e` never does.  Non-zero costs, speeds `≠ 1`. -/

namespace C12CostEx

open C12RunEx

/-- the costs of the first ticks, then `dflt` -/
def costOf (l : List Nat) (dflt : Nat) : Nat → Nat := fun k => l[k]?.getD dflt

/-- the tick records `(time, real, roots)` of a run from `t0 = 0`, `now0 = 0`, whether
`RunNoPast` holds in the final state, and for every tick `k` the lag with the processing time
taken out, `(real_k - busy cost k) * num - time_k * den` (in units of `1/num` ns of real time) -/
def run (orc : Oracle) (sp : Speed) (cost : Nat → Nat) (stims : List Stim) (k : Nat) :
    Option (List (Int × Int × List Comp) × Bool × List Int) :=
  match masterInitialC S orc 10 sp cost 0 0 stims with
  | .ok (m, tr, rest) =>
    match masterRunC S orc 10 sp cost 200 k m rest [tr] with
    | .ok (m2, ticks) =>
      some (ticks.map (fun x => (x.time, x.real, x.roots)), runNoPastB orc m2.sim,
        (List.range ticks.length).map (fun i => match ticks[i]? with
          | some x => (x.real - busy cost i) * sp.num - x.time * sp.den
          | none => 0))
    | .error _ => none
  | .error _ => none

/-- the handled stimuli: `(st.real, st.comp, k, mid, now, stamp, top, when)` -/
def log (orc : Oracle) (sp : Speed) (cost : Nat → Nat) (stims : List Stim) (k : Nat) :
    Option (List (Int × Comp × Nat × Bool × Int × SimTime × Comp × SimTime)) :=
  match masterInitialC S orc 10 sp cost 0 0 stims with
  | .ok (m, _, rest) =>
    some ((initLogC S orc 10 sp cost 0 0 stims ++ runLogC S orc 10 sp cost 200 k m rest 1).map
      (fun ev => (ev.st.real, ev.st.comp, ev.k, ev.mid, ev.now, ev.stamp sp, ev.top S 10,
        ev.when S 10 sp)))
  | .error _ => none

/-- the zero-cost run of `Props/C12Run.lean`, in the same format -/
def run0 (orc : Oracle) (sp : Speed) (stims : List Stim) (k : Nat) :
    Option (List (Int × Int × List Comp)) :=
  (C12RunEx.run orc sp stims k).map (·.1)

-- Z: with all costs 0 the tick records are those of the zero-cost model (`masterRunC_zero_cost`)
#guard (run [("d", per 10 30), ("e", quiet 30)] ⟨3, 2⟩ (fun _ => 0) [⟨3, "e"⟩, ⟨3, "d"⟩, ⟨5, "e"⟩] 5).map (·.1) ==
  run0 [("d", per 10 30), ("e", quiet 30)] ⟨3, 2⟩ [⟨3, "e"⟩, ⟨3, "d"⟩, ⟨5, "e"⟩] 5

-- P1/P2, speed 3/2, period 2, costs 5, 0, 7, 1, 3: each wait is 4/3 ns, slept as 2 ns from the
-- END of the previous tick: real = 0, 0+5+2, 7+0+2, 9+7+2, 18+1+2, 21+3+2 (`runC_step_computed`).
-- The lag with the processing time (busy = 0, 5, 5, 12, 13, 16) taken out is exactly
-- `k * (num - 1) = 2k`: the bound of `runC_lag_bound` is attained.
#guard run [("d", per 2 30), ("e", quiet 30)] ⟨3, 2⟩ (costOf [5, 0, 7, 1, 3] 2) [] 5 ==
  some ([(0, 0, ["d", "e"]), (2, 7, ["d"]), (4, 9, ["d"]), (6, 18, ["d"]), (8, 21, ["d"]), (10, 26, ["d"])],
    true, [0, 2, 4, 6, 8, 10])
-- the step formula and the lag bound of tick 3 on these numbers
example : (18 : Int) = 9 + (7 : Nat) + (if ((6 : Int) - 4) * (2 : Nat) ≤ 0 then 0 else ceilDiv (((6 : Int) - 4) * (2 : Nat)) (3 : Nat)) := by decide
example : busy (costOf [5, 0, 7, 1, 3] 2) 3 = 12 ∧
    ((6 : Int) - 0) * (2 : Nat) ≤ (18 - 0 - (12 : Nat)) * (3 : Nat) ∧
    ((18 : Int) - 0 - (12 : Nat)) * (3 : Nat) ≤ (6 - 0) * (2 : Nat) + (3 : Nat) * ((3 : Nat) - 1) := by decide
-- speed 2/3, period 1, costs 4, 1, 0, 6, 2: each wait is 3/2 ns, slept as 2 ns; the bound
-- `k * (num - 1) = k` is attained
#guard run [("d", per 1 30), ("e", quiet 30)] ⟨2, 3⟩ (costOf [4, 1, 0, 6] 2) [] 5 ==
  some ([(0, 0, ["d", "e"]), (1, 6, ["d"]), (2, 9, ["d"]), (3, 11, ["d"]), (4, 19, ["d"]), (5, 23, ["d"])],
    true, [0, 1, 2, 3, 4, 5])
-- speed 3/2, period 3: every wait is a whole number of nanoseconds (2): no rounding term, the lag
-- is the processing time and nothing else (`runC_linear_exact_of_dvd`)
#guard run [("d", per 3 30), ("e", quiet 30)] ⟨3, 2⟩ (costOf [5, 0, 7, 1, 3] 2) [] 5 ==
  some ([(0, 0, ["d", "e"]), (3, 7, ["d"]), (6, 9, ["d"]), (9, 18, ["d"]), (12, 21, ["d"]), (15, 26, ["d"])],
    true, [0, 0, 0, 0, 0, 0])
-- speed 1/3 (`num = 1`), period 7: exact (`runC_linear_exact`): real = busy + 3 * time
#guard run [("d", per 7 30), ("e", quiet 30)] ⟨1, 3⟩ (costOf [5, 0, 7, 1, 3] 2) [] 5 ==
  some ([(0, 0, ["d", "e"]), (7, 26, ["d"]), (14, 47, ["d"]), (21, 75, ["d"]), (28, 97, ["d"]), (35, 121, ["d"])],
    true, [0, 0, 0, 0, 0, 0])
-- an overdue tick starts at once, when the previous tick ends (`runC_step_computed`, last part):
-- speed 1/2; at time 6 (tick [17, 20)) `d` asks for time 5: the tick for 5 starts at 17 + 3.
-- The hypothesis "no callback in the past" of `runC_lag_bound` is needed: `RunNoPast` fails, and
-- the lag of tick 2 with the processing time taken out is 2 > k * (num - 1) = 0.  P1 and
-- `runC_never_ahead` hold all the same.
#guard run [("d", [⟨[], some 6, false⟩, ⟨[], some 5, false⟩, ⟨[], none, false⟩]), ("e", quiet 30)] ⟨1, 2⟩
    (costOf [5, 3, 7] 2) [] 5 ==
  some ([(0, 0, ["d", "e"]), (6, 17, ["d"]), (5, 20, ["d"])], false, [0, 0, 2])

-- P3, speed 3/2, costs 4, 3, 2, 6, 1; `d` waits for 10.
-- * real 2, `e`: in the middle of the initial tick [0, 4): stamp `0 + ⌊(2 - 0) * 3/2⌋ = 3`, relative
--   to its START.  Its tick is paced from the end of the initial tick: 4 + ⌈3 * 2/3⌉ = 6.
-- * real 9, `e`: tick 1 is [6, 9), so this is between ticks: stamp `3 + ⌊(9 - (6 + 3)) * 3/2⌋ = 3`,
--   relative to the END of tick 1; served at once, at real time 9 (tick 2, [9, 11)).
-- * real 10, `d`: in the middle of tick 2: stamp `3 + ⌊(10 - 9) * 3/2⌋ = 4` (`min 10 4` for `d`).
--   Its tick: 11 + ⌈1 * 2/3⌉ = 12 (tick 3, [12, 18); `d` then asks for 20: 18 + ⌈16 * 2/3⌉ = 29).
-- * real 30, `e`: tick 4 is [29, 30): between ticks, stamp `20 + ⌊(30 - (29 + 1)) * 3/2⌋ = 20`.
#guard run [("d", per 10 30), ("e", quiet 30)] ⟨3, 2⟩ (costOf [4, 3, 2, 6] 1)
    [⟨2, "e"⟩, ⟨9, "e"⟩, ⟨10, "d"⟩, ⟨30, "e"⟩] 6 ==
  some ([(0, 0, ["d", "e"]), (3, 6, ["e"]), (3, 9, ["e"]), (4, 12, ["d"]), (20, 29, ["d"]), (20, 30, ["e"]),
    (30, 38, ["d"])], true, [0, 0, 0, 1, 2, 2, 3])
#guard log [("d", per 10 30), ("e", quiet 30)] ⟨3, 2⟩ (costOf [4, 3, 2, 6] 1)
    [⟨2, "e"⟩, ⟨9, "e"⟩, ⟨10, "d"⟩, ⟨30, "e"⟩] 6 ==
  some [(2, "e", 1, true, 2, 3, "e", 3), (9, "e", 2, false, 9, 3, "e", 3), (10, "d", 3, true, 10, 4, "d", 4),
    (30, "e", 5, false, 30, 20, "e", 20)]
-- the stamp formulas on these numbers: between ticks (from the end 6 + 3 of tick 1; a later one:
-- real 14 after a tick [6, 9) at time 3 would give 3 + ⌊5 * 3/2⌋ = 10) and mid-tick (from the start 9)
example : interruptStamp 3 9 (6 + 3) ⟨3, 2⟩ = 3 + ((9 - (6 + 3)) * 3) / 2 := by decide
example : interruptStamp 3 14 (6 + 3) ⟨3, 2⟩ = 10 := by decide
example : interruptStamp 3 10 9 ⟨3, 2⟩ = 3 + ((10 - 9) * 3) / 2 := by decide
-- one step with a cost, as the code computes it: previous tick at time 0 started at 100 and took
-- 30 ns; the tick for 1000 at speed 2 is due 500 ns after its END: 130 + 500.  In `Props/C12.lean`
-- the same 30 ns spent after `last_time` was set give 100 + 500.
example : dueReal { tickerTime := 0, lastReal := 100 + 30, now := 100 + 30 } ⟨2, 1⟩ 1000 = 630 := by decide

end C12CostEx

/-
Not covered here:
* an upper bound on the lag for runs WITH stimuli (as in `Props/C12Run.lean`: an interrupt tick
  rounds the stamp DOWN to a whole simulated nanosecond and may be served after an earlier
  wakeup), with or without costs;
* for a stimulus handled in the MIDDLE of a tick, `Lawful` gives its stamp (relative to the start
  of the tick) and `runC_never_early` paces its tick from the END of that tick, so it is served
  `⌈⌊(now - real_k)·speed⌋/speed⌉ ≤ now - real_k` ns after the tick ends unless something earlier is
  served first (example above: arrival at 2 in the tick [0, 4), own tick at 4 + 2); only the lower
  bound (P1) is proved for that;
* the tick itself is atomic in the model (`tickLevel`): a mid-tick interrupt is applied to the
  wakeups left by the tick, which for the interrupting component is what the code produces in
  either order of arrival (see `Core/SimCost.lean`); the interleaving of a mid-tick interrupt with
  the updates of a NESTED scheduler that is itself in the middle of its tick is not modelled;
* the cost of a tick is a parameter (`cost k`): nothing is said about what determines it.
-/

end Tickit
