/-
C11 — a failing component stops the whole simulation cleanly (fail-stop), exception path.
-/
import TickitModel.Lemmas.FailStopLemmas

namespace Tickit

/-- **identity preserved**: at every level, up to the master, the exception that arrives
names the original component and carries the original error — through any nesting depth. -/
theorem identity_preserved (cfg : List Tree) (target : Comp) (err : String) (r : Report)
    (h : failIn "" cfg target err = some r) : r.exc = ⟨target, err⟩ := by
  sorry

/-- **the error reaches the top-level scheduler** whenever the failing device exists anywhere
in the configuration, at any depth. -/
theorem reaches_master (cfg : List Tree) (target : Comp) (err : String)
    (ht : target ∈ devicesOf cfg) :
    ∃ r, failIn "" cfg target err = some r ∧ "" ∈ r.errored ∧ r.errored.getLast? = some "" := by
  sorry

/-- **every component on the way is told to stop**: for every scheduler on the path from the
master down to the failing device, every component it manages was sent `StopComponent`, and
its error flag is up; in particular every top-level component is stopped. -/
theorem all_on_path_stopped (cfg : List Tree) (target : Comp) (err : String) (r : Report)
    (h : failIn "" cfg target err = some r) :
    (∀ t ∈ cfg, t.name ∈ r.stopped) ∧
    (∃ p, pathTo "" cfg target = some p ∧ ∀ lvl ∈ p, lvl.1 ∈ r.errored ∧ ∀ c ∈ lvl.2, c ∈ r.stopped) := by
  sorry

/-- nothing is reported for a component that does not exist -/
theorem no_report_for_unknown (cfg : List Tree) (target : Comp) (err : String)
    (ht : target ∉ devicesOf cfg) : failIn "" cfg target err = none := by
  sorry

/-- once the master's error flag is up no further tick is started, whatever is still due. -/
theorem no_tick_after_error (budget : Nat) : masterTicksAfterError true budget = 0 := by
  sorry

def exCfg : List Tree :=
  [.dev "a", .sys "s1" [.dev "b", .sys "s2" [.dev "deep", .dev "d2"]], .dev "z"]

example : (failIn "" exCfg "deep" "boom").map (·.exc) = some ⟨"deep", "boom"⟩ := by sorry
example : (failIn "" exCfg "deep" "boom").map (·.errored) = some ["s2", "s1", ""] := by sorry
example : (failIn "" exCfg "deep" "boom").map (·.stopped) = some ["deep", "d2", "b", "s2", "a", "s1", "z"] := by sorry

end Tickit
