/-
C11 — a failing component stops the whole simulation cleanly (fail-stop), exception path.
-/
import TickitModel.Lemmas.FailStopLemmas

namespace Tickit

/-- **identity preserved**: at every level, up to the master, the exception that arrives
names the original component and carries the original error — through any nesting depth. -/
theorem identity_preserved (cfg : List Tree) (target : Comp) (err : String) (r : Report)
    (h : failIn "" cfg target err = some r) : r.exc = ⟨target, err⟩ := by
  rw [failIn_eq] at h
  cases hc : findChild cfg target err with
  | none => rw [hc] at h; cases h
  | some r' =>
    rw [hc] at h; cases h
    exact findChild_exc target err cfg r' hc

/-- **the error reaches the top-level scheduler** whenever the failing device exists anywhere
in the configuration, at any depth. -/
theorem reaches_master (cfg : List Tree) (target : Comp) (err : String)
    (ht : target ∈ devicesOf cfg) :
    ∃ r, failIn "" cfg target err = some r ∧ "" ∈ r.errored ∧ r.errored.getLast? = some "" := by
  rw [failIn_eq]
  cases hc : findChild cfg target err with
  | none => exact absurd ht ((findChild_none_iff target err cfg).mp hc)
  | some r' => exact ⟨_, rfl, by simp, by simp⟩

/-- **every component on the way is told to stop**: for every scheduler on the path from the
master down to the failing device, every component it manages was sent `StopComponent`, and
its error flag is up; in particular every top-level component is stopped. -/
theorem all_on_path_stopped (cfg : List Tree) (target : Comp) (err : String) (r : Report)
    (h : failIn "" cfg target err = some r) :
    (∀ t ∈ cfg, t.name ∈ r.stopped) ∧
    (∃ p, pathTo "" cfg target = some p ∧ ∀ lvl ∈ p, lvl.1 ∈ r.errored ∧ ∀ c ∈ lvl.2, c ∈ r.stopped) := by
  rw [failIn_eq] at h
  rw [pathTo_eq]
  cases hc : findChild cfg target err with
  | none => rw [hc] at h; cases h
  | some r' =>
    rw [hc] at h; cases h
    obtain ⟨p, hp, hall⟩ := findChild_path target err cfg r' hc
    refine ⟨fun t ht => List.mem_append_right _ (List.mem_map.mpr ⟨t, ht, rfl⟩), ?_⟩
    refine ⟨p ++ [("", cfg.map Tree.name)], by rw [hp]; rfl, ?_⟩
    intro lvl hl
    rcases List.mem_append.mp hl with hl | hl
    · obtain ⟨h1, h2⟩ := hall lvl hl
      exact ⟨List.mem_append_left _ h1, fun c hc' => List.mem_append_left _ (h2 c hc')⟩
    · simp only [List.mem_singleton] at hl
      subst hl
      exact ⟨by simp, fun c hc' => List.mem_append_right _ hc'⟩

/-- nothing is reported for a component that does not exist -/
theorem no_report_for_unknown (cfg : List Tree) (target : Comp) (err : String)
    (ht : target ∉ devicesOf cfg) : failIn "" cfg target err = none := by
  rw [failIn_eq, (findChild_none_iff target err cfg).mpr ht]; rfl

/-- once the master's error flag is up no further tick is started, whatever is still due. -/
theorem no_tick_after_error (budget : Nat) : masterTicksAfterError true budget = 0 := by
  simp [masterTicksAfterError]

def exCfg : List Tree :=
  [.dev "a", .sys "s1" [.dev "b", .sys "s2" [.dev "deep", .dev "d2"]], .dev "z"]

example : (failIn "" exCfg "deep" "boom").map (·.exc) = some ⟨"deep", "boom"⟩ := by
  simp [exCfg, failIn_eq, findChild_sys, findChild_dev]
example : (failIn "" exCfg "deep" "boom").map (·.errored) = some ["s2", "s1", ""] := by
  simp [exCfg, failIn_eq, findChild_sys, findChild_dev]
example : (failIn "" exCfg "deep" "boom").map (·.stopped) = some ["deep", "d2", "b", "s2", "a", "s1", "z"] := by
  simp [exCfg, failIn_eq, findChild_sys, findChild_dev, Tree.name]

end Tickit

namespace Tickit

/-- what `TickitSimulation.run()` awaits: the master's task and every top-level component's
`run_forever`.  The master's loop ends when its error flag is up; a component's `run_forever`
returns once it was told to stop (its long-running tasks are cancelled). -/
def runReturns (cfg : List Tree) (r : Report) : Prop :=
  "" ∈ r.errored ∧ ∀ t ∈ cfg, t.name ∈ r.stopped

/-- **the run call returns** (at the level of the exception-path model): whenever a device that
exists anywhere in the configuration fails, the master's loop ends and every task the run call
awaits has been told to stop. -/
theorem run_returns (cfg : List Tree) (target : Comp) (err : String) (ht : target ∈ devicesOf cfg) :
    ∃ r, failIn "" cfg target err = some r ∧ runReturns cfg r := by
  obtain ⟨r, hr, hm, _⟩ := reaches_master cfg target err ht
  exact ⟨r, hr, hm, (all_on_path_stopped cfg target err r hr).1⟩

end Tickit
