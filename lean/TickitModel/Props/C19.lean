/-
C19 — the ZeroMQ push stream preserves order and creates one socket.
-/
import TickitModel.Lemmas.ZmqLemmas

namespace Tickit

/-- **one socket**: however sends, the set-up call and latencies interleave, the socket
factory is called at most once; once anything has been written it has been called exactly
once. -/
theorem one_socket (acts : List ZAct) :
    (Zmq.init.run acts).factoryCalls ≤ 1 ∧
    ((Zmq.init.run acts).writes ≠ [] → (Zmq.init.run acts).factoryCalls = 1) := by
  have h := ZInv.run_init acts
  have hfc := h.fc
  refine ⟨by rw [hfc]; split <;> omega, fun hw => ?_⟩
  rw [hfc, if_pos (Or.inl (h.wsock hw))]

/-- **queued messages are written once each, in queue order**: what the queue loop
(sender 0) has written, followed by the message it holds (if it has not written it yet) and
the remaining queue, is exactly the sequence of all messages ever queued. -/
theorem queued_in_order_once (acts : List ZAct) :
    let z := Zmq.init.run acts
    ∃ inflight : List Nat, inflight.length ≤ 1 ∧
      (z.writes.filter (fun w => w.1 == 0)).map (·.2) ++ inflight ++ z.queue = z.queued := by
  obtain ⟨s0, _, hq⟩ := (ZInv.run_init acts).q
  exact ⟨s0.infl, s0.infl_length_le, hq⟩

/-- direct sequences are written in their own order, each message at most once. -/
theorem direct_in_order (acts : List ZAct) (i : Nat) (hi : 0 < i) (s : Sender)
    (hs : (Zmq.init.run acts).senders[i]? = some s) :
    ∃ inflight : List Nat, inflight.length ≤ 1 ∧
      ((Zmq.init.run acts).writes.filter (fun w => w.1 == i)).map (·.2) ++ inflight ++ s.todo = s.orig := by
  exact ⟨s.infl, s.infl_length_le, (ZInv.run_init acts).d i s hi hs⟩

/-- serialisation is part by part: bytes unchanged, part `i` of the output depends only on
part `i` of the input. -/
theorem serialize_parts (m : List Part) :
    (serialize m).length = m.length ∧ ∀ i : Nat, (serialize m)[i]? = (m[i]?).map serializePart := by
  simp [serialize]

theorem serialize_bytes (b : List UInt8) : serializePart (.bytes b) = b := rfl

/-! non-vacuity -/

/-- the queue loop (sender 0) and a direct sequence (sender 1) race for the lock before the
socket exists: sender 0 gets the lock and calls the factory, sender 1 blocks as a waiter and
finds the socket afterwards; one factory call, both messages written. -/
example :
    let z := Zmq.init.run [.enqueue 5, .spawn [7], .step 0, .step 1, .step 0, .step 1,
      .step 0, .step 1, .step 0, .step 1]
    z.factoryCalls = 1 ∧ z.writes = [(0, 5), (1, 7)] ∧ z.waiters = [] ∧ z.lockHeld = none := by
  decide

/-- the intermediate state of the race above: sender 0 holds the lock inside the factory,
sender 1 is queued on the lock, no socket yet. -/
example :
    let z := Zmq.init.run [.enqueue 5, .spawn [7], .step 0, .step 1, .step 0, .step 1]
    z.socket = false ∧ z.lockHeld = some 0 ∧ z.waiters = [1] ∧ z.factoryCalls = 1 ∧
      z.senders.map (·.pc) = [.inFactory, .wantLock] := by
  decide

/-- three queued messages are taken and written by the queue loop in queue order. -/
example :
    let z := Zmq.init.run ([.enqueue 1, .enqueue 2, .enqueue 3] ++ List.replicate 13 (.step 0))
    z.writes = [(0, 1), (0, 2), (0, 3)] ∧ z.queue = [] ∧ z.queued = [1, 2, 3] ∧
      z.factoryCalls = 1 := by
  decide

end Tickit
