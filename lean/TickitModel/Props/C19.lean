/-
C19 — the ZeroMQ push stream preserves order and creates one socket.
-/
import TickitModel.Lemmas.ZmqLemmas

namespace Tickit

/-- **one socket**: however sends, the set-up call and latencies interleave, the socket
factory is called at most once; once anything has been written it has been called exactly
once. -/
theorem one_socket (acts : List ZAct) :
    (Zmq.init.run acts).factoryCalls ≤ 1 ∧
    ((Zmq.init.run acts).writes ≠ [] → (Zmq.init.run acts).factoryCalls = 1) := by
  sorry

/-- **queued messages are written once each, in queue order**: what the queue loop
(sender 0) has written, followed by the message it holds (if it has not written it yet) and
the remaining queue, is exactly the sequence of all messages ever queued. -/
theorem queued_in_order_once (acts : List ZAct) :
    let z := Zmq.init.run acts
    ∃ inflight : List Nat, inflight.length ≤ 1 ∧
      (z.writes.filter (fun w => w.1 == 0)).map (·.2) ++ inflight ++ z.queue = z.queued := by
  sorry

/-- direct sequences are written in their own order, each message at most once. -/
theorem direct_in_order (acts : List ZAct) (i : Nat) (hi : 0 < i) (s : Sender)
    (hs : (Zmq.init.run acts).senders[i]? = some s) :
    ∃ inflight : List Nat, inflight.length ≤ 1 ∧
      ((Zmq.init.run acts).writes.filter (fun w => w.1 == i)).map (·.2) ++ inflight ++ s.todo = s.orig := by
  sorry

/-- serialisation is part by part: bytes unchanged, part `i` of the output depends only on
part `i` of the input. -/
theorem serialize_parts (m : List Part) :
    (serialize m).length = m.length ∧ ∀ i : Nat, (serialize m)[i]? = (m[i]?).map serializePart := by
  sorry

theorem serialize_bytes (b : List UInt8) : serializePart (.bytes b) = b := by
  sorry

end Tickit
